#!/bin/sh
# Builds the overlay interpreter /verif/.venv (offline): /venv's packages (jax, equinox, numpy, ...) + z3-solver
# (+ crosshair-tool, optional cross-check) from the local wheelhouse.  Idempotent.
set -e
cd "$(dirname "$0")"
V=/verif/.venv
if [ -x "$V/bin/python" ] && "$V/bin/python" -c "import z3, jax, numpy" 2>/dev/null; then
  exit 0
fi
rm -rf "$V"
/venv/bin/python -m venv "$V"
SP=$("$V/bin/python" -c "import sysconfig; print(sysconfig.get_paths()['purelib'])")
printf "import site; site.addsitedir('/venv/lib/python3.12/site-packages')\n" > "$SP/_venv_overlay.pth"
PIP_NO_INDEX=1 "$V/bin/pip" install -q --no-index --find-links /opt/veriftools/wheels z3-solver >/dev/null
PIP_NO_INDEX=1 "$V/bin/pip" install -q --no-index --find-links /opt/veriftools/wheels crosshair-tool >/dev/null 2>&1 || true
"$V/bin/python" -c "import z3, jax, numpy; print('overlay ok: z3', z3.get_version_string(), 'jax', jax.__version__)"
