"""Obligation bookkeeping, solver wrapper, replay / known-finding handling, evidence writer, case runner."""
from __future__ import annotations

import json
import os
import re
import subprocess
import sys
import tempfile
import time
import traceback
from fractions import Fraction

import numpy as np
import z3

from . import sc
from .sc import Cx, isz

VERIF = os.path.dirname(os.path.dirname(os.path.abspath(__file__)))
EXIT_OK, EXIT_VIOLATION, EXIT_INCONCLUSIVE = 0, 1, 3


class Inconclusive(Exception):
    pass


def model_value(m, t):
    """z3 term / scalar -> python float (or bool/int) under model m (model completion on)."""
    if isinstance(t, Cx):
        return complex(model_value(m, t.re), model_value(m, t.im))
    if not isz(t):
        return t if isinstance(t, (bool, int)) else float(t)
    v = m.eval(t, model_completion=True)
    if z3.is_true(v):
        return True
    if z3.is_false(v):
        return False
    if z3.is_int_value(v):
        return v.as_long()
    if z3.is_rational_value(v):
        return float(Fraction(v.numerator_as_long(), v.denominator_as_long()))
    if z3.is_algebraic_value(v):
        return float(v.approx(20).as_fraction())
    try:
        return float(v.as_fraction())
    except Exception:
        raise Inconclusive(f"cannot evaluate model value {v}")


def model_array(m, a):
    a = np.asarray(a) if not (isinstance(a, np.ndarray)) else a
    if a.dtype != object:
        return a
    flat = [model_value(m, v) for v in a.reshape(-1)]
    if any(isinstance(v, complex) for v in flat):
        return np.array(flat, dtype=np.complex128).reshape(a.shape)
    if flat and all(isinstance(v, bool) for v in flat):
        return np.array(flat, dtype=bool).reshape(a.shape)
    if flat and all(isinstance(v, (bool, int)) for v in flat):
        return np.array(flat, dtype=np.int64).reshape(a.shape)
    return np.array(flat, dtype=np.float64).reshape(a.shape)


def jsonable(x):
    if isinstance(x, dict):
        return {str(k): jsonable(v) for k, v in x.items()}
    if isinstance(x, (list, tuple)):
        return [jsonable(v) for v in x]
    if isinstance(x, np.ndarray):
        if np.iscomplexobj(x):
            return {"re": x.real.tolist(), "im": x.imag.tolist()}
        return x.tolist()
    if isinstance(x, (np.floating, np.integer, np.bool_)):
        return x.item()
    if isinstance(x, complex):
        return {"re": x.real, "im": x.imag}
    if isinstance(x, Fraction):
        return float(x)
    if isinstance(x, (str, int, float, bool)) or x is None:
        return x
    return str(x)


def _ast_size(t, cap=5000):
    seen = set()
    stack = [t]
    n = 0
    while stack and n < cap:
        u = stack.pop()
        if u.get_id() in seen:
            continue
        seen.add(u.get_id())
        n += 1
        stack.extend(u.children())
    return n if n < cap else f">={cap}"


class Normalizer:
    """z3.simplify driven bottom-up over the term DAG with a memo that persists across obligations of one case.

    ``z3.simplify`` caches only within one call; the obligations of one case (every entry of every output array after
    T steps) share almost all of their sub-DAG, and re-normalising it per entry dominated the wall time of the deep
    tiers (2-5 s per entry at T = 5..7, minutes per case).  Here every DAG node is simplified once, with already
    normalised children; the result of each step is z3's own equivalence-preserving simplification, so the verdicts
    are unchanged."""

    def __init__(self):
        self.memo = {}

    def __call__(self, t):
        memo = self.memo
        tid = t.get_id()
        if tid in memo:
            return memo[tid][1]
        stack = [(t, False)]
        while stack:
            u, done = stack.pop()
            uid = u.get_id()
            if uid in memo:
                continue
            if not z3.is_app(u) or u.num_args() == 0:
                memo[uid] = (u, u)
                continue
            ch = u.children()
            if not done:
                stack.append((u, True))
                for c in ch:
                    if c.get_id() not in memo:
                        stack.append((c, False))
                continue
            nch = [memo[c.get_id()][1] for c in ch]
            r = u
            if any(not a.eq(b) for a, b in zip(ch, nch)):
                try:
                    r = u.decl()(*nch)
                except Exception:  # noqa: BLE001  (parametric declarations that cannot be re-applied: keep the node)
                    r = u
            memo[uid] = (u, z3.simplify(r))
        return memo[tid][1]



class Case:
    """Per-case obligation context (one worker runs one case)."""

    def __init__(self, prop, name, tier, seed, timeout_ms):
        self.prop, self.name, self.tier, self.seed = prop, name, tier, seed
        self.timeout_ms = timeout_ms
        self._norm = Normalizer()
        self.obligations = 0
        self.discharged = 0
        self.queries = 0
        self.nontrivial = set()
        self.trivial = 0
        self.solver_s = 0.0
        self.interp_s = 0.0
        self.violations = []  # dicts: key, obligation, detail, replay
        self.inconclusive = []
        self.samples = []
        self.twins_sat = 0
        self.twins_total = 0
        self.functions = set()
        self.bounds = {}
        self.symvars = 0
        self.extra = {}
        self.smt_dumps = []  # (name, smt2 text, verdict) sample for second-solver run
        self.validation = {"inputs": 0, "max_rel_err": 0.0}
        self.paths = 0
        self.notes = []

    # ------------------------------------------------------------------ solver plumbing
    def _solver(self):
        s = z3.Solver()
        s.set("timeout", int(self.timeout_ms))
        return s

    def _probe(self, assertions, attempts=12):
        """Counterexample search for a query the solver does not decide quickly: every free constant is pinned to a
        random small rational / integer and the *solver* evaluates the assertions under that pinning (a ground query).
        Used only to find models (which are then replayed on the real code), never to discharge an obligation."""
        consts = {}
        for a in assertions:
            stack, seen = [a], set()
            while stack:
                u = stack.pop()
                i = u.get_id()
                if i in seen:
                    continue
                seen.add(i)
                if z3.is_const(u):
                    if u.decl().kind() == z3.Z3_OP_UNINTERPRETED:
                        consts[i] = u
                else:
                    stack.extend(u.children())
        if not consts or len(consts) > 5000:
            return None
        rnd = self.__dict__.setdefault("_probe_rng", np.random.default_rng(self.seed + 977))
        for k in range(attempts):
            s = z3.Solver()
            s.set("timeout", 3000)
            for a in assertions:
                s.add(a)
            for v in consts.values():
                if z3.is_real(v):
                    num, den = int(rnd.integers(1, 9)), int(rnd.integers(1, 5))
                    if k % 3 == 2 and rnd.random() < 0.5:
                        num = -num
                    s.add(v == z3.RealVal(Fraction(num, den)))
                elif z3.is_int(v):
                    s.add(v == int(rnd.integers(-2 if k % 3 == 2 else 0, 7)))
            t0 = time.time()
            r = s.check()
            self.solver_s += time.time() - t0
            self.queries += 1
            if r == z3.sat:
                m = s.model()
                if all(z3.is_true(m.eval(a, model_completion=True)) for a in assertions):
                    self.extra["models_from_pinned_probe"] = self.extra.get("models_from_pinned_probe", 0) + 1
                    return m
        return None

    def _check(self, assertions):
        unknowns = self.__dict__.setdefault("_unknowns", 0)
        full = int(self.timeout_ms) if unknowns < 3 else min(int(self.timeout_ms), 10000)  # after 3 undecided queries the case is inconclusive anyway: stop spending the full budget per entry
        first = min(full, 4000)
        s = z3.Solver()
        s.set("timeout", first)
        for a in assertions:
            s.add(a)
        t0 = time.time()
        r = s.check()
        self.solver_s += time.time() - t0
        self.queries += 1
        if r == z3.unknown and first < full:
            m = self._probe(assertions)
            if m is not None:
                return "sat", m, s
            s = z3.Solver()
            s.set("timeout", full)
            for a in assertions:
                s.add(a)
            t0 = time.time()
            r = s.check()
            self.solver_s += time.time() - t0
            self.queries += 1
        if r == z3.sat:
            m = s.model()
            for a in assertions:
                if not z3.is_true(m.eval(a, model_completion=True)):
                    # invalid model (observed with z3 5.1 on mixed Int/Real nonlinear queries): ask the old z3
                    r2 = external_z3(s.to_smt2(), self.timeout_ms)
                    if r2 == "unsat":
                        return "unsat", None, s
                    return "unknown", None, s
            return "sat", m, s
        if r == z3.unsat:
            return "unsat", None, s
        # unknown: second opinion from z3 4.8.12 / cvc5 on the dumped query
        smt = s.to_smt2()
        for fn in (external_z3, external_cvc5):
            r2 = fn(smt, full)
            if r2 == "unsat":
                self.notes.append("a z3-5.1 'unknown' was decided unsat by " + fn.__name__)
                return "unsat", None, s
        self._unknowns = unknowns + 1
        return "unknown", None, s

    def _vars(self, t):
        """names of uninterpreted constants in t (memoised per term id)."""
        memo = self.__dict__.setdefault("_varmemo", {})
        tid = t.get_id()
        if tid in memo:
            return memo[tid][1]
        seen, out, stack = set(), set(), [t]
        while stack:
            u = stack.pop()
            i = u.get_id()
            if i in seen:
                continue
            seen.add(i)
            if z3.is_const(u):
                if u.decl().kind() == z3.Z3_OP_UNINTERPRETED:
                    out.add(i)
            else:
                stack.extend(u.children())
        memo[tid] = (t, out)  # keep the term alive: z3 ast ids are reused after garbage collection
        return out

    def _relevant(self, assume, neg):
        """cone-of-influence weakening: keep only assumptions sharing a variable with the negated claim (dropping
        assumptions is sound for an unsat verdict; a non-unsat verdict is re-asked with all assumptions)."""
        if len(assume) <= 8:
            return list(assume)
        v = set(self._vars(neg))
        chosen = [False] * len(assume)
        changed = True
        while changed:
            changed = False
            for i, a in enumerate(assume):
                if chosen[i] or isinstance(a, bool):
                    continue
                va = self._vars(a)
                if va & v:
                    chosen[i] = True
                    if not va <= v:
                        v |= va
                        changed = True
        return [a for i, a in enumerate(assume) if chosen[i]]

    # ------------------------------------------------------------------ obligations
    def prove(self, name, claim, assume=(), replay=None, key=None, sample=None):
        """Obligation: assume => claim for all values of the free variables.  claim/assume are z3 Bools or Python bools.
        replay(model) -> (violated: bool, detail: dict) re-runs the real code in float64 on the witness."""
        self.obligations += 1
        assume = [a for a in assume if not (isinstance(a, bool) and a)]
        if any(isinstance(a, bool) and not a for a in assume):
            raise Inconclusive(f"{name}: assumption is constant False (vacuous)")
        if isinstance(claim, (bool, np.bool_)):
            if claim:
                self.discharged += 1
                self.trivial += 1
                return True
            neg = z3.BoolVal(True)
        else:
            neg = z3.Not(claim)
        sneg = self._norm(neg)
        if z3.is_false(sneg):
            self.trivial += 1
        else:
            self.nontrivial.add(sneg.hash())
        neg = sneg  # the solver is given z3's own simplification of the negated claim (equivalence preserving)
        rel = self._relevant(assume, neg)
        verdict, m, s = self._check(rel + [neg])
        if verdict != "unsat" and len(rel) < len(assume):
            verdict, m, s = self._check(list(assume) + [neg])
        if len(self.smt_dumps) < 2 and not z3.is_false(sneg):
            try:
                self.smt_dumps.append((name, s.to_smt2(), verdict))
            except Exception:
                pass
        if len(self.samples) < 3:
            self.samples.append(dict(case=self.name, obligation=name, verdict=verdict,
                                     **(sample or {}), n_assumptions=len(assume),
                                     claim_ast_nodes=_ast_size(sneg)))
        if verdict == "unsat":
            self.discharged += 1
            return True
        if verdict == "unknown":
            self.inconclusive.append(f"{self.name}/{name}: solver returned unknown within {self.timeout_ms} ms")
            return False
        # sat: replay on the real code before reporting
        if replay is None:
            self.inconclusive.append(f"{self.name}/{name}: counterexample found but no replay available")
            return False
        try:
            violated, detail = replay(m)
        except Inconclusive as ex:
            self.inconclusive.append(f"{self.name}/{name}: replay inconclusive: {ex}")
            return False
        except Exception as ex:  # noqa: BLE001
            self.inconclusive.append(f"{self.name}/{name}: replay raised {type(ex).__name__}: {ex}")
            return False
        if not violated:
            self.inconclusive.append(f"{self.name}/{name}: solver witness did not reproduce on the real code in float64 ({jsonable(detail)})"[:600])
            return False
        self.violations.append(dict(key=key or f"{self.name}/{name}", case=self.name, obligation=name, detail=jsonable(detail)))
        return False

    def prove_eq(self, name, lhs, rhs, assume=(), replay=None, key=None, chunk=1, tol=None, box=None, roundoff=None, scale=1.0):
        """entrywise equality of two (object) arrays, one query per entry.

        roundoff=r: "equal up to round-off of placement-time constants".  Per entry the exact identity is tried first;
        if it fails, the *tolerance query* is posed: every free variable boxed to [-1, 1], claim |lhs-rhs| <= r*scale,
        with the difference brought to sum-of-monomials form by z3 and every non-linear monomial of boxed variables
        abstracted by a fresh variable in [-1, 1] (sound relaxation; the query stays in QF_LRA).  ``scale`` is the
        typical magnitude of the compared quantity (so r is a relative tolerance)."""
        from .jx2smt import lift

        if roundoff is not None:
            a, b = lift(lhs), lift(rhs)
            if a.shape != b.shape:
                a, b = np.broadcast_arrays(a, b)
            ok = True
            for i, (x, y) in enumerate(zip(a.reshape(-1), b.reshape(-1))):
                if isinstance(x, Cx) or isinstance(y, Cx):
                    x, y = sc.cx(x), sc.cx(y)
                    ok &= self._prove_roundoff(f"{name}[{i}].re", x.re, y.re, assume, replay, key, roundoff * scale)
                    ok &= self._prove_roundoff(f"{name}[{i}].im", x.im, y.im, assume, replay, key, roundoff * scale)
                else:
                    ok &= self._prove_roundoff(f"{name}[{i}]", x, y, assume, replay, key, roundoff * scale)
            return ok

        a, b = lift(lhs), lift(rhs)
        if a.shape != b.shape:
            a, b = np.broadcast_arrays(a, b)
        af, bf = a.reshape(-1), b.reshape(-1)
        ok = True
        diffs = []
        for x, y in zip(af, bf):
            if isinstance(x, Cx) or isinstance(y, Cx):
                x, y = sc.cx(x), sc.cx(y)
                diffs.append((x.re, y.re))
                diffs.append((x.im, y.im))
            else:
                diffs.append((x, y))
        for i in range(0, len(diffs), chunk):
            part = diffs[i:i + chunk]
            cl = []
            for x, y in part:
                if tol is None:
                    c = sc.eq(x, y)
                else:
                    d = sc.sub(x, y)
                    c = sc.and_(sc.le(d, tol), sc.ge(d, -tol))
                cl.append(c)
            conc = [c for c in cl if not isz(c)]
            if any(not c for c in conc):
                claim = False
            else:
                zs = [c for c in cl if isz(c)]
                claim = z3.And(*zs) if zs else True
            ok &= self.prove(f"{name}[{i}:{i + len(part)}]", claim, assume, replay, key)
        return ok

    def _prove_roundoff(self, name, x, y, assume, replay, key, tol):
        if not isz(x) and not isz(y):
            d = abs(float(x) - float(y))
            return self.prove(name, bool(d <= tol), (), None, key) if d <= tol else self.prove(name, False, assume, replay, key)
        if isz(x) and isz(y) and x.eq(y):
            return self.prove(name, True)  # the same hash-consed term on both sides
        d = self._norm(sc.toreal(sc.toz(x)) - sc.toreal(sc.toz(y)))  # cheap normalisation first: identical structure collapses to 0
        if not (z3.is_rational_value(d) or z3.is_int_value(d)):
            d = z3.simplify(d, som=True)
        if z3.is_rational_value(d) or z3.is_int_value(d):
            v = abs(float(d.as_fraction()))
            return self.prove(name, True) if v <= tol else self.prove(name, False, assume, replay, key)
        # abstraction of non-linear monomials of boxed variables
        vars_, fresh, cache = {}, [], {}
        ok_shape = [True]

        def ab(t):
            tid = t.get_id()
            if tid in cache:
                return cache[tid]
            if z3.is_const(t):
                if t.decl().kind() == z3.Z3_OP_UNINTERPRETED:
                    vars_[tid] = t
                r = t
            elif t.decl().kind() == z3.Z3_OP_MUL:
                ch = t.children()
                nums = [c for c in ch if z3.is_rational_value(c) or z3.is_int_value(c)]
                rest = [c for c in ch if not (z3.is_rational_value(c) or z3.is_int_value(c))]
                if len(rest) <= 1:
                    r = t if not rest else (z3.Product(*nums, ab(rest[0])) if nums else ab(rest[0]))
                else:
                    for c in rest:
                        if not (z3.is_const(c) and c.decl().kind() == z3.Z3_OP_UNINTERPRETED) and not (c.decl().kind() == z3.Z3_OP_POWER):
                            ok_shape[0] = False
                        for u in ([c] if z3.is_const(c) else c.children()):
                            if z3.is_const(u) and u.decl().kind() == z3.Z3_OP_UNINTERPRETED:
                                vars_[u.get_id()] = u
                    m = z3.Real(f"mono!{len(fresh)}!{self.obligations}")
                    fresh.append(m)
                    r = z3.Product(*nums, m) if nums else m
            elif t.decl().kind() == z3.Z3_OP_POWER:
                base = t.children()[0]
                if not (z3.is_const(base) and base.decl().kind() == z3.Z3_OP_UNINTERPRETED):
                    ok_shape[0] = False
                vars_[base.get_id()] = base
                m = z3.Real(f"mono!{len(fresh)}!{self.obligations}")
                fresh.append(m)
                r = m
            elif t.decl().kind() in (z3.Z3_OP_ADD, z3.Z3_OP_SUB, z3.Z3_OP_UMINUS):
                ch = [ab(c) for c in t.children()]
                r = z3.Sum(*ch) if t.decl().kind() == z3.Z3_OP_ADD else (ch[0] - z3.Sum(*ch[1:]) if t.decl().kind() == z3.Z3_OP_SUB and len(ch) > 1 else -ch[0])
            else:
                ok_shape[0] = False
                r = t
            cache[tid] = r
            return r

        da = ab(d)
        if not ok_shape[0]:
            return self.prove(name, sc.eq(x, y), assume, replay, key)
        T = z3.RealVal(Fraction(tol))
        box = [z3.And(v >= -1, v <= 1) for v in list(vars_.values()) + fresh]
        self.obligations += 1
        sneg = z3.Or(da > T, da < -T)
        self.nontrivial.add(z3.simplify(sneg).hash())
        verdict, m, s_ = self._check(box + [sneg])
        if len(self.samples) < 3:
            self.samples.append(dict(case=self.name, obligation=name, verdict=verdict, mode="round-off tolerance query (boxed inputs, monomial abstraction)", tol=tol, variables=len(vars_), abstracted_monomials=len(fresh)))
        if verdict == "unsat":
            self.discharged += 1
            self.extra["tolerance_mode_obligations"] = self.extra.get("tolerance_mode_obligations", 0) + 1
            return True
        if verdict == "unknown":
            self.inconclusive.append(f"{self.name}/{name}: tolerance query unknown")
            return False
        if replay is None:
            self.inconclusive.append(f"{self.name}/{name}: tolerance query has a counterexample but no replay is available")
            return False
        try:
            violated, detail = replay(m)
        except Exception as ex:  # noqa: BLE001
            self.inconclusive.append(f"{self.name}/{name}: replay raised {type(ex).__name__}: {ex}")
            return False
        if violated:
            self.violations.append(dict(key=key or f"{self.name}/{name}", case=self.name, obligation=name, detail=jsonable(detail)))
        else:
            self.inconclusive.append(f"{self.name}/{name}: tolerance-query witness did not reproduce on the real code ({jsonable(detail)})"[:500])
        return False

    def witness(self, name, formula, assume=()):
        """vacuity twin: assume AND formula must be satisfiable (reachability of the assertion)."""
        self.twins_total += 1
        if isinstance(formula, (bool, np.bool_)):
            if formula:
                verdict = "sat" if not assume else self._check(list(assume))[0]
            else:
                verdict = "unsat"
        else:
            verdict, _, _ = self._check([a for a in assume if not isinstance(a, bool)] + [formula])
        if verdict == "sat":
            self.twins_sat += 1
            return True
        self.inconclusive.append(f"{self.name}/{name}: vacuity twin came back {verdict} (assumptions unsatisfiable or assertion unreachable)")
        return False

    def sym_explore(self, name, fn, post, assume=(), replay=None, key=None, max_paths=5000, int_range=64, timeout_ms=None):
        """E2: run the real Python function ``fn`` (closing over pysym inputs) over every feasible path; per path prove
        ``post(result, exception)`` (z3 Bool / SymBool / bool) under the path condition."""
        from . import pysym

        ex = pysym.Explorer(assume, max_paths=max_paths, timeout_ms=timeout_ms or self.timeout_ms, int_range=int_range)

        def on_path(res, exc, pc):
            claim = post(res, exc)
            if isinstance(claim, pysym.SymBool):
                claim = claim.t
            self.prove(f"{name}#path{ex.paths}", claim, pc, replay, key)

        try:
            ex.explore(fn, on_path)
        except pysym.Budget as b:
            self.inconclusive.append(f"{self.name}/{name}: exploration budget: {b}")
        self.paths += ex.paths
        self.queries += ex.queries
        self.solver_s += ex.solver_s
        self.extra.setdefault("concretisations", 0)
        self.extra["concretisations"] += ex.concretisations
        if ex.unknown:
            self.notes.append(f"{name}: {ex.unknown} feasibility queries were 'unknown' (both sides explored)")
        return ex

    def fail_concrete(self, name, detail, key=None):
        """a violation established by direct execution of the real code (e.g. an exception on a legal input)."""
        self.obligations += 1
        self.violations.append(dict(key=key or f"{self.name}/{name}", case=self.name, obligation=name, detail=jsonable(detail)))

    def validate(self, got, want, what=""):
        """translator validation: interpreter (exact) vs real JAX float64 on a concrete input."""
        g = np.asarray(got, dtype=np.complex128 if np.iscomplexobj(got) or np.iscomplexobj(want) else np.float64)
        w = np.asarray(want)
        err = float(np.max(np.abs(g - w)) / (1e-300 + max(1.0, float(np.max(np.abs(w)))) if w.size else 1.0)) if g.size else 0.0
        self.validation["inputs"] += 1
        self.validation["max_rel_err"] = max(self.validation["max_rel_err"], err)
        if err > 1e-7:
            raise Inconclusive(f"translator validation failed ({what}): interpreter and real JAX differ by {err:.3e}")

    def result(self):
        return dict(
            name=self.name, obligations=self.obligations, discharged=self.discharged, queries=self.queries,
            nontrivial=sorted(self.nontrivial), trivial=self.trivial, solver_s=self.solver_s, interp_s=self.interp_s,
            violations=self.violations, inconclusive=self.inconclusive, samples=self.samples, twins_sat=self.twins_sat,
            twins_total=self.twins_total, functions=sorted(self.functions), bounds=self.bounds, symvars=self.symvars,
            extra=jsonable(self.extra), smt_dumps=self.smt_dumps, validation=self.validation, paths=self.paths, notes=self.notes,
        )


# ---------------------------------------------------------------------------- external solvers


def external_z3(smt2, timeout_ms):
    try:
        r = subprocess.run(["/usr/bin/z3", "-in", f"-T:{max(1, int(timeout_ms / 1000))}"], input=smt2 + "\n", capture_output=True, text=True,
                           timeout=timeout_ms / 1000 + 10)
    except Exception:
        return "unknown"
    out = r.stdout.strip().splitlines()
    if any("(error" in l for l in out):
        return "error"
    for l in out:
        if l.strip() in ("sat", "unsat", "unknown"):
            return l.strip()
    return "unknown"


def external_cvc5(smt2, timeout_ms):
    try:
        with tempfile.NamedTemporaryFile("w", suffix=".smt2", delete=False, dir=os.environ.get("VERIF_SCRATCH", tempfile.gettempdir())) as f:
            txt = smt2
            if "(set-logic" not in txt:
                txt = "(set-logic ALL)\n" + txt
            f.write(txt)
            path = f.name
        r = subprocess.run(["cvc5", f"--tlimit={int(timeout_ms)}", path], capture_output=True, text=True, timeout=timeout_ms / 1000 + 10)
    except Exception:
        return "unknown"
    finally:
        try:
            os.unlink(path)
        except Exception:
            pass
    out = (r.stdout + r.stderr).strip().splitlines()
    if any("(error" in l for l in out):
        return "error"
    for l in out:
        if l.strip() in ("sat", "unsat", "unknown"):
            return l.strip()
    return "unknown"


# ---------------------------------------------------------------------------- known findings


def load_known():
    p = os.path.join(VERIF, "known_findings.json")
    if not os.path.exists(p):
        return []
    with open(p) as f:
        return json.load(f).get("findings", [])


def match_known(prop, key, known):
    for k in known:
        if k.get("property") == prop and k.get("status") == "known" and re.search(k["key_regex"], key):
            return k
    return None


# ---------------------------------------------------------------------------- runner


def _worker(args):
    prop, modname, case, tier, seed, timeout_ms = args
    t0 = time.time()
    try:
        from . import env  # noqa: F401
        import importlib

        mod = importlib.import_module(modname)
        sc.reset_uf()
        c = Case(prop, case["name"], tier, seed, timeout_ms)
        try:
            mod.run_case(c, case)
        except Inconclusive as ex:
            c.inconclusive.append(f"{case['name']}: {ex}")
        except sc.NotEncodable as ex:
            c.inconclusive.append(f"{case['name']}: not encodable: {ex}")
        except Exception as ex:  # noqa: BLE001
            c.inconclusive.append(f"{case['name']}: harness error {type(ex).__name__}: {ex}\n" + traceback.format_exc()[-1500:])
        r = c.result()
    except BaseException as ex:  # noqa: BLE001
        r = Case(prop, case.get("name", "?"), tier, seed, timeout_ms).result()
        r["inconclusive"].append(f"worker crashed: {type(ex).__name__}: {ex}\n" + traceback.format_exc()[-1500:])
    r["wall_s"] = time.time() - t0
    return r


def _pin(counter):
    """XLA sizes its thread pools from the CPU affinity mask when the backend starts; 16 workers x ~70 XLA threads make
    every worker ~30x slower (measured).  So: restrict the mask to one CPU, start jax (import + first op), then give
    the full mask back so that the (now small) process can be scheduled anywhere (concurrent checks do not pile up on
    the same CPUs)."""
    try:
        full = os.sched_getaffinity(0)
        with counter.get_lock():
            k = counter.value
            counter.value += 1
        cpus = sorted(full)
        os.sched_setaffinity(0, {cpus[(k + os.getpid()) % len(cpus)]})
        from . import env  # noqa: F401
        import jax.numpy as jnp

        jnp.zeros((2,)).block_until_ready()
        os.sched_setaffinity(0, full)
    except Exception:
        pass


def run_property(prop, tier="quick", seed=0, only_case=None, jobs=None, replay_file=None):
    import importlib
    import multiprocessing as mp

    t0 = time.time()
    modname = f"vf.props.{prop.lower()}"
    from . import env  # noqa: F401

    mod = importlib.import_module(modname)
    meta = getattr(mod, "META", {})
    cases = mod.cases(tier, seed)
    if replay_file:
        with open(replay_file) as f:
            rp = json.load(f)
        only_case = rp.get("case")
    if only_case:
        cases = [c for c in cases if c["name"] == only_case]
        if not cases:
            print(f"no case named {only_case}")
            return EXIT_INCONCLUSIVE
    timeout_ms = int(os.environ.get("VERIF_QUERY_TIMEOUT_MS", meta.get("timeout_ms", {}).get(tier, 60000 if tier == "quick" else 300000)))
    jobs = jobs or int(os.environ.get("VERIF_JOBS", 6))  # measured: this sandbox saturates at ~5-6 concurrent jax+z3 workers
    jobs = max(1, min(jobs, len(cases)))
    args = [(prop, modname, c, tier, seed, timeout_ms) for c in cases]
    if jobs == 1:
        results = [_worker(a) for a in args]
    else:
        ctx = mp.get_context("spawn")
        with ctx.Pool(jobs, initializer=_pin, initargs=(ctx.Value("i", 0),)) as pool:
            results = []
            for r in pool.imap_unordered(_worker, args, chunksize=1):
                results.append(r)
                if os.environ.get("VERIF_VERBOSE"):
                    print(f"  case {r['name']}: {r['wall_s']:.1f}s obligations={r['obligations']} discharged={r['discharged']} inconclusive={len(r['inconclusive'])}", flush=True)
    results.sort(key=lambda r: r["name"])
    return finish(prop, tier, seed, meta, cases, results, time.time() - t0, timeout_ms, jobs)


def finish(prop, tier, seed, meta, cases, results, wall, timeout_ms, jobs):
    known = load_known()
    tot = lambda k: sum(r[k] for r in results)
    viol, knownhits, inconc = [], [], []
    for r in results:
        inconc += r["inconclusive"]
        for v in r["violations"]:
            k = match_known(prop, v["key"], known)
            (knownhits if k else viol).append((v, k))
    nontrivial = set()
    for r in results:
        nontrivial.update(r["nontrivial"])
    # second-solver differential on a sample of dumped queries
    second = {"queries": 0, "agree": 0, "solvers": ["/usr/bin/z3 4.8.12", "cvc5 1.0.x binary"], "disagreements": []}
    dumps = [d for r in results for d in r["smt_dumps"]][: int(meta.get("second_solver_sample", 3))]
    from concurrent.futures import ThreadPoolExecutor

    jobs2 = [(name, smt, verdict, fn) for name, smt, verdict in dumps for fn in (external_z3, external_cvc5)]
    with ThreadPoolExecutor(max_workers=8) as ex:
        outs = list(ex.map(lambda j: j[3](j[1], 8000), jobs2))
    for (name, smt, verdict, fn), v2 in zip(jobs2, outs):
        second["queries"] += 1
        if v2 == verdict:
            second["agree"] += 1
        elif v2 in ("sat", "unsat") and verdict in ("sat", "unsat"):
            second["disagreements"].append(dict(obligation=name, z3_51=verdict, other=v2, solver=fn.__name__))
        else:
            second["undecided"] = second.get("undecided", 0) + 1
    if second["disagreements"]:
        inconc.append(f"second solver disagrees: {second['disagreements']}")
    # runs against a scratch copy of the repository (FDTDX_REPO=..., used for mutation drills and seeded changes) must not
    # overwrite the evidence / replays of /repo itself
    scratch = os.path.abspath(os.environ.get("FDTDX_REPO", "/repo")) != "/repo"
    OUT = os.path.join(os.environ.get("VERIF_SCRATCH_OUT", "/tmp/verif_scratch_out"), prop) if scratch else VERIF
    os.makedirs(os.path.join(OUT, "replays"), exist_ok=True)
    os.makedirs(os.path.join(OUT, "evidence"), exist_ok=True)
    lines = []
    for i, (v, _) in enumerate(viol):
        path = os.path.join(OUT, "replays", f"{prop}-{i}.json")
        with open(path, "w") as f:
            json.dump(dict(property=prop, case=v["case"], key=v["key"], obligation=v["obligation"], detail=v["detail"], tier=tier, seed=seed), f, indent=1)
        lines.append(f"VIOLATION property={prop} replay={path}")
    seen_known = {}
    for v, k in knownhits:
        seen_known.setdefault(id(k), (k, []))[1].append(v["key"])
    for k, keys in seen_known.values():
        lines.append(f"KNOWN-FINDING: property={prop} {k['what']} [{len(keys)} witness(es): {', '.join(sorted(set(keys))[:4])}]")
    samples = [s for r in results for s in r["samples"]][:6]
    if not samples:
        samples = [dict(case=c["name"]) for c in cases[:3]]
    functions = sorted({f for r in results for f in r["functions"]} | set(meta.get("functions", [])))
    bounds = dict(meta.get("bounds", {}).get(tier, {})) if isinstance(meta.get("bounds", {}).get(tier, None), dict) else {}
    for r in results:
        for k, v in r["bounds"].items():
            bounds.setdefault(k, v)
    obligations, discharged = tot("obligations"), tot("discharged")
    ev = dict(
        property_id=prop, tier=tier, seed=seed, level="other", wall_s=round(wall, 3), violations=len(viol),
        coverage=dict(
            explanation=meta.get("explanation", "") or "bounded SMT verification of the real code (jaxpr / Python source symbolically executed from /repo's current tree; z3 verdict per obligation within the stated bounds)",
            obligations=obligations, discharged=discharged,
            evaluations=max(1, tot("queries")), distinct_nontrivial=len(nontrivial),
            rule="one obligation = one SMT query (assumptions AND NOT claim) over all symbolic inputs of a case; non-trivial = the negated claim did not simplify to false before the solver ran; distinct = distinct z3 term hash of the simplified negated claim",
            trivial_obligations=tot("trivial"),
            cases=len(cases), case_names=[c["name"] for c in cases][:60],
            functions_encoded=functions, bounds=bounds, outside_bounds=meta.get("outside", ""),
            symbolic_variables=tot("symvars"), paths=tot("paths"),
            solver_s=round(tot("solver_s"), 3), interp_s=round(tot("interp_s"), 3), query_timeout_ms=timeout_ms, jobs=jobs,
            vacuity_twins=dict(total=tot("twins_total"), sat=tot("twins_sat")),
            translator_validation=dict(inputs=sum(r["validation"]["inputs"] for r in results), max_rel_err=max([r["validation"]["max_rel_err"] for r in results] + [0.0])),
            second_solver=second, known_findings_hit=[v["key"] for v, _ in knownhits],
            inconclusive=inconc[:20], notes=sorted({n for r in results for n in r["notes"]})[:20],
            extra={r["name"]: r["extra"] for r in results if r["extra"]},
            checker_cmd=f"./check {prop} --tier {tier}", trusted_base=["z3 5.1.0 (python wheel)", "vf/jx2smt.py jaxpr interpreter", "vf/pysym.py concolic executor", "jax.make_jaxpr tracing of /repo/src", "real-arithmetic abstraction of float32/64 (DESIGN 0.1)"],
            samples=samples, exhaustive=False,
        ),
        assumptions=meta.get("assumptions", []),
    )
    with open(os.path.join(OUT, "evidence", f"{prop}.json"), "w") as f:
        json.dump(jsonable(ev), f, indent=1)
    if tier == "thorough":
        # keep a copy of the last thorough run next to the (quick) file that the next quick run will rewrite
        os.makedirs(os.path.join(OUT, "evidence", "thorough"), exist_ok=True)
        with open(os.path.join(OUT, "evidence", "thorough", f"{prop}.json"), "w") as f:
            json.dump(jsonable(ev), f, indent=1)
    for l in lines:
        print(l)
    status = "HELD" if not viol and not inconc else ("VIOLATED" if viol else "INCONCLUSIVE")
    print(f"[{prop}] {status} tier={tier} cases={len(cases)} obligations={obligations} discharged={discharged} queries={tot('queries')} "
          f"nontrivial={len(nontrivial)} twins={tot('twins_sat')}/{tot('twins_total')} solver_s={tot('solver_s'):.2f} wall_s={wall:.1f}")
    slow = sorted(results, key=lambda r: -r["wall_s"])[:5]
    print("  slowest cases:", ", ".join(f"{r['name']}={r['wall_s']:.0f}s(solver {r['solver_s']:.0f}s, interp {r['interp_s']:.0f}s)" for r in slow))
    for m in inconc[:10]:
        print("  INCONCLUSIVE:", m[:800])
    if viol:
        return EXIT_VIOLATION
    if inconc:
        return EXIT_INCONCLUSIVE
    return EXIT_OK
