"""Float-accurate symbolic scalars for the few places where the property is about float64 rounding itself (C05 slice
boundaries): ``FPInt`` is a bit-vector backed Python int (no overflow within the stated range), ``FPFloat`` a z3
Float64 term; the operators implement CPython's semantics exactly:

* int * int, int + int: exact (bit-vector arithmetic, width chosen so that it cannot overflow in the stated ranges)
* int / int: true division = correctly rounded quotient (for |ints| < 2^53: RNE division of the exactly converted ints)
* int * float, float * int, float / int: the int is converted exactly, then one RNE operation
* round(float): round-half-even to an int; int(float): truncation toward zero; math.floor / math.ceil

The query lives in z3's QF_BVFP; nothing is abstracted to the reals.
"""
from __future__ import annotations

import z3

W = 40
F64 = z3.Float64()
RNE, RTZ, RTN, RTP = z3.RNE(), z3.RTZ(), z3.RTN(), z3.RTP()


def _bv(x):
    if isinstance(x, FPInt):
        return x.t
    if isinstance(x, bool):
        return z3.BitVecVal(int(x), W)
    if isinstance(x, int):
        return z3.BitVecVal(x, W)
    raise TypeError(type(x))


def _fp(x):
    if isinstance(x, FPFloat):
        return x.t
    if isinstance(x, FPInt):
        return z3.fpSignedToFP(RNE, x.t, F64)
    if isinstance(x, int):
        return z3.fpSignedToFP(RNE, z3.BitVecVal(x, W), F64)
    if isinstance(x, float):
        return z3.FPVal(x, F64)
    raise TypeError(type(x))


class FPInt:
    """Python int backed by a signed bit-vector of width W (stated range: |value| < 2^(W-2))."""

    def __init__(self, t):
        self.t = t

    def __add__(self, o):
        return FPInt(self.t + _bv(o)) if isinstance(o, (int, FPInt)) else FPFloat(z3.fpAdd(RNE, _fp(self), _fp(o)))

    __radd__ = __add__

    def __sub__(self, o):
        return FPInt(self.t - _bv(o)) if isinstance(o, (int, FPInt)) else FPFloat(z3.fpSub(RNE, _fp(self), _fp(o)))

    def __rsub__(self, o):
        return FPInt(_bv(o) - self.t) if isinstance(o, (int, FPInt)) else FPFloat(z3.fpSub(RNE, _fp(o), _fp(self)))

    def __mul__(self, o):
        return FPInt(self.t * _bv(o)) if isinstance(o, (int, FPInt)) else FPFloat(z3.fpMul(RNE, _fp(self), _fp(o)))

    __rmul__ = __mul__

    def __truediv__(self, o):
        return FPFloat(z3.fpDiv(RNE, _fp(self), _fp(o)))

    def __rtruediv__(self, o):
        return FPFloat(z3.fpDiv(RNE, _fp(o), _fp(self)))

    def __floordiv__(self, o):
        if isinstance(o, (int, FPInt)):
            a, b = self.t, _bv(o)
            q = a / b  # signed bvsdiv truncates; python floors
            r = z3.SRem(a, b)
            adj = z3.And(r != 0, (r < 0) != (b < 0))
            return FPInt(z3.If(adj, q - 1, q))
        return NotImplemented

    def __neg__(self):
        return FPInt(-self.t)

    def __index__(self):
        raise TypeError("symbolic FPInt used where Python needs a concrete int (range/len/index): enumerate that value")

    __int__ = __index__

    def __repr__(self):
        return f"FPInt({self.t})"


class FPFloat:
    def __init__(self, t):
        self.t = t

    def __add__(self, o):
        return FPFloat(z3.fpAdd(RNE, self.t, _fp(o)))

    __radd__ = __add__

    def __sub__(self, o):
        return FPFloat(z3.fpSub(RNE, self.t, _fp(o)))

    def __rsub__(self, o):
        return FPFloat(z3.fpSub(RNE, _fp(o), self.t))

    def __mul__(self, o):
        return FPFloat(z3.fpMul(RNE, self.t, _fp(o)))

    __rmul__ = __mul__

    def __truediv__(self, o):
        return FPFloat(z3.fpDiv(RNE, self.t, _fp(o)))

    def __rtruediv__(self, o):
        return FPFloat(z3.fpDiv(RNE, _fp(o), self.t))

    def __neg__(self):
        return FPFloat(z3.fpNeg(self.t))

    def __round__(self, nd=None):
        if nd not in (None, 0):
            raise NotImplementedError
        return FPInt(z3.fpToSBV(RNE, self.t, z3.BitVecSort(W)))

    def __trunc__(self):
        return FPInt(z3.fpToSBV(RTZ, self.t, z3.BitVecSort(W)))

    def __floor__(self):
        return FPInt(z3.fpToSBV(RTN, self.t, z3.BitVecSort(W)))

    def __ceil__(self):
        return FPInt(z3.fpToSBV(RTP, self.t, z3.BitVecSort(W)))

    def __float__(self):
        raise TypeError("float() on FPFloat: rebind float in the analysed module")

    def __repr__(self):
        return f"FPFloat({self.t})"


def fp_int(x=0, *a):
    """replacement for the builtin ``int`` in an analysed module."""
    if isinstance(x, FPFloat):
        return x.__trunc__()
    if isinstance(x, FPInt):
        return x
    return int(x, *a)


def fp_float(x=0.0):
    if isinstance(x, FPFloat):
        return x
    if isinstance(x, FPInt):
        return FPFloat(_fp(x))
    return float(x)


def fresh_int(name, lo, hi):
    v = z3.BitVec(name, W)
    return FPInt(v), [v >= lo, v <= hi]


def bvterm(x):
    return _bv(x)
