"""Process bootstrap: every harness imports this first.  Puts /repo/src first on sys.path (the stale fdtdx 0.6.2 in
/venv's site-packages is never used), forces CPU + x64."""
import os
import sys
import warnings

if hasattr(sys, "set_int_max_str_digits"):
    sys.set_int_max_str_digits(0)  # exact rationals of long runs exceed the 4300-digit default when handed to z3

os.environ.setdefault("JAX_PLATFORMS", "cpu")
os.environ.setdefault("OMP_NUM_THREADS", "1")
os.environ.setdefault("TF_CPP_MIN_LOG_LEVEL", "3")
REPO = os.environ.get("FDTDX_REPO", "/repo")
SRC = os.path.join(REPO, "src")
if SRC in sys.path:
    sys.path.remove(SRC)
sys.path.insert(0, SRC)
VERIF = os.path.dirname(os.path.dirname(os.path.abspath(__file__)))
if VERIF not in sys.path:
    sys.path.insert(1, VERIF)

warnings.filterwarnings("ignore")
import logging

logging.disable(logging.WARNING)

import jax  # noqa: E402

jax.config.update("jax_enable_x64", True)
jax.config.update("jax_platforms", "cpu")
try:
    jax.config.update("jax_cpu_enable_async_dispatch", False)
except Exception:
    pass

import fdtdx  # noqa: E402

assert os.path.abspath(fdtdx.__file__).startswith(os.path.abspath(SRC)), f"fdtdx imported from {fdtdx.__file__}, expected {SRC}"
try:
    from loguru import logger as _lg

    _lg.remove()
except Exception:
    pass

import faulthandler as _fh
import signal as _sig

try:
    _fh.register(_sig.SIGUSR1, all_threads=False)
except Exception:
    pass
