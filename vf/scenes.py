"""Real-API scene builders: tiny scenes built with fdtdx's own public placement code (from /repo/src)."""
from __future__ import annotations

from . import env  # noqa: F401  (bootstrap)

import jax
import jax.numpy as jnp
import numpy as np

import fdtdx
from fdtdx.config import GradientConfig, SimulationConfig
from fdtdx.core.grid import RectilinearGrid, UniformGrid
from fdtdx.interfaces.recorder import Recorder

FACES = ("min_x", "max_x", "min_y", "max_y", "min_z", "max_z")
SPACING = 50e-9


def edges_from_widths(widths):
    return np.concatenate([[0.0], np.cumsum(np.asarray(widths, dtype=np.float64))])


def make_grid(shape, widths=None, spacing=SPACING):
    """widths: None -> UniformGrid; else per-axis list of relative widths (multiplied by ``spacing``)."""
    if widths is None:
        return UniformGrid(spacing=spacing)
    ed = [edges_from_widths(np.asarray(w, dtype=np.float64) * spacing) for w in widths]
    return RectilinearGrid(x_edges=jnp.asarray(ed[0]), y_edges=jnp.asarray(ed[1]), z_edges=jnp.asarray(ed[2]))


def build_scene(
    shape,
    bounds="periodic",
    thickness=2,
    steps=6,
    widths=None,
    extra_objects=(),
    extra_constraints=(),
    bloch_vector=(0.0, 0.0, 0.0),
    reversible=False,
    gradient_config=None,
    use_complex=None,
    symmetry=(0, 0, 0),
    background=None,
    courant_factor=0.99,
    dtype=jnp.float64,
    sim_time=None,
    volume_kwargs=None,
    recorder_modules=(),
    apply_kwargs=None,
    spacing=None,
):
    """bounds: str (all faces) or dict face->type.  Returns dict(objects, arrays, params, config, info, volume).
    apply_kwargs: keyword arguments forwarded to apply_params (e.g. beta for projection transforms)."""
    grid = make_grid(shape, widths, spacing if spacing is not None else SPACING)
    if bounds is None or isinstance(bounds, str):
        btypes = {f: bounds for f in FACES}
    else:
        btypes = {f: bounds.get(f, "periodic") for f in FACES}
    vkw = dict(volume_kwargs or {})
    if background is not None:
        vkw["material"] = background
    volume = fdtdx.SimulationVolume(partial_grid_shape=tuple(shape), **vkw)
    # dt needs the grid; use a provisional config to obtain the time step and so a time giving `steps` steps
    cfg0 = SimulationConfig(time=1e-15, grid=grid, backend="cpu", dtype=dtype, courant_factor=courant_factor)
    try:
        dt = cfg0.aset("grid", cfg0.resolve_grid(tuple(shape))).time_step_duration
    except Exception:
        dt = cfg0.time_step_duration
    t_total = sim_time if sim_time is not None else dt * (steps + 0.01)
    config = SimulationConfig(
        time=t_total, grid=grid, backend="cpu", dtype=dtype, courant_factor=courant_factor,
        use_complex_fields=use_complex, symmetry=tuple(symmetry), gradient_config=None,
    )
    if bounds is None or bounds == "none":
        bdict, bcons = {}, []  # no boundary objects at all: zero-field halo on every face
    else:
        if isinstance(thickness, dict):
            bcfg = fdtdx.BoundaryConfig.from_uniform_bound(thickness=1, override_types=btypes, bloch_vector=tuple(bloch_vector))
            for f, t in thickness.items():
                bcfg = bcfg.aset("thickness_grid_" + f.replace("_", ""), t)
        else:
            bcfg = fdtdx.BoundaryConfig.from_uniform_bound(thickness=thickness, override_types=btypes, bloch_vector=tuple(bloch_vector))
        bdict, bcons = fdtdx.boundary_objects_from_config(bcfg, volume)
    objs = [volume] + list(bdict.values())
    cons = list(bcons)
    for item in extra_objects:
        # item: (object, [constraints]) or callable(volume) -> (object, [constraints])
        if callable(item) and not isinstance(item, (tuple, list)):
            item = item(volume)
        o, cs = item
        objs.append(o)
        for cc in cs:
            if isinstance(cc, GridAt):
                cons.append(cc.resolve(widths, spacing if spacing is not None else SPACING))
            else:
                cons.append(cc)
    for c in extra_constraints:
        cons.extend(c(volume, objs) if callable(c) else [c])
    if reversible and gradient_config is None:
        gradient_config = GradientConfig(method="reversible", recorder=Recorder(modules=list(recorder_modules)))
    if gradient_config is not None:
        config = config.aset("gradient_config", gradient_config)
    key = jax.random.PRNGKey(0)
    oc, arrays, params, config, info = fdtdx.place_objects(object_list=objs, config=config, constraints=cons, key=key)
    arrays, oc, info2 = fdtdx.apply_params(arrays, oc, params, key, **(apply_kwargs or {}))
    return dict(objects=oc, arrays=arrays, params=params, config=config, info=info, volume=volume, key=key, dt=dt)


def wall_masks(objects, shape):
    """boolean masks (3,Nx,Ny,Nz): True where a boundary's post-update projection forces E (resp. H) to zero."""
    onesE = jnp.ones((3, *shape))
    E = onesE
    H = onesE
    for b in objects.boundary_objects:
        E = b.apply_post_E_update(E)
        H = b.apply_post_H_update(H)
    return np.asarray(E) == 0, np.asarray(H) == 0


# ----------------------------------------------------------------------------- object helpers
from fdtdx.constants import c as C0  # noqa: E402

WAVE = fdtdx.WaveCharacter(wavelength=12 * SPACING)


class GridAt:
    """deferred 'lower side of obj at grid index' constraint: GridCoordinateConstraint on uniform grids, the equivalent
    RealCoordinateConstraint (edge coordinate) on non-uniform ones (index-space placement is rejected there)."""

    def __init__(self, obj, axes, idx):
        self.obj, self.axes, self.idx = obj, tuple(axes), tuple(int(i) for i in idx)

    def resolve(self, widths, spacing=None):
        spacing = SPACING if spacing is None else spacing
        from fdtdx.objects.object import RealCoordinateConstraint

        if widths is None:
            return self.obj.set_grid_coordinates(axes=self.axes, sides=("-",) * len(self.axes), coordinates=self.idx)
        coords = tuple(float(edges_from_widths(np.asarray(widths[a], dtype=np.float64) * spacing)[i]) for a, i in zip(self.axes, self.idx))
        return RealCoordinateConstraint(object=self.obj.name, axes=self.axes, sides=("-",) * len(self.axes), coordinates=coords)


def at(obj, lo):
    """constraints pinning the lower corner of obj to grid coordinates lo (3 ints)."""
    return [GridAt(obj, (0, 1, 2), lo)]


def dipole(name, pos, pol=0, kind="electric", az=0.0, el=0.0, switch=None, profile=None, amp=1.0, wave=None):
    kw = {}
    if switch is not None:
        kw["switch"] = switch
    if profile is not None:
        kw["temporal_profile"] = profile
    o = fdtdx.PointDipoleSource(name=name, partial_grid_shape=(1, 1, 1), wave_character=wave or WAVE, polarization=pol,
                                source_type=kind, azimuth_angle=az, elevation_angle=el, amplitude=amp, **kw)
    return o, at(o, pos)


def plane_source(name, axis, index, direction="+", pol=None, gaussian=False, switch=None, profile=None, shape=None, lo=None, wave=None, **extra):
    """plane source normal to `axis` at grid index `index`, spanning the transverse extent (or shape/lo given)."""
    kw = dict(extra)
    if switch is not None:
        kw["switch"] = switch
    if profile is not None:
        kw["temporal_profile"] = profile
    if pol is None:
        pol = [0.0, 0.0, 0.0]
        pol[(axis + 1) % 3] = 1.0
    pgs = [None, None, None]
    pgs[axis] = 1
    if shape is not None:
        pgs = list(shape)
    cls = fdtdx.GaussianPlaneSource if gaussian else fdtdx.UniformPlaneSource
    if gaussian:
        kw.setdefault("radius", 3 * SPACING)
    o = cls(name=name, partial_grid_shape=tuple(pgs), wave_character=wave or WAVE, direction=direction,
            fixed_E_polarization_vector=tuple(pol), **kw)
    if lo is not None:
        return o, at(o, lo)
    return o, [GridAt(o, (axis,), (index,))]


def box_detector(cls, name, lo, shape, **kw):
    o = cls(name=name, partial_grid_shape=tuple(int(v) for v in shape), **kw)
    return o, at(o, lo)


def material_box(name, lo, shape, material, order=None):
    kw = {}
    if order is not None:
        kw["placement_order"] = order
    o = fdtdx.UniformMaterialObject(name=name, partial_grid_shape=tuple(int(v) for v in shape), material=material, **kw)
    return o, at(o, lo)


class exact_widths:
    """Harness-side stub (DESIGN 2.5): while active, ``RectilinearGrid.cell_widths(axis)`` returns the given arrays
    (traced arguments carrying the grid's own widths as exact rationals) instead of the float arrays stored in the
    grid, so that metric factors ``reference_spacing / widths`` are exact and identities hold with ``==`` over Q."""

    def __init__(self, widths3):
        self.w = widths3

    def __enter__(self):
        self.orig = RectilinearGrid.cell_widths
        w = self.w
        RectilinearGrid.cell_widths = lambda self_, axis: w[axis]
        return self

    def __exit__(self, *a):
        RectilinearGrid.cell_widths = self.orig


def grid_widths(config):
    """the resolved grid's per-axis cell widths as numpy float64 arrays."""
    g = config.resolved_grid
    return [np.asarray(g.cell_widths(a), dtype=np.float64) for a in range(3)]
