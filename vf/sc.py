"""Scalar semantic domain of the jaxpr->SMT interpreter (E1).

A scalar is one of
  * a concrete Python/numpy number (bool, int, float) or an exact ``Fraction``
  * a z3 term (ArithRef of sort Real/Int, or BoolRef)
  * ``Cx(re, im)``: a complex number whose parts are scalars of the above kinds

Floats that meet a symbolic term or a Fraction are imported as the exact rational value of that float
(DESIGN 0.1).  All operations have constant short-cuts so that concrete sub-computations never reach z3.
"""
from __future__ import annotations

import math
from fractions import Fraction

import numpy as np
import z3


class NotEncodable(Exception):
    pass


class Cx:
    """Complex scalar with scalar parts."""

    __slots__ = ("re", "im")

    def __init__(self, re, im):
        self.re = re
        self.im = im

    def __repr__(self):
        return f"Cx({self.re},{self.im})"


def isz(v):
    return isinstance(v, z3.ExprRef)


def is_symbolic_scalar(v):
    if isinstance(v, Cx):
        return isz(v.re) or isz(v.im)
    return isz(v)


def canon(v):
    """numpy scalar -> python scalar / Cx."""
    if isinstance(v, (z3.ExprRef, Fraction, Cx)):
        return v
    if isinstance(v, (bool, np.bool_)):
        return bool(v)
    if isinstance(v, (int, np.integer)):
        return int(v)
    if isinstance(v, (float, np.floating)):
        return float(v)
    if isinstance(v, (complex, np.complexfloating)):
        return Cx(float(v.real), float(v.imag))
    raise NotEncodable(f"scalar of type {type(v)}")


def exact(v):
    """Concrete number -> exact Fraction (ints stay ints)."""
    if isinstance(v, (bool, int, Fraction)) or isz(v):
        return v
    if isinstance(v, float):
        if math.isnan(v) or math.isinf(v):
            raise NotEncodable("non-finite float meets a symbolic/exact value")
        if v == int(v) and abs(v) < 2**53:
            return int(v)
        return Fraction(v)
    if isinstance(v, Cx):
        return Cx(exact(v.re), exact(v.im))
    raise NotEncodable(f"exact({type(v)})")


def toz(v):
    """scalar -> z3 arithmetic/bool term."""
    if isz(v):
        return v
    if isinstance(v, bool):
        return z3.BoolVal(v)
    if isinstance(v, int):
        return z3.RealVal(v)
    if isinstance(v, Fraction):
        return z3.RealVal(v)
    if isinstance(v, float):
        return z3.RealVal(Fraction(exact(v)))
    raise NotEncodable(f"toz({type(v)})")


def toreal(t):
    if z3.is_int(t):
        return z3.ToReal(t)
    if z3.is_bool(t):
        return z3.If(t, z3.RealVal(1), z3.RealVal(0))
    return t


def _pair(a, b):
    """both to z3 arithmetic terms of a common sort."""
    za, zb = isz(a), isz(b)
    if za and zb:
        if a.sort() == b.sort():
            if z3.is_bool(a):
                return toreal(a), toreal(b)
            return a, b
        return toreal(a), toreal(b)
    if za:
        if z3.is_int(a) and isinstance(b, (bool, int)):
            return a, z3.IntVal(int(b))
        return toreal(a), toz(exact(b) if not isinstance(b, bool) else int(b))
    if z3.is_int(b) and isinstance(a, (bool, int)):
        return z3.IntVal(int(a)), b
    return toz(exact(a) if not isinstance(a, bool) else int(a)), toreal(b)


def _conc(*vs):
    return not any(isz(v) for v in vs)


def _num(v):
    # concrete arithmetic keeps exactness: float (+) Fraction -> Fraction
    return v


def _cbin(a, b, f):
    """concrete binary op with exact promotion when a Fraction is involved."""
    if isinstance(a, Fraction) or isinstance(b, Fraction):
        return f(Fraction(exact(a)) if not isinstance(a, Fraction) else a, Fraction(exact(b)) if not isinstance(b, Fraction) else b)
    return f(a, b)


def iszero(v):
    return (not isz(v)) and (not isinstance(v, Cx)) and v == 0


def isone(v):
    return (not isz(v)) and (not isinstance(v, Cx)) and not isinstance(v, bool) and v == 1


# ---------------------------------------------------------------- arithmetic
def add(a, b):
    if isinstance(a, Cx) or isinstance(b, Cx):
        a, b = cx(a), cx(b)
        return Cx(add(a.re, b.re), add(a.im, b.im))
    if _conc(a, b):
        return _cbin(a, b, lambda x, y: x + y)
    if iszero(a):
        return b
    if iszero(b):
        return a
    x, y = _pair(a, b)
    return x + y


def sub(a, b):
    if isinstance(a, Cx) or isinstance(b, Cx):
        a, b = cx(a), cx(b)
        return Cx(sub(a.re, b.re), sub(a.im, b.im))
    if _conc(a, b):
        return _cbin(a, b, lambda x, y: x - y)
    if iszero(b):
        return a
    if iszero(a):
        return neg(b)
    x, y = _pair(a, b)
    return x - y


def neg(a):
    if isinstance(a, Cx):
        return Cx(neg(a.re), neg(a.im))
    if isz(a):
        return -toreal(a) if z3.is_bool(a) else -a
    return -a


def mul(a, b):
    if isinstance(a, Cx) or isinstance(b, Cx):
        if not isinstance(a, Cx):
            return Cx(mul(a, b.re), mul(a, b.im))
        if not isinstance(b, Cx):
            return Cx(mul(a.re, b), mul(a.im, b))
        return Cx(sub(mul(a.re, b.re), mul(a.im, b.im)), add(mul(a.re, b.im), mul(a.im, b.re)))
    if _conc(a, b):
        return _cbin(a, b, lambda x, y: x * y)
    if iszero(a) or iszero(b):
        return 0
    if isone(a):
        return b
    if isone(b):
        return a
    x, y = _pair(a, b)
    return x * y


def div(a, b):
    if isinstance(b, Cx):
        den = add(mul(b.re, b.re), mul(b.im, b.im))
        num = mul(cx(a), Cx(b.re, neg(b.im)))
        return Cx(div(num.re, den), div(num.im, den))
    if isinstance(a, Cx):
        return Cx(div(a.re, b), div(a.im, b))
    if _conc(a, b):
        if isinstance(a, Fraction) or isinstance(b, Fraction) or (isinstance(a, int) and isinstance(b, int) and not isinstance(a, bool)):
            if b == 0:
                raise NotEncodable("exact division by zero")
            return Fraction(exact(a)) / Fraction(exact(b))
        if b == 0:
            return float(np.float64(a) / np.float64(b))
        return a / b
    if iszero(a):
        return 0
    if isone(b):
        return a
    x, y = _pair(a, b)
    return toreal(x) / toreal(y)


def cx(a):
    return a if isinstance(a, Cx) else Cx(a, 0)


def integer_pow(a, n):
    if n == 0:
        return 1
    if n < 0:
        return div(1, integer_pow(a, -n))
    r = a
    for _ in range(n - 1):
        r = mul(r, a)
    return r


def ite(c, a, b):
    """c: bool scalar (concrete or z3 Bool)."""
    if not isz(c):
        return a if c else b
    if isinstance(a, Cx) or isinstance(b, Cx):
        a, b = cx(a), cx(b)
        return Cx(ite(c, a.re, b.re), ite(c, a.im, b.im))
    if (not isz(a)) and (not isz(b)) and type(a) is type(b) and a == b:
        return a
    if isz(a) and isz(b) and a.eq(b):
        return a
    ba = isinstance(a, bool) or (isz(a) and z3.is_bool(a))
    bb = isinstance(b, bool) or (isz(b) and z3.is_bool(b))
    if ba and bb:
        return z3.If(c, toz(a), toz(b))
    x, y = _pair(a, b)
    return z3.If(c, x, y)


def _cmp(a, b, f, fz):
    if isinstance(a, Cx) or isinstance(b, Cx):
        raise NotEncodable("ordering of complex values")
    if _conc(a, b):
        return bool(_cbin(a, b, f))
    x, y = _pair(a, b)
    return fz(x, y)


def lt(a, b):
    return _cmp(a, b, lambda x, y: x < y, lambda x, y: x < y)


def le(a, b):
    return _cmp(a, b, lambda x, y: x <= y, lambda x, y: x <= y)


def gt(a, b):
    return _cmp(a, b, lambda x, y: x > y, lambda x, y: x > y)


def ge(a, b):
    return _cmp(a, b, lambda x, y: x >= y, lambda x, y: x >= y)


def _isboolish(v):
    return isinstance(v, bool) or (isz(v) and z3.is_bool(v))


def eq(a, b):
    if isinstance(a, Cx) or isinstance(b, Cx):
        a, b = cx(a), cx(b)
        return and_(eq(a.re, b.re), eq(a.im, b.im))
    if _conc(a, b):
        return bool(_cbin(a, b, lambda x, y: x == y))
    if _isboolish(a) and _isboolish(b):
        return toz(a) == toz(b)
    x, y = _pair(a, b)
    if x.eq(y):
        return True  # the same hash-consed term on both sides: equal for every value (reflexivity), no query needed
    return x == y


def ne(a, b):
    return not_(eq(a, b))


def and_(a, b):
    if _conc(a, b):
        if isinstance(a, bool) and isinstance(b, bool):
            return a and b
        return a & b
    if not isz(a):
        return b if a else False
    if not isz(b):
        return a if b else False
    return z3.And(a, b)


def or_(a, b):
    if _conc(a, b):
        if isinstance(a, bool) and isinstance(b, bool):
            return a or b
        return a | b
    if not isz(a):
        return True if a else b
    if not isz(b):
        return True if b else a
    return z3.Or(a, b)


def not_(a):
    if not isz(a):
        if isinstance(a, bool):
            return not a
        return ~a
    return z3.Not(a)


def xor_(a, b):
    if _conc(a, b):
        return a ^ b
    return z3.Xor(toz(a), toz(b))


def max_(a, b):
    if _conc(a, b):
        return _cbin(a, b, lambda x, y: x if x >= y else y)
    if _isboolish(a) and _isboolish(b):
        return or_(a, b)
    return ite(ge(a, b), a, b)


def min_(a, b):
    if _conc(a, b):
        return _cbin(a, b, lambda x, y: x if x <= y else y)
    if _isboolish(a) and _isboolish(b):
        return and_(a, b)
    return ite(le(a, b), a, b)


def abs_(a):
    if isinstance(a, Cx):
        if iszero(a.im):
            return abs_(a.re)  # purely real complex value: |re| without a sqrt term
        return sqrt(add(mul(a.re, a.re), mul(a.im, a.im)))
    if not isz(a):
        return abs(a)
    return ite(ge(a, 0), a, neg(a))


def sign(a):
    if not isz(a):
        return (a > 0) - (a < 0)
    return ite(gt(a, 0), 1, ite(lt(a, 0), -1, 0))


def real(a):
    return a.re if isinstance(a, Cx) else a


def imag(a):
    return a.im if isinstance(a, Cx) else 0


def conj(a):
    return Cx(a.re, neg(a.im)) if isinstance(a, Cx) else a


# ------------------------------------------------- rounding (XLA semantics)
def floor(a):
    if not isz(a):
        return math.floor(a) if not isinstance(a, int) else a
    if z3.is_int(a):
        return a
    return z3.ToReal(z3.ToInt(a))


def ceil(a):
    if not isz(a):
        return math.ceil(a) if not isinstance(a, int) else a
    if z3.is_int(a):
        return a
    return neg(floor(neg(a)))


def round_half_even(a):
    if not isz(a):
        return round(a)
    if z3.is_int(a):
        return a
    f = z3.ToInt(a)
    d = a - z3.ToReal(f)
    half = z3.RealVal(Fraction(1, 2))
    r = z3.If(d < half, f, z3.If(d > half, f + 1, z3.If(f % 2 == 0, f, f + 1)))
    return z3.ToReal(r)


def round_half_away(a):
    if not isz(a):
        return math.floor(abs(a) + 0.5) * (1 if a >= 0 else -1)
    pos = z3.ToReal(z3.ToInt(a + z3.RealVal(Fraction(1, 2))))
    negv = -z3.ToReal(z3.ToInt(-a + z3.RealVal(Fraction(1, 2))))
    return z3.If(a >= 0, pos, negv)


def trunc_to_int(a):
    """float -> int conversion (C semantics: toward zero) of a symbolic real; ints unchanged."""
    if not isz(a):
        return int(a)
    if z3.is_int(a):
        return a
    if z3.is_bool(a):
        return z3.If(a, z3.IntVal(1), z3.IntVal(0))
    return z3.If(a >= 0, z3.ToInt(a), -z3.ToInt(-a))


# ------------------------------------------- transcendental: UF + sound axioms
class UFRegistry:
    """Uninterpreted functions for tanh/exp/cos/sin/sqrt/log on symbolic arguments, with the argument terms
    recorded so that a harness can instantiate sound axioms (DESIGN 2.3) and definedness side conditions (2.4)."""

    def __init__(self):
        R = z3.RealSort()
        self.f = {n: z3.Function("uf_" + n, R, R) for n in ("tanh", "exp", "cos", "sin", "sqrt", "log", "atan", "acos", "asin")}
        self.f2 = {n: z3.Function("uf_" + n, R, R, R) for n in ("atan2", "pow")}
        self.apps = {}  # name -> list of argument terms
        self.side = []  # definedness obligations: (kind, z3 Bool that must hold, description)

    def app(self, name, a):
        a = toreal(toz(a))
        self.apps.setdefault(name, [])
        if not any(a.eq(x) for x in self.apps[name]):
            self.apps[name].append(a)
        return self.f[name](a)

    def app2(self, name, a, b):
        a = toreal(toz(a))
        b = toreal(toz(b))
        self.apps.setdefault(name, []).append((a, b))
        return self.f2[name](a, b)

    def axioms(self):
        ax = []
        F = self.f
        for a in self.apps.get("tanh", []):
            t = F["tanh"](a)
            ax += [t < 1, t > -1, z3.Implies(a > 0, t > 0), z3.Implies(a < 0, t < 0), z3.Implies(a == 0, t == 0)]
        tl = self.apps.get("tanh", [])
        for i in range(len(tl)):
            for j in range(len(tl)):
                if i != j:
                    ax.append(z3.Implies(tl[i] < tl[j], F["tanh"](tl[i]) < F["tanh"](tl[j])))
                    ax.append(z3.Implies(tl[i] == -tl[j], F["tanh"](tl[i]) == -F["tanh"](tl[j])))
        for a in self.apps.get("exp", []):
            e = F["exp"](a)
            ax += [e > 0, z3.Implies(a == 0, e == 1), z3.Implies(a > 0, e > 1), z3.Implies(a < 0, e < 1), e >= 1 + a]
        el = self.apps.get("exp", [])
        for i in range(len(el)):
            for j in range(len(el)):
                if i != j:
                    ax.append(z3.Implies(el[i] < el[j], F["exp"](el[i]) < F["exp"](el[j])))
        for n in ("cos", "sin"):
            for a in self.apps.get(n, []):
                ax += [F[n](a) <= 1, F[n](a) >= -1]
        for a in self.apps.get("cos", []):
            ax.append(z3.Implies(a == 0, F["cos"](a) == 1))
        for a in self.apps.get("sin", []):
            ax.append(z3.Implies(a == 0, F["sin"](a) == 0))
        for a in self.apps.get("sqrt", []):
            s = F["sqrt"](a)
            ax += [z3.Implies(a >= 0, z3.And(s >= 0, s * s == a))]
        sl = self.apps.get("sqrt", [])
        for i in range(len(sl)):
            for j in range(len(sl)):
                if i != j:
                    ax.append(z3.Implies(z3.And(sl[i] >= 0, sl[i] < sl[j]), F["sqrt"](sl[i]) < F["sqrt"](sl[j])))
        return ax


UF = UFRegistry()


def reset_uf():
    global UF
    UF = UFRegistry()
    return UF


def _tr(name, pyf):
    def f(a):
        if isinstance(a, Cx):
            raise NotEncodable(name + " of complex symbolic value")
        if not isz(a):
            return pyf(float(a))
        return UF.app(name, a)

    return f


tanh = _tr("tanh", math.tanh)
exp = _tr("exp", math.exp)
cos = _tr("cos", math.cos)
sin = _tr("sin", math.sin)
log_ = _tr("log", math.log)


def sqrt(a):
    if not isz(a):
        if isinstance(a, Fraction):
            r = Fraction(math.isqrt(a.numerator), math.isqrt(a.denominator))
            if r * r == a:
                return r
        return math.sqrt(float(a))
    UF.side.append(("sqrt_domain", toreal(a) >= 0, "sqrt argument >= 0"))
    return UF.app("sqrt", a)


def cexp(a):
    """exp of a complex scalar."""
    if isinstance(a, Cx):
        m = exp(a.re) if not iszero(a.re) else 1
        return Cx(mul(m, cos(a.im)), mul(m, sin(a.im)))
    return exp(a)


def axioms_for(formulas, kinds=None, neg_closure=False, extra=None, tight=False):
    """Sound UF axioms instantiated only for the transcendental applications that occur in ``formulas`` (z3 terms) --
    a per-obligation cone of influence of ``UF.axioms()`` (which instantiates over every application ever made and
    grows quadratically).  kinds: restrict to these function names; extra: {name: [argument terms]} additional
    instantiation points; neg_closure: also instantiate at -a for every tanh/sin argument a (oddness);
    tight: add (sound) polynomial bounds  |tanh a| <= |a|, tanh(a)(1+|a|) >= a (a>=0), exp(a)(1-a) <= 1 (a<1),
    cos a >= 1 - a^2/2, |sin a| <= |a|, cos^2+sin^2 = 1."""
    F = UF.f
    byname = {f.name(): n for n, f in F.items()}
    apps, seen, stack = {}, set(), [toz(f) for f in formulas if isz(f)]

    def put(n, a):
        L = apps.setdefault(n, [])
        if not any(a.eq(x) for x in L):
            L.append(a)

    while stack:
        u = stack.pop()
        if u.get_id() in seen:
            continue
        seen.add(u.get_id())
        if z3.is_app(u):
            n = byname.get(u.decl().name())
            if n is not None and u.num_args() == 1 and u.decl().eq(F[n]) and (kinds is None or n in kinds):
                put(n, u.arg(0))
            stack.extend(u.children())
    for n, L in (extra or {}).items():
        for a in L:
            put(n, toreal(toz(a)))
    if neg_closure:
        for n in ("tanh", "sin"):
            for a in list(apps.get(n, [])):
                put(n, z3.simplify(-a))
    sub = UFRegistry.__new__(UFRegistry)
    sub.f, sub.f2, sub.apps, sub.side = UF.f, UF.f2, apps, []
    ax = sub.axioms()
    if tight:
        for a in apps.get("tanh", []):
            t = F["tanh"](a)
            ax += [z3.Implies(a > 0, z3.And(t < a, t * (1 + a) >= a)), z3.Implies(a < 0, z3.And(t > a, t * (1 - a) <= a))]
        for a in apps.get("exp", []):
            ax.append(z3.Implies(a < 1, F["exp"](a) * (1 - a) <= 1))
        for a in apps.get("cos", []):
            ax.append(F["cos"](a) >= 1 - a * a / 2)
            if any(a.eq(b) for b in apps.get("sin", [])):
                ax.append(F["cos"](a) * F["cos"](a) + F["sin"](a) * F["sin"](a) == 1)
        for a in apps.get("sin", []):
            s = F["sin"](a)
            ax += [z3.Implies(a >= 0, z3.And(s <= a, s >= -a)), z3.Implies(a <= 0, z3.And(s >= a, s <= -a))]
    return ax
