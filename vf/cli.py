import argparse
import os
import sys


def main():
    ap = argparse.ArgumentParser()
    ap.add_argument("prop")
    ap.add_argument("--tier", default=os.environ.get("VERIF_TIER", "quick"))
    ap.add_argument("--case", default=None)
    ap.add_argument("--replay", default=None)
    ap.add_argument("--jobs", type=int, default=None)
    a = ap.parse_args()
    seed = int(os.environ.get("VERIF_SEED", "0"))
    # start jax with a one-CPU affinity mask (small XLA thread pools), then restore the mask -- see vf.core._pin
    try:
        full = os.sched_getaffinity(0)
        cpus = sorted(full)
        os.sched_setaffinity(0, {cpus[os.getpid() % len(cpus)]})
        from vf import env  # noqa: F401
        import jax.numpy as jnp

        jnp.zeros((2,)).block_until_ready()
        os.sched_setaffinity(0, full)
    except Exception:
        pass
    from vf.core import run_property

    sys.exit(run_property(a.prop.upper(), a.tier, seed, a.case, a.jobs, a.replay))


if __name__ == "__main__":
    main()
