"""C22 -- Gaussian smoothing preserves constants and stays within the input range (E1, QF_LRA).

``GaussianSmoothing2D.__call__`` / ``_apply_smoothing`` is traced once per None-pattern of the four optional padding
arrays (the padding arrays are injected as tracers with ``aset``), and interpreted with the design and every provided
padding entry a fresh real.  The Gaussian kernel is computed by the code under test from concrete integers, so JAX
folds it; it enters the encoding as the exact rational value of each float64 weight.

Clauses (oracle written from the property text; ``F(x; P)`` is the smoothing of design x with provided paddings P):
* affine          F(x+y;P) - F(y;P) == F(x;P) - F(0;P)   and   F(t x;P) - F(0;P) == t (F(x;P) - F(0;P)), t symbolic
* constants       x == c everywhere, provided paddings == c  =>  |F - c| <= 1e-12 |c|   (float kernel sum != 1 exactly)
* range           lo <= every design and provided padding value <= hi  =>  lo - tol <= F <= hi + tol,
                  tol = 1e-12 (|lo| + |hi|)
* mirroring       F(mirror_a x; mirror_a P) == mirror_a F(x;P) for a in {0,1}: the low/high paddings of axis a are
                  exchanged, the paddings of the other axis are reversed (None-ness travels with them)
* default padding is edge replication: F(x; P := the matching edge rows / columns of x) == F(x; nothing provided)
"""
from __future__ import annotations

import time
from fractions import Fraction

import jax.numpy as jnp
import numpy as np
import z3

from .. import jx2smt as jx
from .. import sc
from ..core import Inconclusive, model_array, model_value

META = dict(
    functions=["GaussianSmoothing2D.__call__", "GaussianSmoothing2D._apply_smoothing", "GaussianSmoothing2D._create_gaussian_kernel",
               "jax.scipy.signal.convolve (as traced: conv_general_dilated)"],
    assumptions=[
        "reals instead of floats; the kernel weights are the exact rationals of the float64 weights the code computes "
        "(so 'constants fixed' and 'within range' carry a 1e-12 relative tolerance for the float kernel sum)",
        "designs with exactly one singleton axis; padding arrays have the documented lengths (ny for axis 0, nx for axis 1)",
        "'mirrored accordingly' = low/high paddings of the mirrored axis exchanged, paddings of the other axis reversed",
    ],
    outside="std_discrete > 2, in-plane extents above 5x6, designs with several singleton axes, float round-off of the convolution, "
            "the Gaussian shape of the kernel itself (only its consequences named in the statement are checked)",
    bounds=dict(quick=dict(std=[1, 2], max_plane=[4, 5], patterns="all 16 None-patterns, spread over the cases (4-8 per case)"),
                thorough=dict(std=[1, 2], max_plane=[5, 6], patterns="all 16 None-patterns per case")),
    timeout_ms=dict(quick=60000, thorough=300000),
)

PADS = ("padding_low_axis0", "padding_high_axis0", "padding_low_axis1", "padding_high_axis1")
ALL_PATTERNS = [tuple(bool((p >> i) & 1) for i in range(4)) for p in range(16)]
TOL = Fraction(1, 10**12)


def _pname(p):
    return "".join("1" if b else "0" for b in p)


def cases(tier, seed):
    # (std, 3D shape).  The singleton axis position and (nx, ny) follow from the shape.
    quick = [(1, (1, 2, 3)), (1, (4, 1, 3)), (1, (3, 5, 1)), (2, (3, 1, 2)), (2, (2, 3, 1)), (1, (1, 4, 4))]
    extra = [(1, (5, 6, 1)), (1, (1, 5, 2)), (1, (2, 1, 6)), (2, (1, 4, 3)), (2, (5, 1, 4)), (2, (3, 6, 1)), (2, (1, 5, 6))]
    out = []
    for n, (std, sh) in enumerate(quick + (extra if tier != "quick" else [])):
        if tier == "quick":
            # pattern subsets closed under both mirrors (so no extra interpretations); every orbit appears in >= 1 quick case
            orbits = [[1, 2], [4, 8], [3], [12], [5, 6, 9, 10], [7, 11], [13, 14]]
            pats = sorted({0, 15} | set(orbits[n % 7]) | set(orbits[(n + 3) % 7]) | (set(orbits[6]) if n == 5 else set()))
        else:
            pats = list(range(16))
        out.append(dict(name=f"std{std}-{'x'.join(map(str, sh))}", std=std, shape=list(sh), patterns=pats))
    return out


def mirror_pattern(p, axis):
    """None-pattern of the mirrored configuration."""
    l0, h0, l1, h1 = p
    return (h0, l0, l1, h1) if axis == 0 else (l0, h0, h1, l1)


def mirror_pads(pads, axis):
    """pads: dict name -> 1D object/numeric array (provided ones only)."""
    out = {}
    swap = {0: {"padding_low_axis0": "padding_high_axis0", "padding_high_axis0": "padding_low_axis0"},
            1: {"padding_low_axis1": "padding_high_axis1", "padding_high_axis1": "padding_low_axis1"}}[axis]
    for k, v in pads.items():
        if k in swap:
            out[swap[k]] = v
        else:
            out[k] = v[::-1]
    return out


def run_case(c, case):
    from fdtdx.objects.device.parameters.continuous import GaussianSmoothing2D

    std, sh = case["std"], tuple(case["shape"])
    c.functions.update(META["functions"])
    s_ax = sh.index(1)
    assert sh.count(1) == 1
    nx, ny = [sh[a] for a in range(3) if a != s_ax]
    padlen = {PADS[0]: ny, PADS[1]: ny, PADS[2]: nx, PADS[3]: nx}
    c.bounds.update(std=std, shape=list(sh), plane=[nx, ny])
    G = GaussianSmoothing2D(std_discrete=std)
    rng = np.random.default_rng(c.seed + 22)
    kb = f"std{std}"

    def fn(x, pads):
        T = G
        for k, v in pads.items():
            T = T.aset(k, v)
        return T({"design": x})["design"]

    def plane(a):  # 3D -> (nx, ny) view
        return a.reshape(nx, ny)

    def unplane(a):
        return a.reshape(sh)

    generic = {}

    def interpret(p):
        """one symbolic execution of the real smoothing per None-pattern: generic inputs -> output terms."""
        if p not in generic:
            t0 = time.time()
            gx = jx.symarr(f"g{_pname(p)}x", sh)
            gp = {PADS[i]: jx.symarr(f"g{_pname(p)}p{i}", (padlen[PADS[i]],)) for i in range(4) if p[i]}
            out, tr = jx.call(fn, gx, gp)
            generic[p] = (gx, gp, jx.lift(out), tr)
            c.interp_s += time.time() - t0
        return generic[p]

    def F(p, x, pads):
        """the symbolic execution result for None-pattern p, instantiated at (x, pads): every generic input variable of
        the interpreted jaxpr is replaced by the given term (z3.substitute) -- the jaxpr has no data-dependent control
        flow, so this equals re-interpreting it on these inputs (cross-checked once per case below)."""
        assert set(pads) == {PADS[i] for i in range(4) if p[i]}
        gx, gp, out, _ = interpret(p)
        if tuple(out.shape) != sh:
            return out
        pairs = [(g, sc.toreal(sc.toz(v))) for g, v in zip(gx.reshape(-1), jx.lift(x).reshape(-1))]
        for k in gp:
            pairs += [(g, sc.toreal(sc.toz(v))) for g, v in zip(gp[k].reshape(-1), jx.lift(pads[k]).reshape(-1))]
        r = np.empty(sh, dtype=object)
        for idx in np.ndindex(*sh):
            v = out[idx]
            r[idx] = z3.substitute(v, *pairs) if sc.isz(v) else v
        return r

    def real(p, xc, padsc):
        """the real code in float64, padding arrays given through the constructor."""
        T = GaussianSmoothing2D(std_discrete=std, **{k: jnp.asarray(v, dtype=jnp.float64) for k, v in padsc.items()})
        return np.asarray(T({"design": jnp.asarray(xc, dtype=jnp.float64)})["design"])

    def scale(*arrs):
        return 1.0 + max([float(np.max(np.abs(a))) for a in arrs if np.size(a)] + [0.0])

    zero = np.zeros(sh, dtype=object)
    zero[...] = 0
    x = jx.symarr("x", sh)
    y = jx.symarr("y", sh)
    t = z3.Real("t")
    cst = z3.Real("c")
    lo, hi = z3.Real("lo"), z3.Real("hi")
    c.symvars += 2 * x.size + 4
    validated = False
    twin = False

    for pi in case["patterns"]:
        p = ALL_PATTERNS[pi]
        pn = _pname(p)
        pads = {PADS[i]: jx.symarr(f"p{i}", (padlen[PADS[i]],)) for i in range(4) if p[i]}
        c.symvars += sum(v.size for v in pads.values())
        try:
            out_x = F(p, x, pads)
        except sc.NotEncodable:
            raise
        except Exception as ex:  # noqa: BLE001
            c.fail_concrete(f"[{pn}] smoothing raises on a legal input", dict(shape=list(sh), std=std, pattern=pn, error=repr(ex)[:300]), key=f"{kb}:{pn}:raises")
            continue
        if tuple(out_x.shape) != sh:
            c.fail_concrete(f"[{pn}] output shape differs from the input shape", dict(shape=list(sh), got=list(out_x.shape)), key=f"{kb}:{pn}:shape")
            continue
        if not validated or pi == 15:
            xc = rng.normal(size=sh)
            pc = {k: rng.normal(size=v.shape) for k, v in pads.items()}
            want = real(p, xc, pc)
            got = interpret(p)[3](jx.fracarr(xc), {k: jx.fracarr(v) for k, v in pc.items()})  # re-interpretation
            c.validate(jx.to_numeric(got), want, f"smoothing pattern {pn}")
            sub = F(p, jx.fracarr(xc), {k: jx.fracarr(v) for k, v in pc.items()})  # instantiation of the generic terms
            subn = np.array([float(z3.simplify(sc.toz(v)).as_fraction()) for v in sub.reshape(-1)]).reshape(sh)
            c.validate(subn, want, f"instantiated terms, pattern {pn}")
            validated = True

        # ---------------------------------------------------------------- affine
        xy = jx.ew(sc.add, x, y)
        out_xy, out_y, out_0 = F(p, xy, pads), F(p, y, pads), F(p, zero, pads)

        def rp_aff(m, p=p, pads=pads):
            xc, yc = model_array(m, x), model_array(m, y)
            pc = {k: model_array(m, v) for k, v in pads.items()}
            l = real(p, xc + yc, pc) - real(p, yc, pc)
            r = real(p, xc, pc) - real(p, np.zeros(sh), pc)
            res = float(np.max(np.abs(l - r)))
            return res > 1e-9 * scale(xc, yc, *pc.values()), dict(x=xc, y=yc, pads=pc, residual=res, claim="F(x+y)-F(y) == F(x)-F(0)")

        c.prove_eq(f"[{pn}] affine: F(x+y)-F(y) == F(x)-F(0)", jx.ew(sc.sub, out_xy, out_y), jx.ew(sc.sub, out_x, out_0), (), rp_aff, key=f"{kb}:{pn}:affine")
        tx = jx.ew(lambda v: sc.mul(t, v), x)
        out_tx = F(p, tx, pads)

        def rp_hom(m, p=p, pads=pads):
            xc, tc = model_array(m, x), model_value(m, t)
            pc = {k: model_array(m, v) for k, v in pads.items()}
            f0 = real(p, np.zeros(sh), pc)
            l = real(p, tc * xc, pc) - f0
            r = tc * (real(p, xc, pc) - f0)
            res = float(np.max(np.abs(l - r)))
            return res > 1e-9 * scale(xc, tc * xc, *pc.values()), dict(x=xc, t=tc, pads=pc, residual=res, claim="F(t x)-F(0) == t (F(x)-F(0))")

        c.prove_eq(f"[{pn}] affine: F(t x)-F(0) == t (F(x)-F(0))", jx.ew(sc.sub, out_tx, out_0),
                   jx.ew(lambda a, b: sc.mul(t, sc.sub(a, b)), out_x, out_0), (), rp_hom, key=f"{kb}:{pn}:affine")

        # ---------------------------------------------------------------- constants
        xcst = np.empty(sh, dtype=object)
        xcst[...] = cst
        pcst = {}
        for k in pads:
            a = np.empty((padlen[k],), dtype=object)
            a[...] = cst
            pcst[k] = a
        out_c = F(p, xcst, pcst)

        def rp_const(m, p=p, pads=pads):
            cc = model_value(m, cst)
            o = real(p, np.full(sh, cc), {k: np.full((padlen[k],), cc) for k in pads})
            res = float(np.max(np.abs(o - cc)))
            return res > 1e-9 * (abs(cc) + 1e-300), dict(c=cc, out=o, residual=res, claim="constant design (+ matching padding) unchanged")

        tolc = sc.mul(TOL, sc.abs_(cst))
        for idx in np.ndindex(*sh):
            d = sc.sub(out_c[idx], cst)
            c.prove(f"[{pn}] constant unchanged {idx}", sc.and_(sc.le(d, tolc), sc.ge(d, sc.neg(tolc))), (), rp_const, key=f"{kb}:{pn}:constants")

        # ---------------------------------------------------------------- range
        inrange = [lo <= hi]
        for v in list(x.reshape(-1)) + [v for a in pads.values() for v in a.reshape(-1)]:
            inrange += [lo <= v, v <= hi]
        tolr = TOL * (z3.If(lo >= 0, lo, -lo) + z3.If(hi >= 0, hi, -hi))

        def rp_range(m, p=p, pads=pads):
            xc = model_array(m, x)
            pc = {k: model_array(m, v) for k, v in pads.items()}
            vals = np.concatenate([xc.reshape(-1)] + [v.reshape(-1) for v in pc.values()])
            o = real(p, xc, pc)
            vmin, vmax = float(vals.min()), float(vals.max())
            exc = max(float(o.max()) - vmax, vmin - float(o.min()))
            return exc > 1e-9 * scale(vals), dict(x=xc, pads=pc, out=o, input_min=vmin, input_max=vmax, excess=exc, claim="output within the range of design and padding values")

        for idx in np.ndindex(*sh):
            o = sc.toz(out_x[idx])
            c.prove(f"[{pn}] within range {idx}", z3.And(o <= hi + tolr, o >= lo - tolr), inrange, rp_range, key=f"{kb}:{pn}:range")

        # ---------------------------------------------------------------- mirroring
        for ax in (0, 1):
            pm = mirror_pattern(p, ax)
            xm = unplane(plane(x)[::-1, :] if ax == 0 else plane(x)[:, ::-1])
            padsm = mirror_pads(pads, ax)
            out_m = F(pm, xm, padsm)
            want = unplane(plane(out_x)[::-1, :] if ax == 0 else plane(out_x)[:, ::-1])

            def rp_mir(m, p=p, pm=pm, pads=pads, ax=ax):
                xc = model_array(m, x)
                pc = {k: model_array(m, v) for k, v in pads.items()}
                o = real(p, xc, pc)
                xcm = unplane(plane(xc)[::-1, :] if ax == 0 else plane(xc)[:, ::-1])
                om = real(pm, xcm, mirror_pads(pc, ax))
                w = unplane(plane(o)[::-1, :] if ax == 0 else plane(o)[:, ::-1])
                res = float(np.max(np.abs(om - w)))
                return res > 1e-9 * scale(xc, *pc.values()), dict(x=xc, pads=pc, axis=ax, out=o, out_of_mirrored=om, residual=res, claim="smoothing commutes with mirroring")

            c.prove_eq(f"[{pn}] commutes with mirroring axis {ax}", out_m, want, (), rp_mir, key=f"{kb}:{pn}:mirror{ax}")

        # ---------------------------------------------------------------- default padding == edge replication
        if any(p):
            xp = plane(x)
            edges = {PADS[0]: xp[0, :], PADS[1]: xp[-1, :], PADS[2]: xp[:, 0], PADS[3]: xp[:, -1]}
            out_e = F(p, x, {k: edges[k] for k in pads})
            out_d = F(ALL_PATTERNS[0], x, {})

            def rp_edge(m, p=p, pads=pads):
                xc = model_array(m, x)
                xq = plane(xc)
                ed = {PADS[0]: xq[0, :], PADS[1]: xq[-1, :], PADS[2]: xq[:, 0], PADS[3]: xq[:, -1]}
                a = real(p, xc, {k: ed[k] for k in pads})
                b = real(ALL_PATTERNS[0], xc, {})
                res = float(np.max(np.abs(a - b)))
                return res > 1e-9 * scale(xc), dict(x=xc, explicit_edge_padding=a, default_padding=b, residual=res, claim="None padding == edge-repeat padding")

            c.prove_eq(f"[{pn}] explicit edge padding == default padding", out_e, out_d, (), rp_edge, key=f"{kb}:{pn}:edge-repeat")

        # ---------------------------------------------------------------- vacuity twins
        if not twin:
            i0 = (0,) * 3
            ok1 = c.witness(f"[{pn}] smoothing can change an entry", sc.ne(out_x[i0], x[i0]))
            o = sc.toz(out_x[i0])
            ok2 = c.witness(f"[{pn}] range assumptions satisfiable with the output strictly inside", z3.And(lo < o, o < hi), inrange)
            twin = ok1 and ok2
    if not twin:
        raise Inconclusive("vacuity twins failed")
