"""C30 -- recorded boundary data decompresses to what was recorded (E1; query time enumerated, history symbolic).

Per configuration (total steps T, save interval k, start step, module pipeline) the real ``Recorder`` is initialised
with ``init_state``; ``Recorder.compress`` and ``Recorder.decompress`` are each traced once (time step = traced int32
argument) and interpreted with the **recorded value of every step symbolic**.  All T steps are compressed in order,
then every query time ``start <= t < T`` is decompressed (t is enumerated: the index tables, ``argmax(tbl == idx)``
and the interpolation factor are then folded by JAX itself, i.e. by the real implementation) and z3 decides whether
the decompressed value can differ from the oracle: the recorded value at saved steps, the linear interpolation
between the two enclosing saved steps otherwise.  The oracle's save set is written here from the documentation
({start, start+k, ...} plus the last step), independently of ``_save_time_steps`` / ``_time_to_arr_idx``.

Widening dtype round trip: the real ``DtypeConversion.compress``/``decompress`` pair is traced, the chain of
``convert_element_type`` equations is read off the jaxpr and re-expressed in z3's floating-point theory
(round-to-nearest-even); identity is proved for every bit pattern of the narrow type.
"""
from __future__ import annotations

import time
from fractions import Fraction

import jax
import jax.numpy as jnp
import numpy as np
import z3

from .. import jx2smt as jx
from .. import sc
from ..core import Inconclusive, model_array

META = dict(
    functions=["interfaces.recorder.Recorder.init_state", "Recorder.compress", "Recorder.decompress",
               "interfaces.time_filter.LinearReconstructEveryK.init_shapes", "LinearReconstructEveryK.time_to_array_index",
               "LinearReconstructEveryK.indices_to_decompress", "LinearReconstructEveryK.compress", "LinearReconstructEveryK.decompress",
               "interfaces.modules.DtypeConversion.init_shapes", "DtypeConversion.compress", "DtypeConversion.decompress",
               "core.misc.index_1d_array", "interfaces.state.init_recording_state"],
    assumptions=[
        "reals instead of floats in the Recorder pipeline cases: dtype casts are identities there; the interpolation factor is the float the real code computes (folded by JAX), hence a tolerance query |out - oracle| <= 1e-6 with the history boxed to [-1, 1] (the map is linear in the history, so the box is no restriction up to scaling)",
        "query time t and the compressed steps are enumerated concretely (every start <= t < T), the recorded history is the solver-quantified input",
        "all T steps are compressed once, in increasing order, before any decompression (the way forward() drives the recorder)",
        "0 <= start_recording_after < T, k >= 1",
        "fp lemma: XLA convert_element_type between float formats = IEEE conversion with round-to-nearest-even; z3's single NaN stands for all NaN payloads",
    ],
    outside="T / k beyond the bounds; two chained time filters; decompression of steps before the start step; float round-off of narrowing conversions and of the interpolation arithmetic; sharded recording states (more than one device); other compression modules",
    bounds=dict(quick=dict(T=[1, 2, 3, 5, 8, 12], k="1..4 (T=12: k in {2,4})", start="every 0 <= start < T", t="every start <= t < T"),
                thorough=dict(T=[1, 2, 3, 4, 5, 6, 7, 8, 9, 10, 11, 12, 16, 20, 27, 33, 40], k="1..8", start="every 0 <= start < T", t="every start <= t < T")),
    timeout_ms=dict(quick=60000, thorough=120000),
)

TOL = Fraction(1, 10**6)
SHAPES = {"a": (2,), "b": (1, 2)}
# pipelines: list of module specs; "W" = widening storage (float32 history stored as float64), "N" = narrowing storage
# (float64 history stored as float32), "X" = widening with exclude filter on "b"
PIPES = ["lrk", "W+lrk", "lrk+W", "N+lrk", "lrk+X", "W", "none"]


def cases(tier, seed):
    out = []
    qT = [1, 2, 3, 5, 8, 12]
    tT = [1, 2, 3, 4, 5, 6, 7, 8, 9, 10, 11, 12, 16, 20, 27, 33, 40]
    for T in (qT if tier == "quick" else tT):
        # one worker handles all start steps of a few k values: eager jax primitives compile once per latent size
        groups = [[1, 2, 3, 4], [5, 6, 7, 8]] if T < 12 else [[2, 4], [1, 3], [5, 6], [7, 8]]
        for gi, ks in enumerate(groups):
            if tier == "quick" and (ks[0] > 4 or (T >= 12 and gi > 0)):
                continue
            out.append(dict(name=f"T{T}-k{'.'.join(map(str, ks))}-lrk", kind="pipe", T=T, ks=ks, pipe="lrk"))
    # module pipelines with DtypeConversion (identities over the reals): fewer (T, k), every start step
    for i, p in enumerate(PIPES[1:]):
        if p in ("W", "none"):
            out.append(dict(name=f"T5-{p}", kind="pipe", T=5, ks=[0], pipe=p))
            continue
        out.append(dict(name=f"T6-k3-3-{p}", kind="pipe", T=6, ks=[3], pipe=p))
        if tier != "quick":
            out.append(dict(name=f"T6-k2-2-{p}", kind="pipe", T=6, ks=[2], pipe=p))
            out.append(dict(name=f"T12-k4-5-{p}", kind="pipe", T=12, ks=[4, 5], pipe=p))
    out.append(dict(name="fp-widening-roundtrip", kind="fp"))
    return out


# ------------------------------------------------------------------------------------------------------------ oracle
def save_set(T, k, start):
    """documented save schedule: every k-th step from the start step, and always the last step."""
    s = set(range(start, T, k)) if k else set(range(T))
    s.add(T - 1)
    return sorted(s)


def expected(rec, T, k, start, t):
    """rec(s) = recorded value of step s (numeric or object array) -> (documented decompression result, saved?, (p, n))."""
    S = save_set(T, k, start)
    if t in S:
        return jx.lift(rec(t)), True, None
    p = max(s for s in S if s < t)
    n = min(s for s in S if s > t)
    w = Fraction(t - p, n - p)
    a, b = rec(p), rec(n)
    return jx.ew(lambda x, y: sc.add(x, sc.mul(w, sc.sub(y, x))), a, b), False, (p, n)


# ------------------------------------------------------------------------------------------------------------ set-up
def _modules(pipe, k, start):
    from fdtdx.interfaces.modules import DtypeConversion
    from fdtdx.interfaces.time_filter import LinearReconstructEveryK

    mods = []
    in_dt = jnp.float64
    for part in pipe.split("+"):
        if part == "lrk":
            mods.append(LinearReconstructEveryK(k=k, start_recording_after=start))
        elif part == "W":
            mods.append(DtypeConversion(dtype=jnp.float64))
            in_dt = jnp.float32
        elif part == "X":
            mods.append(DtypeConversion(dtype=jnp.float64, exclude_filter=("b",)))
            in_dt = jnp.float32
        elif part == "N":
            mods.append(DtypeConversion(dtype=jnp.float32))
        elif part == "none":
            pass
        else:
            raise ValueError(part)
    return mods, in_dt


def _setup(pipe, T, k, start):
    """real Recorder.init_state; returns (compress fn, decompress fn, initial data dict)."""
    from fdtdx.interfaces.recorder import Recorder

    mods, in_dt = _modules(pipe, k, start)
    rec = Recorder(modules=mods)
    shp = {n: jax.ShapeDtypeStruct(s, in_dt) for n, s in SHAPES.items()}
    rec, st0 = rec.init_state(shp, T, "cpu")
    key = jax.random.PRNGKey(0)
    sdt = {n: v.dtype for n, v in st0.data.items()}

    def comp(vals, data, s):
        st = st0.aset("data", {n: jnp.asarray(v).astype(sdt[n]) for n, v in data.items()})
        st = rec.compress({n: jnp.asarray(v).astype(in_dt) for n, v in vals.items()}, st, s, key)
        return dict(st.data)

    def dec(data, t):
        st = st0.aset("data", {n: jnp.asarray(v).astype(sdt[n]) for n, v in data.items()})
        vals, _ = rec.decompress(st, t, key)
        return dict(vals)

    data0 = {n: np.zeros(v.shape, dtype=np.float64) for n, v in st0.data.items()}
    return comp, dec, data0, rec


def _i32(x):
    return np.asarray(x, dtype=np.int32)


def _run_real(comp, dec, data0, hist, T, ts):
    """float64 replay through the real jitted-free code path: compress every step, decompress the listed times."""
    data = {n: jnp.asarray(v) for n, v in data0.items()}
    for s in range(T):
        data = comp({n: jnp.asarray(hist[n][s]) for n in SHAPES}, data, jnp.asarray(s, dtype=jnp.int32))
    return {t: {n: np.asarray(v, dtype=np.float64) for n, v in dec(data, jnp.asarray(t, dtype=jnp.int32)).items()} for t in ts}


# ------------------------------------------------------------------------------------------------------------ cases
def run_case(c, case):
    if case["kind"] == "fp":
        return _fp_case(c)
    T, pipe = case["T"], case["pipe"]
    c.functions.update(META["functions"])
    c.bounds.update(T=T, ks=case["ks"], pipe=pipe)
    hist = {n: jx.symarr(f"r_{n}", (T,) + s) for n, s in SHAPES.items()}
    box = []
    for a in hist.values():
        for v in a.reshape(-1):
            box += [v >= -1, v <= 1]
    c.symvars += sum(a.size for a in hist.values())
    rng = np.random.default_rng(c.seed + 30)
    validated = False
    twin_done = False
    dead = set()  # violation classes already reproduced in this case (further obligations of the class are skipped)
    for k in case["ks"]:
        for start in range(T):
            if "lrk" not in pipe and start > 0:
                continue
            kk = k if "lrk" in pipe else 1
            t0 = time.time()
            ex_vals = {n: a[0] for n, a in hist.items()}
            try:
                # only real code runs inside this block (initialisation and the two traces)
                stage = "Recorder.init_state"
                comp, dec, data0, rec = _setup(pipe, T, kk, start)
                data_sym = {n: jx.lift(v) for n, v in data0.items()}
                stage = "Recorder.compress"
                tr_c = jx.Traced(comp, (ex_vals, data_sym, _i32(0)))
                stage = "Recorder.decompress"
                tr_d = jx.Traced(dec, (data_sym, _i32(0)))
            except (sc.NotEncodable, Inconclusive):
                raise
            except Exception as ex:  # noqa: BLE001
                ekey = f"{pipe}:{'k>=T' if kk >= T else 'k<T'}:start{'>0' if start > 0 else '=0'}:exception"
                if ekey not in dead:
                    dead.add(ekey)
                    c.fail_concrete(f"k{kk}/start{start}: {stage} raises on a legal configuration", dict(T=T, k=kk, start_recording_after=start, pipeline=pipe,
                                    stage=stage, exception=f"{type(ex).__name__}: {ex}"[:400]), key=ekey)
                continue
            data = data_sym
            for s in range(T):
                data = tr_c({n: a[s] for n, a in hist.items()}, data, _i32(s))
                data = {n: jx.lift(v) for n, v in data.items()}
            outs, nonfinite = {}, {}
            for t in range(start, T):
                try:
                    outs[t] = tr_d(data, _i32(t))
                except sc.NotEncodable as ex:
                    # the real code computed a non-finite constant (e.g. an interpolation factor x/0) that meets the symbolic history
                    nonfinite[t] = str(ex)
            c.interp_s += time.time() - t0

            if not validated and not nonfinite:
                validated = True
                ch = {n: rng.uniform(-1, 1, size=a.shape) for n, a in hist.items()}
                want = _run_real(comp, dec, data0, ch, T, range(start, T))
                d = data_sym
                for s in range(T):
                    d = {n: jx.lift(v) for n, v in tr_c({n: jx.fracarr(ch[n][s]) for n in SHAPES}, d, _i32(s)).items()}
                for t in range(start, T):
                    got = tr_d(d, _i32(t))
                    for n in SHAPES:
                        c.validate(jx.to_numeric(jx.lift(got[n])), want[t][n], f"recorder pipeline {pipe} T={T} k={kk} start={start} t={t}")

            def replay(m, comp=comp, dec=dec, data0=data0, kk=kk, start=start):
                ch = {n: model_array(m, a).astype(np.float64) for n, a in hist.items()}
                got = _run_real(comp, dec, data0, ch, T, range(start, T))
                worst, where = 0.0, None
                for t in range(start, T):
                    for n in SHAPES:
                        w, _, _ = expected(lambda s, n=n: ch[n][s], T, kk, start, t)
                        dev = float(np.max(np.abs(got[t][n] - np.asarray(w, dtype=np.float64))))
                        if dev > worst:
                            worst, where = dev, (t, n)
                t_bad = where[0] if where else None
                return worst > 1e-4, dict(T=T, k=kk, start_recording_after=start, pipeline=pipe, worst_deviation=worst, at=where,
                                          save_steps_oracle=save_set(T, kk, start), history=ch,
                                          decompressed=None if t_bad is None else got[t_bad],
                                          expected=None if t_bad is None else {n: np.asarray(expected(lambda s, n=n: ch[n][s], T, kk, start, t_bad)[0], dtype=np.float64) for n in SHAPES})

            S = save_set(T, kk, start)
            for t in range(start, T):
                saved = t in S
                if saved:
                    cls = "saved-step"
                else:
                    p = max(s for s in S if s < t)
                    cls = "interpolated:first-segment" if p == start else "interpolated:later-segment"
                key = f"{pipe}:{'k>=T' if kk >= T else 'k<T'}:start{'>0' if start > 0 else '=0'}:{cls}"
                if key in dead:
                    continue
                if t in nonfinite:
                    # no finite symbolic value exists: decide by running the real code on a generic concrete history
                    ch = {n: np.random.default_rng(c.seed + 31).uniform(-1, 1, size=a.shape) for n, a in hist.items()}
                    got = _run_real(comp, dec, data0, ch, T, [t])[t]
                    devs = {n: float(np.max(np.abs(got[n] - np.asarray(expected(lambda s, n=n: ch[n][s], T, kk, start, t)[0], dtype=np.float64)))) for n in SHAPES}
                    if any(not np.all(np.isfinite(got[n])) for n in SHAPES) or max(devs.values()) > 1e-4:
                        c.fail_concrete(f"k{kk}/start{start}/t{t}: decompressed value is non-finite / wrong for every history ({nonfinite[t]})",
                                        dict(T=T, k=kk, start_recording_after=start, pipeline=pipe, t=t, save_steps_oracle=S, history=ch,
                                             decompressed=got, deviation=devs), key=key + ":non-finite")
                        dead.add(key)
                        continue
                    raise Inconclusive(f"k{kk}/start{start}/t{t}: interpreter met a non-finite constant but the real code returns the expected finite value")
                ok = True
                for n in SHAPES:
                    w, _, _ = expected(lambda s, n=n: hist[n][s], T, kk, start, t)
                    for i, (g, e) in enumerate(zip(jx.lift(outs[t][n]).reshape(-1), w.reshape(-1))):
                        d = sc.sub(g, e)
                        claim = sc.and_(sc.le(d, TOL), sc.ge(d, -TOL))
                        ok = c.prove(f"k{kk}/start{start}/t{t}/{n}[{i}]", claim, box, replay, key=key)
                        if not ok:
                            break
                    if not ok:
                        break
                if not ok and any(v["key"] == key for v in c.violations):
                    dead.add(key)
                    c.notes.append(f"class {key}: first reproduced violation recorded, further obligations of this class skipped in case {case['name']}")
            # vacuity twin (once per case): a non-saved step really is reconstructed (output differs from its own recorded value)
            if not twin_done:
                ns = [t for t in range(start, T) if t not in S and t in outs]
                if ns:
                    t = ns[0]
                    twin_done = c.witness(f"twin k{kk}/start{start}/t{t}: interpolated value can differ from the value recorded at t",
                                          sc.ne(jx.lift(outs[t]["a"]).reshape(-1)[0], hist["a"][t].reshape(-1)[0]), box)
    if not twin_done:
        # every step saved in every configuration of this case (k = 1 or T tiny): the recorded value must be able to be non-zero
        c.witness("twin: assumptions satisfiable, output is the (free) recorded value", sc.ne(hist["a"][T - 1].reshape(-1)[0], 0), box)


# ------------------------------------------------------------------------------------------------------------ QF_FP lemma
_FPS = {"float16": (5, 11), "bfloat16": (8, 8), "float32": (8, 24), "float64": (11, 53)}
_CPLX = {"complex64": "float32", "complex128": "float64"}


def _fp_chain(jaxpr, acc):
    """list of dtype names the single input passes through (only conversions / calls are allowed in the jaxpr)."""
    for e in jaxpr.eqns:
        p = e.primitive.name
        if p == "convert_element_type":
            acc.append(str(np.dtype(e.params["new_dtype"])))
        elif p in ("jit", "pjit", "closed_call"):
            cj = e.params.get("jaxpr")
            _fp_chain(cj.jaxpr if hasattr(cj, "jaxpr") else cj, acc)
        elif p in ("copy", "copy_p"):
            pass
        else:
            raise sc.NotEncodable(f"DtypeConversion round trip contains primitive {p}")
    return acc


def _fp_value(m, x, sort_name):
    bv = m.eval(z3.fpToIEEEBV(x), model_completion=True).as_long()
    if sort_name == "float64":
        return np.array([bv], dtype=np.uint64).view(np.float64)[0]
    if sort_name == "float32":
        return np.array([bv], dtype=np.uint32).view(np.float32)[0]
    if sort_name == "float16":
        return np.array([bv], dtype=np.uint16).view(np.float16)[0]
    return np.array([bv], dtype=np.uint16).view(jnp.bfloat16)[0]


def _fp_case(c):
    from fdtdx.interfaces.modules import DtypeConversion

    c.functions.update(["interfaces.modules.DtypeConversion.init_shapes", "DtypeConversion.compress", "DtypeConversion.decompress"])
    pairs = [("float32", "float64", True), ("float16", "float32", True), ("bfloat16", "float32", True), ("float16", "float64", True),
             ("bfloat16", "float64", True), ("complex64", "complex128", True), ("float32", "float32", True),
             ("float64", "float32", False), ("float32", "bfloat16", False), ("float32", "float16", False)]
    key = jax.random.PRNGKey(0)
    for src, dst, widening in pairs:
        mod = DtypeConversion(dtype=jnp.dtype(dst))
        mod, _, _ = mod.init_shapes({"v": jax.ShapeDtypeStruct((1,), jnp.dtype(src))})

        def rt(v, mod=mod):
            z, _ = mod.compress({"v": v}, None, key)
            return mod.decompress(z, None, key)["v"]

        cj = jax.make_jaxpr(rt)(jnp.zeros((1,), dtype=jnp.dtype(src)))
        chain = _fp_chain(cj.jaxpr, [])
        if widening and src != dst and dst not in chain:
            raise Inconclusive(f"{src}->{dst}: the traced round trip never converts to the storage dtype (chain {chain})")
        comp = _CPLX.get(src, src)
        parts = ["re", "im"] if src in _CPLX else ["v"]
        xs = [z3.FP(f"x_{src}_{dst}_{p}", z3.FPSort(*_FPS[comp])) for p in parts]
        c.symvars += len(xs)
        rs = []
        for x in xs:
            r = x
            for d in chain:
                r = z3.fpToFP(z3.RNE(), r, z3.FPSort(*_FPS[_CPLX.get(d, d)]))
            rs.append(r)
        if rs[0].sort() != xs[0].sort():
            if widening:
                c.fail_concrete(f"{src} stored as {dst}: decompress does not return the input dtype", dict(src=src, storage=dst, chain=chain), key=f"dtype-roundtrip:{src}->{dst}:dtype")
            continue
        same = z3.And(*[r == x for r, x in zip(rs, xs)])

        def replay(m, xs=xs, rt=rt, src=src, comp=comp):
            vals = [_fp_value(m, x, comp) for x in xs]
            v = np.array([vals[0] if len(vals) == 1 else complex(float(vals[0]), float(vals[1]))], dtype=jnp.dtype(src))
            out = np.asarray(rt(jnp.asarray(v)))
            bad = out.tobytes() != v.tobytes() and not (np.all(np.isnan(out.view(comp) if src in _CPLX else out) == np.isnan(v.view(comp) if src in _CPLX else v)) and np.all(np.isnan(v.view(comp) if src in _CPLX else v)))
            return bool(bad), dict(src=src, storage=dst, input=str(v), output=str(out))

        if widening:
            c.prove(f"{src} stored as {dst} round-trips bit-exactly (chain {'->'.join([src] + chain)})", same, [], replay, key=f"dtype-roundtrip:{src}->{dst}")
        else:
            # vacuity twins: the same encoding distinguishes a narrowing storage type (some value does not survive)
            c.witness(f"twin: {src} stored as {dst} loses some value", z3.Not(same), [])
