"""C04 -- time-reversal gradients equal exact (checkpointed) autodiff gradients (E1).

``g(x, ct) = jax.vjp(run_fdtd-detector-outputs, x)[1](ct)`` is traced under the reversible method (custom VJP with
reverse reconstruction, every number of reversible checkpoints) and under the checkpointed method; both jaxprs
are interpreted with the cotangent on *every detector output entry* symbolic (so the claim covers any scalar function
of the detector outputs) and the materials seeded exact rationals.  The gradients w.r.t. inverse permittivity and
inverse permeability must agree at every cell outside the absorbing layers.
"""
from __future__ import annotations

import time

import jax
import jax.numpy as jnp
import numpy as np
import z3

import fdtdx
from fdtdx.config import GradientConfig
from fdtdx.interfaces.recorder import Recorder

from .. import jx2smt as jx
from .. import sc
from ..core import Inconclusive, model_array
from . import _run

META = dict(
    functions=["fdtd.fdtd.reversible_fdtd (fdtd_fwd/fdtd_bwd/body_fn/reverse_body)", "fdtd.forward.forward_single_args_wrapper", "fdtd.backward.backward",
               "fdtd.fdtd.checkpointed_fdtd (equinox checkpointed while)", "fdtd.wrapper.run_fdtd", "update_detector_states", "add_interfaces/collect_interfaces"],
    assumptions=["reals for floats", "primal materials: seeded exact rationals (gradients are exact rational linear forms in the cotangent)",
                 "cotangent symbolic on every detector-state entry; zero on final fields", "lossless recorder, default PML grading",
                 "conductive scenes only with a full-field checkpoint at every step (num_checkpoints_reversible = T-1)"],
    outside="float drift of long reversals; T and shapes beyond the bound; dispersive media (reversible method rejects them)",
    bounds=dict(quick=dict(T=3, shape=(3, 3, 6)), thorough=dict(T=5)),
    timeout_ms=dict(quick=60000, thorough=300000),
)


def cases(tier, seed):
    T = 3 if tier == "quick" else 5
    out = []
    rs = [1] if tier == "quick" else list(range(T))
    for r in rs:
        out.append(dict(name=f"pml-lossless-r{r}", T=T, r=r, mat="lossless", shape=(3, 3, 6), pml=True))
    out.append(dict(name=f"pml-magnetic-r{1}", T=T, r=1, mat="magnetic", shape=(3, 3, 6), pml=True))
    out.append(dict(name=f"pml-conductive-r{T - 1}", T=T, r=T - 1, mat="conductive", shape=(3, 3, 6), pml=True))
    # fully anisotropic lossless background: update_E/update_E_reverse take their 9-component branch (seeded change C04b)
    out.append(dict(name="periodic-fulltensor-r1", T=min(T, 3), r=1, mat="fulltensor", shape=(3, 2, 4), pml=False))
    if tier != "quick":
        out.append(dict(name="periodic-lossless-r2", T=T, r=2, mat="lossless", shape=(3, 2, 4), pml=False))
        out.append(dict(name="periodic-conductive-rfull", T=T, r=T - 1, mat="conductive", shape=(3, 2, 4), pml=False))
    return out


def _bg(m):
    if m == "lossless":
        return fdtdx.Material(permittivity=2.0)
    if m == "magnetic":
        return fdtdx.Material(permittivity=(2.0, 2.5, 1.5), permeability=(1.5, 1.2, 2.0))
    if m == "fulltensor":
        return fdtdx.Material(permittivity=((2.0, 0.3, 0.1), (0.3, 2.5, 0.2), (0.1, 0.2, 3.0)))
    if m == "conductive":
        return fdtdx.Material(permittivity=2.0, electric_conductivity=0.8)
    raise ValueError(m)


def run_case(c, case):
    T, shape = case["T"], tuple(case["shape"])
    c.functions.update(META["functions"])
    c.bounds.update(T=T, shape=list(shape), r=case["r"])
    rng = np.random.default_rng(c.seed + 21)
    src = ("dipole", "plane") if case["mat"] not in ("magnetic", "fulltensor") else ("dipole", "mdipole")  # plane sources are rejected in anisotropic media

    def mk(gc):
        S = _run.scene(shape, T, pml=case["pml"], gradient_config=gc, background=_bg(case["mat"]), src_kinds=src)
        arr, oc, cfg, key = S["arrays"], S["objects"], S["config"], S["key"]
        has_mu = np.ndim(arr.inv_permeabilities) > 0

        def run(ie, im):
            a = arr.aset("inv_permittivities", ie)
            if has_mu:
                a = a.aset("inv_permeabilities", im)
            t, a2 = fdtdx.run_fdtd(a, oc, cfg, key, show_progress=False)
            return a2.detector_states

        def g(ie, im, ct):
            out, vjp = jax.vjp(run, ie, im)
            gi, gm = vjp(ct)
            return gi, gm
        return S, run, g, has_mu

    S1, run1, g1, has_mu = mk(GradientConfig(method="reversible", recorder=Recorder(modules=[]), num_checkpoints_reversible=case["r"]))
    S2, run2, g2, _ = mk(GradientConfig(method="checkpointed", num_checkpoints=2))
    arr = S1["arrays"]
    pml_mask = np.zeros(shape, dtype=bool)
    for p in S1["objects"].pml_objects:
        pml_mask[p.grid_slice] = True
    ie0 = np.round(np.asarray(arr.inv_permittivities) * rng.uniform(0.6, 1.0, size=np.shape(arr.inv_permittivities)), 3)
    im0 = np.round(np.asarray(arr.inv_permeabilities) * rng.uniform(0.6, 1.0, size=np.shape(arr.inv_permeabilities)), 3) if has_mu else np.zeros((1,))
    out = run1(jnp.asarray(ie0), jnp.asarray(im0))
    cnt = [0]

    def sym_like(x):
        cnt[0] += 1
        return jx.symarr(f"ct{cnt[0]}", np.shape(x), cplx=np.iscomplexobj(np.asarray(x)))

    ct = jax.tree_util.tree_map(sym_like, out)
    ctl = jax.tree_util.tree_leaves(ct, is_leaf=jx.is_obj)
    c.symvars += sum(x.size * (2 if any(isinstance(v, sc.Cx) for v in x.reshape(-1)) else 1) for x in ctl)
    t0 = time.time()
    (gi1, gm1), tr1 = jx.call(g1, jx.fracarr(ie0), jx.fracarr(im0), ct)
    (gi2, gm2), tr2 = jx.call(g2, jx.fracarr(ie0), jx.fracarr(im0), ct)
    c.interp_s += time.time() - t0
    j2 = jax.jit(g2)
    _j1 = []

    def j1(*a):
        if not _j1:
            _j1.append(jax.jit(g1))  # compiled only if a counterexample has to be replayed
        return _j1[0](*a)

    def conc_ct(f):
        return jax.tree_util.tree_map(f, ct, is_leaf=jx.is_obj)

    rnd = conc_ct(lambda x: jnp.asarray(rng.normal(size=x.shape) + (1j * rng.normal(size=x.shape) if any(isinstance(v, sc.Cx) for v in x.reshape(-1)) else 0)))
    want = j2(jnp.asarray(ie0), jnp.asarray(im0), rnd)
    got = tr2(jx.fracarr(ie0), jx.fracarr(im0), jax.tree_util.tree_map(lambda x: jx.lift(np.asarray(x)), rnd))
    c.validate(jx.to_numeric(got[0]), np.asarray(want[0]), "checkpointed gradient w.r.t. inverse permittivity")

    outside_e = np.broadcast_to(~pml_mask, np.shape(ie0))

    def replay(m):
        cc = conc_ct(lambda x: jnp.asarray(model_array(m, x)))
        a, b = j1(jnp.asarray(ie0), jnp.asarray(im0), cc), j2(jnp.asarray(ie0), jnp.asarray(im0), cc)
        da = np.abs(np.asarray(a[0]) - np.asarray(b[0]))[outside_e]
        scale = 1e-300 + float(np.max(np.abs(np.asarray(b[0]))))
        worst = float(np.max(da)) / scale
        if has_mu:
            dm = np.abs(np.asarray(a[1]) - np.asarray(b[1]))[np.broadcast_to(~pml_mask, np.shape(im0))]
            worst = max(worst, float(np.max(dm)) / (1e-300 + float(np.max(np.abs(np.asarray(b[1]))))))
        return worst > 1e-6, dict(worst_rel_diff=worst)

    kk = f"{case['mat']}:r{case['r']}"
    c.prove_eq("d/d(inv_eps): reversible == checkpointed (outside PML)", jx.lift(gi1)[outside_e], jx.lift(gi2)[outside_e], [], replay, key=f"gradient:inv_eps:{kk}")
    if has_mu:
        om = np.broadcast_to(~pml_mask, np.shape(im0))
        c.prove_eq("d/d(inv_mu): reversible == checkpointed (outside PML)", jx.lift(gm1)[om], jx.lift(gm2)[om], [], replay, key=f"gradient:inv_mu:{kk}")
    gz = [v for v in jx.lift(gi2)[outside_e].reshape(-1) if sc.is_symbolic_scalar(v)]
    if not gz:
        raise Inconclusive("gradient does not depend on the cotangent (vacuous scene)")
    c.witness("gradient can be non-zero", sc.ne(gz[0], 0), [])
