"""C25 -- brush-constrained designs are unions of brush placements (E1, bounded model checking; weakest claim).

``BrushConstraint2D._generator`` is traced once per (design shape, brush); its ``eqxi.while_loop`` has a symbolic
predicate and is unrolled K times by the interpreter, every ``lax.cond`` with a symbolic predicate is evaluated on both
sides and merged, ``argmax`` / ``.at[argmax].set`` become If-chains over the pixel index.  All design values are
symbolic reals.  Obligations per case:
  * unwinding assertion: after K iterations the loop predicate is false (termination within K iterations),
  * every solid output pixel lies in some brush footprint whose in-domain part is solid in the output,
  * every void output pixel lies in some brush footprint whose in-domain part is void in the output,
  * module level (``__call__``): the returned parameters are 0/1.
The oracle (footprints, coverage) is written here from the property text; the brush is only assumed point-symmetric.
"""
from __future__ import annotations

import time
from fractions import Fraction

import jax
import jax.numpy as jnp
import numpy as np
import z3

import fdtdx
from fdtdx.objects.device.parameters import discretization as disc
from fdtdx.objects.device.parameters.discretization import BrushConstraint2D, circular_brush
from fdtdx.typing import ParameterType

from .. import jx2smt as jx
from .. import sc
from ..core import Inconclusive, model_array
from ..sc import NotEncodable
from .c23 import BoolInterp, _all, _any

META = dict(
    functions=["discretization.BrushConstraint2D._generator", "discretization.BrushConstraint2D.__call__", "discretization.circular_brush",
               "binary_transform.dilate_jax", "core.jax.ste.straight_through_estimator"],
    assumptions=[
        "design values are reals in [-1, 1]: the generator only compares design values with each other, with their negatives "
        "and with -inf, so an odd increasing rescaling of the reals into (-1, 1) changes no decision",
        "the -inf mask value of the generator is represented by -2 (below every design value and its negative); +inf never occurs",
        "brushes are point-symmetric (plus, circular_brush) so that 'footprint of a touch' has one orientation",
        "footprint centres are design pixels (stronger than admitting centres outside the design; implies that reading)",
    ],
    outside="designs larger than the listed ones (4x4 was tried: unwinding bound 11 'unknown' after 600 s); designs with a side shorter than the brush "
            "(2x4 / 2x5 with a 3x3 brush make jax.scipy.signal.convolve2d raise 'One input must be smaller than the other in every dimension' -- "
            "treated as outside the documented domain, not as a violation); brushes other than the listed ones; float ties broken by rounding; gradient (straight-through) path; "
            "termination is only shown as 'within K = #pixels iterations' at the listed sizes",
    bounds=dict(quick=dict(designs="3x3 (plus, circular_brush(3) = full 3x3), module 3x3 plus", K="searched upwards from #pixels/2, at most #pixels"),
                thorough=dict(designs="quick + 3x4 and 4x3 plus, 3x4 circular_brush(3), 3x4 circular_brush(2), module 3x3 both background orders", K="as quick")),
    timeout_ms=dict(quick=120000, thorough=600000),
)

NEG_INF = -2  # stands for -inf (assumption 2)

_PLUS = np.array([[0, 1, 0], [1, 1, 1], [0, 1, 0]], dtype=bool)


def _brush(name):
    if name == "plus":
        return _PLUS
    if name.startswith("circ"):
        return np.asarray(circular_brush(float(name[4:]))).astype(bool)
    raise ValueError(name)


def cases(tier, seed):
    q = [
        dict(name="gen-3x3-plus", kind="gen", shape=(3, 3), brush="plus"),
        dict(name="gen-3x3-circ3", kind="gen", shape=(3, 3), brush="circ3"),
        dict(name="module-3x3-plus-bg1", kind="module", shape=(3, 3), brush="plus", bg=1),
    ]
    if tier == "quick":
        return q
    # 4x4 designs were tried (plus brush): unwinding bounds 9 and 10 are refuted in seconds, bound 11 is 'unknown' after
    # 600 s -- not decidable within the budget, hence not listed (see META["outside"])
    return q + [
        dict(name="gen-3x4-plus", kind="gen", shape=(3, 4), brush="plus"),
        dict(name="gen-4x3-plus", kind="gen", shape=(4, 3), brush="plus"),
        dict(name="gen-3x4-circ3", kind="gen", shape=(3, 4), brush="circ3"),
        dict(name="gen-3x4-circ2", kind="gen", shape=(3, 4), brush="circ2"),
        dict(name="module-3x3-plus-bg0", kind="module", shape=(3, 3), brush="plus", bg=0),
    ]


# ------------------------------------------------------------------------------------------------ interpreter extensions
class BrushInterp(BoolInterp):
    """handlers the generator needs beyond jx.Interp: -inf mask constants, Int-sorted argmax, scatter at a symbolic index."""

    def p_select_n(self, e, ins):
        ins = list(ins)
        for k in range(1, len(ins)):
            a = ins[k]
            if not jx.is_obj(a):
                a = np.asarray(a)
                if np.issubdtype(a.dtype, np.floating) and np.isinf(a).any():
                    if (a == np.inf).any():
                        raise NotEncodable("+inf constant in select_n")
                    ins[k] = np.where(np.isinf(a), float(NEG_INF), a)
        return jx.Interp.p_select_n(self, e, ins)

    def p_argmax(self, e, ins):
        a = jx.lift(ins[0])
        if a.ndim != 1:
            return jx.Interp.p_argmax(self, e, ins)
        best, besti, conc = a[0], z3.IntVal(0), 0
        for i in range(1, a.shape[0]):
            gt = sc.gt(a[i], best)  # strictly better: the first maximal entry wins, as in XLA
            if sc.isz(gt):
                besti, conc = z3.If(gt, z3.IntVal(i), besti), None
                best = sc.ite(gt, a[i], best)
            elif gt:
                besti, best = z3.IntVal(i), a[i]
                conc = i if conc is not None else None
        if conc is not None:
            return np.asarray(conc, dtype=e.outvars[0].aval.dtype)
        return jx.obj0(besti)

    def p_scatter(self, e, ins):
        op, ind, upd = ins
        if not (jx.is_obj(ind) and jx.has_z3(ind)):
            return self._move(e, ins)
        op, upd = jx.lift(op), jx.lift(upd)
        dn = e.params["dimension_numbers"]
        if op.ndim != 1 or ind.size != 1 or upd.size != 1 or tuple(dn.inserted_window_dims) != (0,) or tuple(dn.scatter_dims_to_operand_dims) != (0,):
            raise NotEncodable("scatter at a symbolic index: only x.at[i].set(v) on a 1-d array is encoded")
        i, v = ind.reshape(-1)[0], upd.reshape(-1)[0]
        out = np.empty(op.shape, dtype=object)
        for k in range(op.shape[0]):
            out[k] = sc.ite(sc.eq(i, k), v, op[k])  # an out-of-range index matches no k: dropped (FILL_OR_DROP) -- argmax is always in range
        return out


# ------------------------------------------------------------------------------------------------ oracle (independent)
def footprints(brush, shape):
    """in-domain parts of the brush footprints centred on a design pixel (the stronger reading of the statement: centres
    outside the design, which would make any boundary pixel a 'footprint' of its own, are not admitted)."""
    brush = np.asarray(brush, dtype=bool)
    bh, bw = brush.shape
    ch, cw = bh // 2, bw // 2
    fps = set()
    for ti in range(shape[0]):
        for tj in range(shape[1]):
            cells = [(ti + a - ch, tj + b - cw) for a in range(bh) for b in range(bw) if brush[a, b]]
            cells = tuple(sorted(q for q in cells if 0 <= q[0] < shape[0] and 0 <= q[1] < shape[1]))
            if cells:
                fps.add(cells)
    return sorted(fps)


def covered_sym(region, fps, p):
    """pixel p of ``region`` (object array of Bools) lies in a footprint that is inside the region."""
    return _any(_all(region[q] for q in f) for f in fps if p in f)


def feasible_np(region, fps):
    region = np.asarray(region, dtype=bool)
    cov = np.zeros_like(region)
    for f in fps:
        if all(region[q] for q in f):
            for q in f:
                cov[q] = True
    return region & ~cov  # pixels of the region not covered by any contained footprint


class _NoProgress(Exception):
    pass


def run_real(fn, max_iter):
    """run the real code with ``eqxi.while_loop`` replaced by a Python loop over the real cond_fun / body_fun, so that
    a design on which the loop does not terminate is detected (state repeats / iteration cap) instead of hanging."""
    info = {"iterations": 0, "stuck": False}

    def pyloop(cond_fun, body_fun, init_val, **kw):
        st = init_val
        while bool(cond_fun(st)):
            new = body_fun(st)
            info["iterations"] += 1
            same = all(bool((np.asarray(a) == np.asarray(b)).all()) for a, b in zip(jax.tree_util.tree_leaves(new), jax.tree_util.tree_leaves(st)))
            st = new
            if same or info["iterations"] > max_iter:
                info["stuck"] = True
                raise _NoProgress()
        return st

    orig = disc.eqxi.while_loop
    disc.eqxi.while_loop = pyloop
    try:
        out = fn()
    except _NoProgress:
        out = None
    finally:
        disc.eqxi.while_loop = orig
    return out, info


def _tobool(a):
    a = jx.lift(a)
    out = np.empty(a.shape, dtype=object)
    for idx in np.ndindex(*a.shape):
        v = a[idx]
        out[idx] = (v if z3.is_bool(v) else v != 0) if sc.isz(v) else bool(v)
    return out


def _symmetric(brush):
    return bool((brush == brush[::-1, ::-1]).all())


def _gen_case(c, case):
    shape, brush = tuple(case["shape"]), _brush(case["brush"])
    if not _symmetric(brush):
        raise Inconclusive("brush is not point-symmetric")
    N = shape[0] * shape[1]
    tform = BrushConstraint2D(brush=jnp.asarray(brush), axis=2)
    fn = tform._generator
    arr = jx.symarr("a", shape)
    c.symvars += N
    box = [z3.And(*[z3.And(v >= -1, v <= 1) for v in arr.reshape(-1)])]
    run = lambda d: np.asarray(fn(jnp.asarray(d))).astype(bool)
    what = "BrushConstraint2D._generator"
    it, out, tr, K = _unroll(c, what, fn, arr, box, N, run)
    if it is None:
        return
    _check_outputs(c, case, what, arr, box, it, _tobool(out), run, K, brush)
    _validate_terms(c, arr, it, out, lambda d: np.asarray(fn(jnp.asarray(d))), np.random.default_rng(c.seed + 25), N, "generator")
    c.extra["eqns"] = tr.n_eqns
    c.extra["while_iterations_unrolled"] = it.stats["while_iters"]
    c.bounds.update(shape=list(shape), brush=case["brush"], K=K)


def _validate_terms(c, arr, it, out, real, rng, N, what, n=3):
    """translator validation of the very terms the obligations are about: the K-times unrolled symbolic output is
    evaluated on concrete designs (z3 model evaluation) and compared with the real loop (run through ``run_real`` so that a
    non-terminating design cannot hang the check).  Designs that need more than K iterations are skipped."""
    done = 0
    for _ in range(4 * n):
        d = np.round(rng.uniform(-1, 1, size=arr.shape), 3)
        s = z3.Solver()
        for v, x in zip(arr.reshape(-1), d.reshape(-1)):
            s.add(v == z3.RealVal(Fraction(float(x))))
        if s.check() != z3.sat:
            raise Inconclusive("translator validation: could not fix a concrete design")
        m = s.model()
        if not z3.is_true(m.eval(z3.And(*it.unwinding), model_completion=True)):
            continue
        o, info = run_real(lambda: real(d), 4 * N + 8)
        if o is None:
            continue
        c.validate(model_array(m, jx.lift(out)).astype(np.float64), np.asarray(o).astype(np.float64), what)
        done += 1
        if done >= n:
            break
    if done == 0:
        raise Inconclusive("translator validation: no sampled design finished within the unwinding bound on both sides")


def _unroll(c, what, fn, arr, box, N, run, dtypes=None):
    """bounded model checking of the loop: unroll K times and prove the unwinding assertion ("after K iterations the loop
    predicate is false").  K is searched upwards from #pixels/2: a design that needs more than K iterations is not a
    violation (the statement only says "terminates"), it only shows that this K is too small; the obligation that counts
    is the one at the first K whose unwinding assertion the solver proves, and at K = #pixels a witness is replayed on the
    real loop (it violates the statement if the real loop makes no progress / exceeds 4 * #pixels iterations)."""
    tr = None
    K0 = max(2, N // 2)
    try:  # a legal design on which the real code raises is a violation by itself
        run_real(lambda: run(np.linspace(-0.9, 0.9, arr.size).reshape(arr.shape)), 4 * N + 8)
    except Exception as ex:  # noqa: BLE001
        c.witness("design is legal (real array of the module's input shape)", True)
        c.fail_concrete(f"{what} raises", dict(shape=list(arr.shape), exception=f"{type(ex).__name__}: {ex}"[:300]), key=f"{what}:raises")
        return None, None, None, None
    for K in range(K0, N + 1):
        t0 = time.time()
        it = BrushInterp(unroll_bound=K)
        if tr is None:
            out, tr = jx.call(fn, arr, interp=it, dtypes=dtypes)
        else:
            out = tr(arr, interp=it)
        c.interp_s += time.time() - t0
        if not it.unwinding:
            raise Inconclusive("the loop predicate never became symbolic: nothing was unrolled")
        if K == K0:
            # vacuity twin of the unwinding assertion: at a bound of 1 it is violated by some design
            it1 = BrushInterp(unroll_bound=1)
            tr(arr, interp=it1)
            c.witness("the loop needs more than 1 iteration for some design", z3.Not(z3.And(*it1.unwinding)) if it1.unwinding else False, box)

        def replay_term(model, K=K):
            d = model_array(model, arr)
            o, info = run_real(lambda: run(d), 4 * N + 8)
            return bool(info["stuck"]), dict(design=d, iterations=info["iterations"], no_progress=info["stuck"], bound=K)

        snap = (c.obligations, c.discharged, c.trivial, len(c.inconclusive), len(c.violations), len(c.samples))
        last = K == N
        if c.prove(f"{what}:terminates within {K} iterations", z3.And(*it.unwinding), box, replay_term if last else None,
                   key=f"{what}:no_termination"):
            c.extra["unwinding_bound"] = K
            return it, out, tr, K
        if last:
            return it, out, tr, K
        if any("unknown" in m for m in c.inconclusive[snap[3]:]):
            return it, out, tr, K  # the solver gave up at this K: a larger K will not be easier
        c.obligations, c.discharged, c.trivial = snap[0], snap[1], snap[2]
        del c.inconclusive[snap[3]:], c.violations[snap[4]:], c.samples[snap[5]:]
    raise Inconclusive("unreachable")


def _check_outputs(c, case, what, arr, box, it, P, run, K, brush, solid_is=True):
    shape = P.shape
    fps = footprints(brush, shape)
    S = np.empty(shape, dtype=object)
    V = np.empty(shape, dtype=object)
    for idx in np.ndindex(*shape):
        S[idx] = P[idx]
        V[idx] = sc.not_(P[idx])

    def replay(model):
        d = model_array(model, arr)
        out, info = run_real(lambda: run(d), 4 * int(np.prod(shape)) + 8)
        if out is None:
            return True, dict(design=d, no_progress=True, iterations=info["iterations"])
        bs, bv = feasible_np(out, fps), feasible_np(~out, fps)
        return bool(bs.any() or bv.any()), dict(design=d, output=out.astype(int), solid_pixels_in_no_contained_footprint=bs.astype(int),
                                                void_pixels_in_no_contained_footprint=bv.astype(int), iterations=info["iterations"])

    # the K-times unrolled output is the output of the real loop on every design for which the unwinding assertion holds
    # (proved above for all designs in the box; kept as an explicit hypothesis so that these claims never rest on a
    # truncated run)
    hyp = box + [z3.And(*it.unwinding)]
    for idx in np.ndindex(*shape):
        c.prove(f"{what}:solid{list(idx)}", z3.Implies(sc.toz(S[idx]), sc.toz(covered_sym(S, fps, idx))), hyp, replay, key=f"{what}:solid_feature_smaller_than_brush")
    c.prove(f"{what}:void (all pixels)", _all(z3.Implies(sc.toz(V[idx]), sc.toz(covered_sym(V, fps, idx))) for idx in np.ndindex(*shape)), hyp, replay,
            key=f"{what}:void_feature_smaller_than_brush")
    c.witness("output can have a solid pixel", sc.toz(_any(S.reshape(-1))), hyp)
    c.witness("output can have a void pixel", sc.toz(_any(V.reshape(-1))), hyp)


def _module_case(c, case):
    shape, brush, bg = tuple(case["shape"]), _brush(case["brush"]), case["bg"]
    N = shape[0] * shape[1]
    mats = {"Air": fdtdx.Material(permittivity=1.0), "Silicon": fdtdx.Material(permittivity=11.7)}
    tform = BrushConstraint2D(brush=jnp.asarray(brush), axis=2, background_material=None if bg == 0 else "Silicon")
    cfg = fdtdx.SimulationConfig(time=100e-15, grid=fdtdx.UniformGrid(spacing=500e-9), backend="cpu")
    s3 = shape + (1,)
    tform = tform.init_module(config=cfg, materials=mats, matrix_voxel_grid_shape=s3, single_voxel_size=(1e-6, 1e-6, 1e-6), output_shape={"params": s3})
    tform = tform.init_type({"params": ParameterType.CONTINUOUS})
    fn = lambda p: tform({"params": p})["params"]
    arr = jx.symarr("a", s3)
    c.symvars += N
    box = [z3.And(*[z3.And(v >= -1, v <= 1) for v in arr.reshape(-1)])]
    what = "BrushConstraint2D.__call__"
    run = lambda d: np.asarray(fn(jnp.asarray(np.asarray(d).reshape(s3))))[..., 0] == (1 - bg)
    it, out, tr, K = _unroll(c, what, fn, arr, box, N, run)
    if it is None:
        return
    out = jx.lift(out)
    hyp = box + [z3.And(*it.unwinding)]

    def replay_bin(model):
        d = model_array(model, arr)
        o, info = run_real(lambda: np.asarray(fn(jnp.asarray(d))), 4 * N + 8)
        if o is None:
            return True, dict(design=d, no_progress=True)
        return bool((~np.isin(o, [0.0, 1.0])).any()), dict(design=d, output=o)

    mat = np.empty(shape, dtype=object)
    for idx in np.ndindex(*shape):
        o = out[idx + (0,)]
        is1, is0 = z3.simplify(sc.toz(sc.eq(o, 1))), z3.simplify(sc.toz(sc.eq(o, 0)))
        c.prove(f"{what}:binary{list(idx)}", z3.Or(is0, is1), hyp, replay_bin, key=f"{what}:output_not_binary")
        mat[idx] = is1 if bg == 0 else is0  # material = the non-background index
    # regions: index 1-bg is solid material for the oracle; feasibility is symmetric in solid/void anyway
    _check_outputs(c, case, what, arr, box, it, mat, run, K, brush)
    _validate_terms(c, arr, it, out, lambda d: np.asarray(fn(jnp.asarray(d))), np.random.default_rng(c.seed + 26), N, "module")
    c.bounds.update(shape=list(shape), brush=case["brush"], K=K, background_index=bg)


def run_case(c, case):
    c.functions.update(META["functions"])
    if case["kind"] == "gen":
        _gen_case(c, case)
    elif case["kind"] == "module":
        _module_case(c, case)
    else:
        raise Inconclusive(f"unknown case kind {case['kind']}")
