"""C05 -- forward results independent of the gradient strategy; reversible slice boundaries partition the run.

E1: ``run_fdtd`` under no gradient config, checkpointed (every checkpoint count 1..T) and reversible (every
num_checkpoints_reversible 0..T-1) is interpreted with the material arrays symbolic; final fields, every detector
state and the step count must agree.  E2: ``_reversible_slice_boundaries(T, k)`` with k enumerated and T a symbolic
integer without upper bound.
"""
from __future__ import annotations

import time

import jax
import jax.numpy as jnp
import numpy as np
import z3

import fdtdx
from fdtdx.config import GradientConfig
from fdtdx.interfaces.recorder import Recorder

from .. import jx2smt as jx
from .. import pysym
from .. import sc
from ..core import Inconclusive, model_array, model_value
from . import _run

META = dict(
    functions=["fdtd.wrapper.run_fdtd", "fdtd.fdtd.checkpointed_fdtd", "fdtd.fdtd.reversible_fdtd (segmented_forward)", "fdtd.fdtd._reversible_slice_boundaries",
               "ArrayContainer.reset", "fdtd.forward.forward", "update_detector_states", "collect_interfaces"],
    assumptions=["reals for floats", "inverse permittivity symbolic per cell (> 0); sources concrete", "progress bars off (show_progress=False)",
                 "partition claim, layer 1 (unbounded T): round(i*T/k) modelled as round-half-even of the exact rational", "partition claim, layer 2 (float64-accurate, z3 floating-point theory): T <= 4095 (quick) / 16383 (thorough), k in the listed set"],
    outside="T beyond the bound for the run comparison (the partition claim has no upper bound on T, k <= 48)",
    bounds=dict(quick=dict(T=4, k_max=24, fp_k=[2, 3, 5, 7], fp_T_max=4095), thorough=dict(T=7, k_max=48, fp_k=[2, 3, 4, 5, 6, 7, 9, 11, 13], fp_T_max=16383)),
    timeout_ms=dict(quick=120000, thorough=600000),
)


def cases(tier, seed):
    T = 4 if tier == "quick" else 7
    out = [dict(name=f"partition-k{lo}-{hi}", kind="partition", klo=lo, khi=hi) for lo, hi in ([(1, 12), (13, 24)] if tier == "quick" else [(1, 12), (13, 24), (25, 36), (37, 48)])]
    # float64-accurate layer (QF_BVFP): one case per k so that the ~10 s floating-point queries run in parallel
    for k in ([2, 3, 5, 7] if tier == "quick" else [2, 3, 4, 5, 6, 7, 9, 11, 13]):
        out.append(dict(name=f"partition-fp-k{k}", kind="partition_fp", k=k, Tmax=(1 << 12) - 1 if tier == "quick" else (1 << 14) - 1, full=tier != "quick"))
    scenes = [("pml", (3, 3, 6), True), ("periodic", (3, 2, 4), False)]
    for nm, shape, pml in scenes:
        cfgs = [("ckpt", n) for n in range(1, T + 1)] + [("rev", r) for r in range(0, T)]
        if tier == "quick":
            cfgs = [("ckpt", 1), ("ckpt", 3), ("rev", 0), ("rev", 1), ("rev", T - 1)] if nm == "pml" else [("ckpt", 2), ("rev", 2)]
        for kind, n in cfgs:
            out.append(dict(name=f"run-{nm}-{kind}{n}", kind="run", shape=shape, pml=pml, T=T, method=kind, n=n))
    return out


def _partition(c, case):
    from fdtdx.fdtd import fdtd as F

    c.functions.add("fdtd.fdtd._reversible_slice_boundaries")
    for k in range(case["klo"], case["khi"] + 1):
        T, cons = pysym.fresh_int("T", k, None)  # 1 <= k <= T, T unbounded above
        c.symvars += 1

        def fn(T=T, k=k):
            with pysym.stub_module(F, int=pysym.symint, float=pysym.symfloat, round=pysym.symround):
                return F._reversible_slice_boundaries(T, k)

        def post(res, exc, T=T, k=k):
            if exc is not None or len(res) != k + 1:
                return False
            s = [pysym.term(x) for x in res]
            cl = [s[0] == 0, s[k] == T.t]
            for i in range(k):
                cl.append(s[i + 1] - s[i] >= 1)
            return z3.And(*cl)

        def replay(m, T=T, k=k):
            tv = model_value(m, T.t)
            got = F._reversible_slice_boundaries(tv, k)
            bad = got[0] != 0 or got[-1] != tv or any(b - a < 1 for a, b in zip(got, got[1:])) or len(got) != k + 1
            return bad, dict(T=tv, k=k, boundaries=got)

        c.sym_explore(f"partition k={k}", fn, post, cons, replay, key="slice-partition")
    T, cons = pysym.fresh_int("T", 2, None)
    c.witness("twin", T.t > 5, cons)


def _partition_fp(c, case):
    """the same real function executed over float64-accurate symbolic scalars (vf.fpsym): T a bit-vector int in
    [k, Tmax], every /, * and round()/int() with CPython's float64 semantics in z3's floating-point theory."""
    from fdtdx.fdtd import fdtd as F

    from .. import fpsym

    c.functions.add("fdtd.fdtd._reversible_slice_boundaries (float64 semantics, QF_BVFP)")
    k, Tmax = case["k"], case["Tmax"]
    c.bounds.update(k=k, T_max=Tmax)
    T, cons = fpsym.fresh_int("T", k, Tmax)
    c.symvars += 1
    with pysym.stub_module(F, int=fpsym.fp_int, float=fpsym.fp_float):
        res = F._reversible_slice_boundaries(T, k)
    if len(res) != k + 1:
        c.fail_concrete("wrong number of boundaries", dict(k=k, got=len(res)), key="slice-partition-fp")
        return
    s = [fpsym.bvterm(x) for x in res]

    def replay(m):
        tv = m.eval(T.t, model_completion=True).as_signed_long()
        got = F._reversible_slice_boundaries(tv, k)
        bad = got[0] != 0 or got[-1] != tv or any(b - a < 1 for a, b in zip(got, got[1:])) or len(got) != k + 1
        return bad, dict(T=tv, k=k, boundaries=got)

    c.prove("s_0 == 0", s[0] == 0, cons, replay, key="slice-partition-fp:start")
    c.prove(f"s_{k} == T", s[k] == T.t, cons, replay, key="slice-partition-fp:end")
    idx = range(k) if case["full"] else sorted({0, k - 1})
    for i in idx:
        c.prove(f"s_{i + 1} - s_{i} >= 1", s[i + 1] - s[i] >= 1, cons, replay, key="slice-partition-fp:increasing")
    c.witness("twin: the range of T is inhabited and a boundary lies strictly inside", z3.And(s[1] > 0, s[1] < T.t) if k > 1 else z3.BoolVal(True), cons)


def _gc(method, n):
    if method == "ckpt":
        return GradientConfig(method="checkpointed", num_checkpoints=n)
    return GradientConfig(method="reversible", recorder=Recorder(modules=[]), num_checkpoints_reversible=n)


def run_case(c, case):
    if case["kind"] == "partition":
        return _partition(c, case)
    if case["kind"] == "partition_fp":
        return _partition_fp(c, case)
    shape, T = tuple(case["shape"]), case["T"]
    c.functions.update(META["functions"])
    c.bounds.update(T=T, shape=list(shape))
    S0 = _run.scene(shape, T, pml=case["pml"])
    S1 = _run.scene(shape, T, pml=case["pml"], gradient_config=_gc(case["method"], case["n"]))
    if S0["config"].time_steps_total != T or S1["config"].time_steps_total != T:
        raise Inconclusive("scene does not have the requested number of steps")
    ie = jx.symarr("ie", np.shape(S0["arrays"].inv_permittivities))
    assume = [v > 0 for v in ie.reshape(-1)]
    c.symvars += ie.size

    def mk(S):
        arr, oc, cfg, key = S["arrays"], S["objects"], S["config"], S["key"]

        def run(ie):
            t, a = fdtdx.run_fdtd(arr.aset("inv_permittivities", ie), oc, cfg, key, show_progress=False)
            return t, a.fields.E, a.fields.H, a.detector_states
        return run

    r0, r1 = mk(S0), mk(S1)
    t0 = time.time()
    o0, tr0 = jx.call(r0, ie)
    o1, tr1 = jx.call(r1, ie)
    c.interp_s += time.time() - t0
    rng = np.random.default_rng(c.seed)
    conc = np.asarray(S0["arrays"].inv_permittivities) * rng.uniform(0.4, 1.0, size=ie.shape)
    j0, j1 = jax.jit(r0), jax.jit(r1)
    w0 = j0(jnp.asarray(conc))
    g0 = tr0(jx.lift(conc))
    c.validate(jx.to_numeric(g0[1]), np.asarray(w0[1]), "run_fdtd final E (no gradient config)")

    def replay(m):
        iev = model_array(m, ie)
        a, b = j0(jnp.asarray(iev)), j1(jnp.asarray(iev))
        worst = 0.0
        la, lb = jax.tree_util.tree_leaves(a), jax.tree_util.tree_leaves(b)
        for x, y in zip(la, lb):
            x, y = np.asarray(x), np.asarray(y)
            worst = max(worst, float(np.max(np.abs(x - y))) / (1.0 + float(np.max(np.abs(x)))) if x.size else 0.0)
        return worst > 1e-7, dict(worst_rel_diff=worst, inv_eps=iev)

    k = f"{case['method']}"
    for nm, a, b in (("step count", o0[0], o1[0]), ("final E", o0[1], o1[1]), ("final H", o0[2], o1[2])):
        c.prove_eq(f"{nm} equal", a, b, assume, replay, key=f"strategy:{k}:{nm}")
    for (n0, k0, a), (n1, k1, b) in zip(_run.flat_states(o0[3]), _run.flat_states(o1[3])):
        assert (n0, k0) == (n1, k1)
        c.prove_eq(f"detector {n0}.{k0} equal", a, b, assume, replay, key=f"strategy:{k}:detector")
    # twin: the run is not trivial (final E depends on the materials / is non-zero)
    e = [v for v in jx.lift(o0[1]).reshape(-1) if sc.is_symbolic_scalar(v)]
    if not e:
        raise Inconclusive("final field does not depend on the symbolic materials (vacuous scene)")
    c.witness("final E can be non-zero", sc.ne(e[0], 0), assume)
