"""C17 -- phasor detectors compute the windowed discrete Fourier transform (E1: jaxpr -> SMT).

Stage 1 ("dft" cases): the real ``update`` of PhasorDetector / PhasorPoyntingFluxDetector /
ClosedSurfacePhasorPoyntingFluxDetector is iterated over all T steps of a placed scene (gated by the on-mask the real
placement produced, as ``update_detector_states`` does) with a *fresh symbolic field per step*.  The accumulated state is a
linear form in T x 6 x cells unknowns; z3 decides, per entry, that it equals the oracle
``scale * sum_{t recorded} w(t) f_t (cos(w t dt) + i sin(w t dt))`` with the cos/sin/window tables computed in the harness
(tolerance mode: fields boxed to [-1, 1], |code - oracle| <= 1e-6 (1 + sum |coefficients|); QF_LRA).

Stage 2 ("flux" cases): ``compute_poynting_flux`` / ``compute_net_flux`` are interpreted on a *symbolic complex phasor
state* and must equal Re(E x H*) (times 1/2 in continuous mode) integrated with the harness' own face areas -- exact (==)
on dyadic grids.  Stage 1 + stage 2 compose to the property's second sentence.
"""
from __future__ import annotations

import math
import time
from fractions import Fraction

import jax
import jax.numpy as jnp
import numpy as np
import z3

import fdtdx
from fdtdx import OnOffSwitch
from fdtdx.core.window import GaussianWindow, TukeyWindow
from fdtdx.objects.detectors.phasor import PhasorDetector
from fdtdx.objects.detectors.poynting_flux import ClosedSurfacePhasorPoyntingFluxDetector, PhasorPoyntingFluxDetector

from .. import jx2smt as jx
from .. import sc
from ..core import Inconclusive, model_array
from .c16 import (C0, SP, _ALL, _plane, _signed, _t32, _tree_np, area_weights, canon_components, drive, dyadic_widths, mini_scene, o_add, o_div,
                  o_mul, o_neg, o_ssum, o_sub, o_total, prove_entries, vol_weights)

META = dict(
    functions=["PhasorDetector.update", "PhasorDetector._static_scale", "PhasorDetector._calculate_on_list", "PhasorDetector._resolve_dft_stride",
               "PhasorDetector.place_on_grid (window table, window sum)", "core.window.gaussian_envelope", "core.window.tukey_envelope",
               "PhasorPoyntingFluxDetector.place_on_grid", "PhasorPoyntingFluxDetector.compute_poynting_flux",
               "ClosedSurfacePhasorPoyntingFluxDetector.update", "ClosedSurfacePhasorPoyntingFluxDetector.compute_net_flux",
               "poynting_flux._phasor_poynting_vector", "core.physics.metrics.compute_poynting_flux"],
    assumptions=[
        "reals instead of floats; the harness' cos/sin/window tables differ from the code's by float round-off, hence tolerance queries: "
        "all field samples in [-1, 1], |code - oracle| <= 1e-6 (1 + sum |oracle coefficients|) (1e-6 because the code stores its window table in float32)",
        "the set of *active* steps of the on/off switch is taken from OnOffSwitch.calculate_on_list (subject of C14); the thinning to every stride-th "
        "active step, the stride ('auto' included), the window and the scale are recomputed by the harness",
        "detector state starts from the real init_state (zeros); update is gated by the placed on-mask exactly as update_detector_states does",
        "dyadic grids (see C16) so that face areas / cell volumes are exact; real-valued fields per step",
    ],
    outside="T larger than listed; regions larger than listed; the co-location interpolation in front of update (C15); complex time-domain fields; "
            "float round-off; the integration variant (phasor + field detector inside one forward run)",
    bounds=dict(quick=dict(T=6, region="(2,1,2) / closed (2,2,2)", configs="rotating covering subset (12 PhasorDetector + 6 closed-surface + 2 plane configurations), 4 flux cases"), thorough=dict(T=[6, 12, 24], region="(2,1,2) / closed (2,2,2)", configs="T=6: stride x scaling x window x switch (72 PhasorDetector + 12 closed + 3 plane); T=12,24: the quick subset")),
    timeout_ms=dict(quick=60000, thorough=300000),
)

_STRIDES = [1, 2, 3, "auto"]
_SCALINGS = ["continuous", "pulse"]
_APODS = ["none", "gauss", "tukey"]
_SWITCHES = ["all", "interval2", "fixed"]
_COMPS = [_ALL, ("Ex", "Hz"), ("Hy",), ("Ez", "Ey", "Hx")]
_FREQS = ["w16", "w22+p", "f+w16"]


def _configs(tier):
    cfgs = []
    k = 0
    for si, s in enumerate(_STRIDES):
        for ci, sm in enumerate(_SCALINGS):
            for ai, ap in enumerate(_APODS):
                for wi, sw in enumerate(_SWITCHES):
                    k += 1
                    if tier == "quick" and (si + 2 * ci + 3 * ai + 5 * wi) % 7 != 0:
                        continue
                    cfgs.append(dict(cls="phasor", stride=s, scaling=sm, apod=ap, switch=sw, comps=list(_COMPS[k % 4]), freqs=_FREQS[k % 3], reduce=bool(k % 2)))
    for ai, ap in enumerate(_APODS):
        for ci, sm in enumerate(_SCALINGS):
            for s in (1, 2):
                if tier == "quick" and (s == 2) != (ci == 1):
                    continue
                cfgs.append(dict(cls="closed", stride=s, scaling=sm, apod=ap, switch="all" if s == 1 else "interval2", comps=list(_ALL), freqs=_FREQS[(ai + ci) % 3], reduce=False))
    for ap, sm, s in (("none", "continuous", 1), ("tukey", "pulse", "auto")) if tier == "quick" else (("none", "continuous", 1), ("tukey", "pulse", "auto"), ("gauss", "continuous", 2)):
        cfgs.append(dict(cls="phasor_poynting", stride=s, scaling=sm, apod=ap, switch="all", comps=list(_ALL), freqs="w22+p", reduce=False))
    return cfgs


def cases(tier, seed):
    out = []
    per = 5

    def chunk(cfgs, prefix, T):
        for i in range(0, len(cfgs), per):
            out.append(dict(name=f"{prefix}{i // per}", kind="dft", T=T, cfgs=cfgs[i:i + per], grid="nonuniform" if (i // per) % 2 == 0 else "uniform"))

    q = _configs("quick")
    chunk(q, "dft-T6-g", 6)
    if tier != "quick":
        rest = [cf for cf in _configs("thorough") if cf not in q]
        chunk(rest, "dft-T6-x", 6)
        chunk(q, "dft-T12-g", 12)
        chunk(q, "dft-T24-g", 24)
    for g in ("uniform", "nonuniform"):
        out.append(dict(name=f"flux-plane-{g}", kind="flux-plane", grid=g))
        out.append(dict(name=f"flux-closed-{g}", kind="flux-closed", grid=g))
    return out


# --------------------------------------------------------------------------- oracle pieces (harness-side, float64 tables)


def _freq_list(spec):
    """(WaveCharacter list, frequencies in Hz per the definitions f = c / wavelength = 1 / period)."""
    W = fdtdx.WaveCharacter
    lam16, lam22 = 16.0 * SP, 22.5 * SP
    per = 19.0 * SP / C0
    fr = C0 / (27.0 * SP)
    if spec == "w16":
        return [W(wavelength=lam16)], [C0 / lam16]
    if spec == "w22+p":
        return [W(wavelength=lam22), W(period=per)], [C0 / lam22, 1.0 / per]
    if spec == "f+w16":
        return [W(frequency=fr), W(wavelength=lam16)], [fr, C0 / lam16]
    raise ValueError(spec)


def _window_obj(apod, T, dt):
    if apod == "none":
        return None
    if apod == "gauss":
        return GaussianWindow(center_time=0.45 * T * dt, sigma_time=0.3 * T * dt)
    if apod == "tukey":
        return TukeyWindow(start_time=-0.5 * dt, end_time=(T - 1.25) * dt, alpha=0.6)
    raise ValueError(apod)


def _window_val(apod, T, dt, time):
    """textbook window definitions, evaluated in float64 by the harness."""
    if apod == "none":
        return 1.0
    if apod == "gauss":
        c0, s0 = 0.45 * T * dt, 0.3 * T * dt
        return math.exp(-((time - c0) ** 2) / (2.0 * s0 * s0))
    start, end, alpha = -0.5 * dt, (T - 1.25) * dt, 0.6
    x = (time - start) / (end - start)
    if x < 0.0 or x > 1.0:
        return 0.0
    if x < alpha / 2:
        return 0.5 * (1.0 + math.cos(math.pi * (2.0 * x / alpha - 1.0)))
    if x > 1.0 - alpha / 2:
        return 0.5 * (1.0 + math.cos(math.pi * (2.0 * (x - 1.0) / alpha + 1.0)))
    return 1.0


def _switch_obj(sw, T):
    if sw == "all":
        return OnOffSwitch()
    if sw == "interval2":
        return OnOffSwitch(interval=2)
    if sw == "fixed":
        return OnOffSwitch(fixed_on_time_steps=sorted({1, 2, T - 2, T - 1, T // 2}))
    raise ValueError(sw)


def _oracle_tables(cfg, T, dt):
    """recorded steps, coefficient table coef[f][t] (complex) = scale * w(t) * exp(i w_f t dt), all harness-side."""
    _, freqs = _freq_list(cfg["freqs"])
    active = [t for t, on in enumerate(_switch_obj(cfg["switch"], T).calculate_on_list(T, dt)) if on]
    if cfg["stride"] == "auto":
        fmax = max(abs(f) for f in freqs)
        stride = max(1, math.floor(1.0 / (12 * fmax * dt)))
    else:
        stride = max(1, int(cfg["stride"]))
    rec = active[::stride]
    w = {t: _window_val(cfg["apod"], T, dt, t * dt) for t in rec}
    wsum = sum(w.values())
    scale = 2.0 / wsum if cfg["scaling"] == "continuous" else float(stride)
    coef = [[complex(0.0)] * T for _ in freqs]
    for fi, f in enumerate(freqs):
        om = 2.0 * math.pi * f
        for t in rec:
            coef[fi][t] = scale * w[t] * complex(math.cos(om * t * dt), math.sin(om * t * dt))
    return rec, stride, coef, scale, wsum


def _dft(coef, series):
    """series: object array (T, C, *cells) -> object array (F, C, *cells) of sum_t coef[f][t] * series[t]."""
    series = jx.lift(series)
    T = series.shape[0]
    out = np.empty((len(coef),) + series.shape[1:], dtype=object)
    for fi, row in enumerate(coef):
        acc = None
        for t in range(T):
            cf = row[t]
            if cf == 0:
                continue
            term = jx.ew(lambda v, cf=cf: sc.mul(sc.Cx(cf.real, cf.imag), v), series[t])
            acc = term if acc is None else o_add(acc, term)
        if acc is None:
            acc = jx.ew(lambda v: sc.Cx(0, 0), series[0])
        out[fi] = acc
    return out


# --------------------------------------------------------------------------- run


def run_case(c, case):
    c.functions.update(META["functions"])
    rng = np.random.default_rng(c.seed + 170)
    if case["kind"] == "dft":
        return _run_dft(c, case, rng)
    if case["kind"] == "flux-plane":
        return _run_flux_plane(c, case, rng)
    if case["kind"] == "flux-closed":
        return _run_flux_closed(c, case, rng)
    raise ValueError(case["kind"])


def _mk_detector(cfg, name, rs, T, dt):
    waves, _ = _freq_list(cfg["freqs"])
    kw = dict(name=name, partial_grid_shape=rs, wave_characters=waves, dtype=jnp.complex128, scaling_mode=cfg["scaling"], dft_subsample=cfg["stride"],
              apodization=_window_obj(cfg["apod"], T, dt), switch=_switch_obj(cfg["switch"], T))
    if cfg["cls"] == "phasor":
        return PhasorDetector(components=tuple(cfg["comps"]), reduce_volume=cfg["reduce"], **kw)
    if cfg["cls"] == "phasor_poynting":
        return PhasorPoyntingFluxDetector(direction="+", **kw)
    if cfg["cls"] == "closed":
        return ClosedSurfacePhasorPoyntingFluxDetector(**kw)
    raise ValueError(cfg["cls"])


def _run_dft(c, case, rng):
    T = case["T"]
    shape, lo = (4, 3, 3), (1, 1, 0)
    widths = None if case["grid"] == "uniform" else dyadic_widths(shape, c.seed)
    c.bounds.update(T=T, shape=list(shape), grid=case["grid"])
    # time step of this grid (a scene constant, not under test): place an empty scene first
    dt = mini_scene(shape, widths, [], steps=T)["dt"]
    dets, regions = [], {}
    for i, cfg in enumerate(case["cfgs"]):
        rs = (2, 1, 2) if cfg["cls"] != "phasor_poynting" else (2, 1, 2)
        if cfg["cls"] == "closed":
            rs = (2, 2, 2)
        regions[f"d{i}"] = rs
        dets.append((_mk_detector(cfg, f"d{i}", rs, T, dt), lo))
    try:
        S = mini_scene(shape, widths, dets, steps=T)
        D, ST = S["det"], S["states"]
    except Inconclusive:
        raise
    except Exception:  # noqa: BLE001  -- isolate the configuration that does not place
        D, ST, S = {}, {}, None
        for i, cfg in enumerate(case["cfgs"]):
            try:
                S1 = mini_scene(shape, widths, [dets[i]], steps=T)
                D.update(S1["det"])
                ST.update(S1["states"])
                S = S1
            except Inconclusive:
                raise
            except Exception as ex:  # noqa: BLE001
                rec, stride, coef, scale, wsum = _oracle_tables(cfg, T, dt)
                if not (wsum > 1e-6):
                    raise Inconclusive(f"harness configuration {cfg} has an (almost) empty window over its recorded steps")
                c.fail_concrete(f"legal configuration raises at placement: {cfg}", dict(cfg=cfg, recorded=rec, window_sum=wsum, error=f"{type(ex).__name__}: {str(ex)[:300]}"),
                                key=f"{cfg['cls']}:placement")
        if S is None:
            raise Inconclusive("no detector configuration of this case could be placed")
    if abs(S["dt"] - dt) > 0 or int(S["config"].time_steps_total) != T:
        raise Inconclusive(f"scene has {S['config'].time_steps_total} steps / dt {S['dt']}, harness intended {T} / {dt}")
    big = (2, 2, 2)
    Es, Hs = jx.symarr("E", (T, 3, *big)), jx.symarr("H", (T, 3, *big))
    box = [z3.And(v >= -1, v <= 1) for v in list(Es.reshape(-1)) + list(Hs.reshape(-1))]
    for i, cfg in enumerate(case["cfgs"]):
        n = f"d{i}"
        if n not in D:
            continue
        d, rs = D[n], regions[n]
        on = [bool(v) for v in np.asarray(d._is_on_at_time_step_arr)]
        rec, stride, coef, scale, wsum = _oracle_tables(cfg, T, dt)
        desc = f"{cfg['cls']} stride={cfg['stride']} {cfg['scaling']} apod={cfg['apod']} switch={cfg['switch']} freqs={cfg['freqs']} comps={len(cfg['comps'])} reduce={cfg['reduce']}"
        c.extra.setdefault("configs", []).append(dict(desc=desc, recorded=rec, stride=stride))
        vol = vol_weights(widths, shape, lo, rs)

        def real(Es, Hs, d=d, rs=rs, on=on, n=n):
            st = ST[n]
            for t in range(T):
                if on[t]:  # the gate of update_detector_states (lax.cond on the placed on-mask), time step concrete here
                    st = d.update(_t32(t), Es[t][:, :rs[0], :rs[1], :rs[2]], Hs[t][:, :rs[0], :rs[1], :rs[2]], st, None, None)
            return st

        def pairs(out, ins, cfg=cfg, rs=rs, coef=coef, vol=vol, desc=desc):
            Es, Hs = (jx.lift(x)[:, :, :rs[0], :rs[1], :rs[2]] for x in ins)
            p = []
            comps = cfg["comps"] if cfg["cls"] == "phasor" else list(_ALL)
            series = np.stack([canon_components(Es[t], Hs[t], comps) for t in range(T)], axis=0)  # (T, C, *rs)
            ph = _dft(coef, series)  # (F, C, *rs)
            key = f"{'closed_phasor' if cfg['cls'] == 'closed' else cfg['cls']}:dft:apod={cfg['apod']}"
            if cfg["cls"] == "closed":
                for a in range(3):
                    for side in ("min", "max"):
                        idx = [slice(None)] * 5
                        idx[a + 2] = slice(0, 1) if side == "min" else slice(rs[a] - 1, rs[a])
                        p.append((f"{desc}: face phasor axis{a} {side} == windowed DFT", key, jx.lift(out[f"phasor_axis{a}_{side}"])[0], ph[tuple(idx)]))
                return p
            if cfg["reduce"]:
                ph = o_div(o_ssum(o_mul(ph, vol[None, None])), o_total(vol))
            p.append((f"{desc}: accumulated phasor == windowed DFT", key, jx.lift(out["phasor"])[0], ph))
            return p

        # 1e-6 relative: the code keeps its window table in float32 (on-mask cast), i.e. it carries ~6e-8 relative round-off
        tol = 1e-6 * (1.0 + max(sum(abs(v) for v in row) for row in coef))
        _drive_tol(c, f"dft[{n}]", real, [Es, Hs], pairs, box, tol, rng)


def _drive_tol(c, tag, real, syms, pairs_fn, box, tol, rng):
    """like c16.drive, but tolerance mode (QF_LRA); the float64 replay must reproduce a deviation of at least tol / 2 (tol is
    already ~100x above the float32 round-off level of the code's tables)."""
    t0 = time.time()
    out, tr = jx.call(real, *syms)
    c.interp_s += time.time() - t0
    c.symvars += sum(int(s.size) for s in syms)
    conc = [_signed(rng, s.shape) / 1.5 for s in syms]
    want = _tree_np(real(*[jnp.asarray(x) for x in conc]))
    got = tr(*[jx.fracarr(x) for x in conc])
    for g, w in zip(jax.tree_util.tree_leaves(got, is_leaf=jx.is_obj), jax.tree_util.tree_leaves(want)):
        c.validate(jx.to_numeric(g), np.asarray(w), tag)
    pairs = pairs_fn(out, list(syms))

    def mk_replay(i):
        def replay(m):
            ci = [model_array(m, s) for s in syms]
            o = _tree_np(real(*[jnp.asarray(x) for x in ci]))
            p = pairs_fn(jax.tree_util.tree_map(jx.lift, o), [jx.lift(x) for x in ci])
            nm, key, l, r = p[i]
            l, r = np.asarray(jx.to_numeric(jx.lift(l))), np.asarray(jx.to_numeric(jx.lift(r)))
            err = float(np.max(np.abs(l - r)))
            return err > 0.5 * tol, dict(obligation=nm, err=err, tol=tol, code=l, oracle=r, inputs=ci)
        return replay

    bad = set()
    for i, (nm, key, l, r) in enumerate(pairs):
        if key in bad:  # one confirmed witness per violation class and detector configuration is enough
            c.notes.append(f"{tag} {nm}: not examined (class {key} already violated for this configuration)")
            continue
        if not prove_entries(c, f"{tag} {nm}", l, r, box, mk_replay(i), key, tol=tol):
            bad.add(key)
    # vacuity twin: some entry of the accumulated state can be non-zero inside the box
    flat = [v for v in jx.lift(pairs[0][2]).reshape(-1)]
    v = next((x for x in flat if sc.is_symbolic_scalar(x)), None)
    if v is None:
        raise Inconclusive(f"{tag}: accumulated state has no symbolic entry (nothing recorded?)")
    c.witness(f"{tag}: twin (accumulated phasor can be non-zero)", z3.Or(sc.ne(sc.real(v), 0), sc.ne(sc.imag(v), 0)), box)


# --------------------------------------------------------------------------- stage 2: flux from phasors


def _cx_cross_re(E, H):
    """Re(E x conj(H)) for complex object arrays (3, ...)."""
    out = np.empty(E.shape, dtype=object)
    cj = jx.ew(sc.conj, H)
    for a in range(3):
        b, cc = (a + 1) % 3, (a + 2) % 3
        out[a] = jx.ew(sc.real, o_sub(o_mul(E[b], cj[cc]), o_mul(E[cc], cj[b])))
    return out


def _rand_cx(r, shape):
    return _signed(r, shape) + 1j * _signed(r, shape)


def _run_flux_plane(c, case, rng):
    shape, lo, rs = (4, 3, 3), (1, 0, 1), (2, 3, 2)
    widths = None if case["grid"] == "uniform" else dyadic_widths(shape, c.seed)
    c.bounds.update(shape=list(shape), region=[list(lo), list(rs)], grid=case["grid"])
    waves, _ = _freq_list("w22+p")
    variants = [(a, dr, sm) for a in range(3) for dr, sm in (("+", "continuous"), ("-", "pulse"))] + [(0, "-", "continuous"), (1, "+", "pulse")]
    mk = lambda a, dr, sm, keep, nm: PhasorPoyntingFluxDetector(name=nm, partial_grid_shape=_plane(rs, a), direction=dr, scaling_mode=sm, keep_all_components=keep,
                                                                wave_characters=waves, dtype=jnp.complex128)
    dets = [(mk(a, dr, sm, False, f"v{i}"), lo) for i, (a, dr, sm) in enumerate(variants)]
    S = mini_scene(shape, widths, dets)
    D, ST = S["det"], S["states"]
    st = jx.symarr("S", (1, 2, 6, *rs), cplx=True)

    def oracle(st, a, dr, sm, comp):
        prs = _plane(rs, a)
        ph = jx.lift(st)[0][:, :, :prs[0], :prs[1], :prs[2]]  # (F, 6, *prs)
        out = np.empty((ph.shape[0],), dtype=object)
        for f in range(ph.shape[0]):
            S_ = _cx_cross_re(ph[f, :3], ph[f, 3:])
            v = o_ssum(o_mul(S_[comp], area_weights(widths, shape, lo, prs, comp)))[()]
            if dr == "-":
                v = sc.neg(v)
            if sm == "continuous":
                v = sc.mul(Fraction(1, 2), v)
            out[f] = v
        return out

    def real(st):
        o = {}
        for i, (a, dr, sm) in enumerate(variants):
            prs = _plane(rs, a)
            o[f"v{i}"] = D[f"v{i}"].compute_poynting_flux({"phasor": st[:, :, :, :prs[0], :prs[1], :prs[2]]})
        return o

    def pairs(out, ins):
        return [(f"plane axis{a} dir{dr} {sm}: flux == {'1/2 ' if sm == 'continuous' else ''}area-weighted Re(E x H*)[{a}]", "phasor_poynting:flux",
                 jx.lift(out[f"v{i}"]), oracle(ins[0], a, dr, sm, a)) for i, (a, dr, sm) in enumerate(variants)]

    drive(c, "flux-plane", real, [st], pairs, [], lambda out, ins: out["v0"], rng, lambda r: [_rand_cx(r, st.shape)])
    # all-component output: legal per the field documentation; placement must succeed and every component must match
    failed = []
    for a in range(3):
        try:
            S2 = mini_scene(shape, widths, [(mk(a, "+", "continuous", True, "all"), lo)])
        except Inconclusive:
            raise
        except Exception as ex:  # noqa: BLE001
            failed.append(dict(region=list(_plane(rs, a)), error=f"{type(ex).__name__}: {str(ex)[:200]}"))
            continue
        d = S2["det"]["all"]
        prs = _plane(rs, a)

        def real2(st, d=d, prs=prs):
            return d.compute_poynting_flux({"phasor": st[:, :, :, :prs[0], :prs[1], :prs[2]]})

        def pairs2(out, ins, a=a):
            return [(f"plane axis{a} keep_all_components: component {k} == 1/2 area-weighted Re(E x H*)[{k}]", "phasor_poynting:flux:all-components",
                     jx.lift(out)[:, k], oracle(ins[0], a, "+", "continuous", k)) for k in range(3)]

        drive(c, f"flux-plane all{a}", real2, [st], pairs2, [], lambda out, ins: out, rng, lambda r: [_rand_cx(r, st.shape)])
    if failed:
        c.fail_concrete(f"PhasorPoyntingFluxDetector(keep_all_components=True) raises at placement on {len(failed)} legal plane region(s) (same detector without the flag places)",
                        dict(grid=case["grid"], lo=list(lo), domain=list(shape), failures=failed), key="phasor_poynting:keep_all_components:placement")


def _run_flux_closed(c, case, rng):
    shape, lo, rs = (4, 3, 3), (1, 0, 1), (2, 3, 2)
    widths = None if case["grid"] == "uniform" else dyadic_widths(shape, c.seed)
    c.bounds.update(shape=list(shape), region=[list(lo), list(rs)], grid=case["grid"])
    waves, _ = _freq_list("f+w16")
    thin = (rs[0], 1, rs[2])
    variants = [("box", rs, None, "outward", "continuous"), ("boxin", rs, None, "inward", "pulse"), ("boxax", rs, (2, 0), "outward", "pulse"),
                ("thin", thin, None, "inward", "continuous"), ("thinax", thin, (1, 2), "outward", "continuous")]
    dets = [(ClosedSurfacePhasorPoyntingFluxDetector(name=n, partial_grid_shape=brs, axes=axes, orientation=orient, scaling_mode=sm, wave_characters=waves, dtype=jnp.complex128), lo)
            for n, brs, axes, orient, sm in variants]
    S = mini_scene(shape, widths, dets)
    D, ST = S["det"], S["states"]
    # one symbolic box of phasors; every detector's face states are cut from it (faces of one box are consistent by construction,
    # but nothing in compute_net_flux relies on that: independent face states are the 'thin'/'ax' variants with other shapes)
    states = {n: {k: jx.symarr(f"S_{n}_{k}", np.shape(v), cplx=True) for k, v in ST[n].items()} for n, *_ in variants}
    flat, tree = jax.tree_util.tree_flatten(states, is_leaf=jx.is_obj)

    def real(*fs):
        sts = jax.tree_util.tree_unflatten(tree, list(fs))
        return {n: D[n].compute_net_flux(sts[n]) for n, *_ in variants}

    def pairs(out, ins):
        sts = jax.tree_util.tree_unflatten(tree, list(ins))
        p = []
        for n, brs, axes, orient, sm in variants:
            use = [a for a in range(3) if brs[a] > 1] if axes is None else list(axes)
            F = len(waves)
            want = np.empty((F,), dtype=object)
            for f in range(F):
                tot = 0
                for a in use:
                    prs = _plane(brs, a)
                    for side, sgn in (("max", 1), ("min", -1)):
                        ph = jx.lift(sts[n][f"phasor_axis{a}_{side}"])[0][f]  # (6, *prs)
                        flo = tuple(lo[i] + (brs[i] - 1 if (i == a and side == "max") else 0) for i in range(3))
                        v = o_ssum(o_mul(_cx_cross_re(ph[:3], ph[3:])[a], area_weights(widths, shape, flo, prs, a)))[()]
                        tot = sc.add(tot, v if sgn > 0 else sc.neg(v))
                if orient == "inward":
                    tot = sc.neg(tot)
                if sm == "continuous":
                    tot = sc.mul(Fraction(1, 2), tot)
                want[f] = tot
            # the recorded faces must be exactly the contributing ones
            keys = sorted(sts[n])
            exp_keys = sorted(f"phasor_axis{a}_{s}" for a in use for s in ("min", "max"))
            if keys != exp_keys:
                raise Inconclusive(f"{n}: state keys {keys}, expected {exp_keys}")
            p.append((f"{n} axes={axes} {orient} {sm}: net flux == {'1/2 ' if sm == 'continuous' else ''}signed area-weighted Re(E x H*).n over the faces", "closed_phasor:flux",
                      jx.lift(out[n]), want))
        return p

    drive(c, "flux-closed", real, flat, pairs, [], lambda out, ins: out["box"], rng, lambda r: [_rand_cx(r, s.shape) for s in flat])
