"""C03 -- full backward pass reconstructs the interior despite absorbing layers (E1).

T forward steps with interface recording (lossless Recorder, no modules) followed by T backward steps with field
reset are traced as one function; the initial interior E/H (and the inverse permittivities) are symbolic, PML cells
start at zero.  After every reverse step the state outside all PML slabs must equal the forward state of that step.
"""
from __future__ import annotations

import time

import jax
import jax.numpy as jnp
import numpy as np
import z3

import fdtdx
from fdtdx.fdtd.backward import backward
from fdtdx.fdtd.forward import forward

from .. import jx2smt as jx
from .. import sc
from ..core import Inconclusive, model_array
from ..scenes import build_scene, dipole, plane_source, wall_masks

META = dict(
    functions=["fdtd.forward.forward(record_boundaries=True)", "fdtd.backward.backward(reset_fields=True)", "fdtd.update.collect_interfaces/add_interfaces",
               "fdtd.misc.collect_boundary_interfaces/add_boundary_interfaces", "BaseBoundary.interface_slice", "PerfectlyMatchedLayer.apply_field_reset",
               "PerfectlyMatchedLayer.step_cpml", "interfaces.recorder.Recorder.compress/decompress (no modules)", "update_E/H[_reverse]", "curl_E/curl_H (PML branch)"],
    assumptions=["reals for floats", "lossless non-dispersive media; inverse permittivity symbolic per cell (> 0)", "default PML grading",
                 "initial fields zero inside the PML slabs; wall conditions imposed on the initial interior state",
                 "recorder without compression modules (lossless)"],
    outside="lossy compression modules, non-default kappa/alpha at the inner face, conductive or dispersive media, T and shapes beyond the bounds",
    bounds=dict(quick=dict(T=3, pml_thickness=[1, 2]), thorough=dict(T=5, pml_thickness=[1, 2, 3])),
    timeout_ms=dict(quick=60000, thorough=300000),
)


def _scenes(tier):
    P = "pml"
    out = []
    # (name, shape, bounds, thickness)
    out.append(("zpair-periodic-t2", (3, 3, 6), {"min_z": P, "max_z": P}, 2))
    out.append(("zmin-pec-t1", (3, 2, 4), {"min_z": P, "max_z": "pec", "min_x": "pec", "max_x": "pec", "min_y": "periodic", "max_y": "periodic"}, 1))
    out.append(("xmax-pmc-t2", (5, 2, 3), {"max_x": P, "min_x": "pmc", "min_y": "pmc", "max_y": "pmc", "min_z": "periodic", "max_z": "periodic"}, 2))
    out.append(("ypair-zpair-corner-t1", (2, 4, 4), {"min_y": P, "max_y": P, "min_z": P, "max_z": P, "min_x": "periodic", "max_x": "periodic"}, 1))
    if tier != "quick":
        out.append(("allfaces-t1", (4, 4, 4), P, 1))
        out.append(("ymin-t3", (3, 6, 2), {"min_y": P, "max_y": "pmc", "min_x": "periodic", "max_x": "periodic", "min_z": "periodic", "max_z": "periodic"}, 3))
        out.append(("xpair-t2-pec", (6, 2, 3), {"min_x": P, "max_x": P, "min_y": "pec", "max_y": "pec", "min_z": "periodic", "max_z": "periodic"}, 2))
        out.append(("zmax-t2-nonuniform", (3, 3, 5), {"max_z": P, "min_z": "pec"}, 2))
    return out


def cases(tier, seed):
    T = 3 if tier == "quick" else 5
    out = []
    for name, shape, b, th in _scenes(tier):
        for src in ("dipole", "none") if tier != "quick" else ("dipole",):
            TT = T if np.prod(shape) <= 50 else 3  # symbolic permittivities: term degree grows with 2T, >50 cells stay at 3 steps
            out.append(dict(name=f"{name}-{src}", shape=shape, bounds=b, thickness=th, src=src, T=TT, nonuniform="nonuniform" in name))
    # H-injecting sources behind non-default on/off switches: a plane source whose window closes inside the run and a
    # magnetic dipole that is on at the final step only (the reverse sweep crosses both switch edges; seeded change C03b)
    name, shape, b, th = _scenes(tier)[0]
    out.append(dict(name=f"{name}-switched", shape=shape, bounds=b, thickness=th, src="switched", T=T if tier == "quick" else 4, nonuniform=False))
    return out


def run_case(c, case):
    shape, T = tuple(case["shape"]), case["T"]
    b = case["bounds"]
    rng = np.random.default_rng(c.seed + 3)
    pml_mask = np.zeros(shape, dtype=bool)
    ws = None
    if case["nonuniform"]:
        ws = [list(np.round(rng.uniform(0.7, 1.4, size=n), 2)) for n in shape]
    S0 = build_scene(shape, b, thickness=case["thickness"], steps=T, reversible=True, widths=ws)
    for p in S0["objects"].pml_objects:
        pml_mask[p.grid_slice] = True
    interior = np.argwhere(~pml_mask)
    if len(interior) == 0:
        raise Inconclusive("scene has no interior")
    srcs = []
    if case["src"] == "dipole":
        pos = tuple(int(v) for v in interior[len(interior) // 2])
        srcs = [dipole("dip", pos, pol=int(np.argmax(shape)) % 3)]
    if case["src"] == "switched":
        zs = sorted({int(v[2]) for v in interior})
        pos = tuple(int(v) for v in interior[0])
        srcs = [plane_source("pl", 2, zs[len(zs) // 2], "+", switch=fdtdx.OnOffSwitch(fixed_on_time_steps=list(range(0, T - 1)))),
                dipole("mdip", pos, pol=1, kind="magnetic", switch=fdtdx.OnOffSwitch(fixed_on_time_steps=[T - 1]))]
    S = build_scene(shape, b, thickness=case["thickness"], steps=T, reversible=True, extra_objects=srcs, widths=ws)
    arr, oc, cfg, key = S["arrays"], S["objects"], S["config"], S["key"]
    c.functions.update(META["functions"])
    c.bounds.update(shape=list(shape), T=T, pml=case["thickness"])
    fsh = arr.fields.E.shape
    zE, zH = wall_masks(oc, shape)
    inside = np.broadcast_to(pml_mask, fsh)

    def masked(name, zero):
        a = jx.symarr(name, fsh)
        a[zero | inside] = 0
        return a

    E0, H0 = masked("E", zE), masked("H", zH)
    ie = jx.symarr("ie", np.shape(arr.inv_permittivities))
    assume = [v > 0 for v in ie.reshape(-1)]
    c.symvars += int((~(zE | inside)).sum() + (~(zH | inside)).sum()) + ie.size

    def run(E, H, ie):
        a = arr.aset("fields->E", E).aset("fields->H", H).aset("inv_permittivities", ie)
        st = (jnp.asarray(0, dtype=jnp.int32), a)
        fw = [(E, H)]
        for _ in range(T):
            st = forward(st, cfg, oc, key, False, True, True)
            fw.append((st[1].fields.E, st[1].fields.H))
        bw = []
        for _ in range(T):
            st = backward(st, cfg, oc, key, False, True)
            bw.append((st[1].fields.E, st[1].fields.H))
        return fw, bw, st[0]

    t0 = time.time()
    (fw, bw, tend), tr = jx.call(run, E0, H0, ie)
    c.interp_s += time.time() - t0
    if jx.has_z3(tend) or int(jx.to_numeric(tend)) != 0:
        raise Inconclusive("reverse sweep does not end at step 0")

    # translator validation
    runj = jax.jit(run)
    conc = [rng.normal(size=fsh) * (~(zE | inside)), rng.normal(size=fsh) * (~(zH | inside)), np.asarray(arr.inv_permittivities) * rng.uniform(0.5, 1.0, size=np.shape(arr.inv_permittivities))]
    want = runj(*[jnp.asarray(x) for x in conc])
    got = tr(*[jx.fracarr(np.round(x, 3)) for x in conc]) if False else None
    # (the exact-rational re-interpretation of 2T steps is costly; validate the final reverse state only, in float mode)
    gotf = tr(*[jx.lift(x) for x in conc])
    c.validate(jx.to_numeric(gotf[1][-1][0]), np.asarray(want[1][-1][0]), "E after full reverse sweep")
    c.validate(jx.to_numeric(gotf[0][-1][1]), np.asarray(want[0][-1][1]), "H after forward sweep")

    outside = ~inside

    def replay(m):
        ci = [model_array(m, E0), model_array(m, H0), model_array(m, ie)]
        f, bk, _ = runj(*[jnp.asarray(x) for x in ci])
        worst = 0.0
        for k in range(T):
            fe, fh = f[T - 1 - k]
            be, bh = bk[k]
            scale = 1.0 + float(np.max(np.abs(np.asarray(fe)))) + float(np.max(np.abs(np.asarray(fh))))
            worst = max(worst, float(np.max(np.abs((np.asarray(be) - np.asarray(fe))[outside]))) / scale, float(np.max(np.abs((np.asarray(bh) - np.asarray(fh))[outside]))) / scale)
        return worst > 1e-7, dict(worst_rel_residual=worst, E0=ci[0], H0=ci[1], inv_eps=ci[2])

    kk = f"{case['name']}"
    for k in range(T):
        fe, fh = fw[T - 1 - k]
        be, bh = bw[k]
        c.prove_eq(f"after {k + 1} reverse steps: E == forward E at step {T - 1 - k} (outside PML)", jx.lift(be)[outside], jx.lift(fe)[outside], assume, replay, key=f"reconstruct:{kk}:E")
        c.prove_eq(f"after {k + 1} reverse steps: H == forward H at step {T - 1 - k} (outside PML)", jx.lift(bh)[outside], jx.lift(fh)[outside], assume, replay, key=f"reconstruct:{kk}:H")
    # vacuity twins: the forward run changes the interior, and the PML actually receives field (so the reset matters)
    fe = jx.lift(fw[T][0])
    ok = False
    for x, y in zip(fe[outside].reshape(-1), jx.lift(E0)[outside].reshape(-1)):
        if sc.is_symbolic_scalar(x) and not (sc.isz(y) and sc.isz(x) and x.eq(y)):
            ok = c.witness("forward run changes the interior", sc.ne(x, y), assume)
            break
    if not ok:
        raise Inconclusive("vacuity twin failed (interior never changes)")
    pm = [v for v in fe[inside].reshape(-1) if sc.is_symbolic_scalar(v)]
    if not pm:
        raise Inconclusive("no field ever enters the absorbing layer within T steps (scene too large for T)")
    c.witness("field enters the absorbing layer", sc.ne(pm[0], 0), assume)
