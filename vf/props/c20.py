"""C20 -- projection filters: bounded, monotone, fixed points, beta = 0 / inf limits, finite gradients (E1 + UF tanh/sqrt).

The real ``tanh_projection`` / ``smoothed_projection`` (and the ``TanhProjection`` / ``SubpixelSmoothedProjection``
wrappers) are traced to jaxprs -- primal and ``jax.grad`` / ``jax.vjp`` -- and interpreted with design value(s), beta and
the threshold eta symbolic.  ``tanh`` and ``sqrt`` of symbolic arguments are uninterpreted functions constrained by sound
axioms instantiated per obligation (``sc.axioms_for``).  "Finite gradients" is restated over the reals as: every
definedness side condition the interpreter records (divisor != 0, sqrt argument >= 0 -- on *all* branches, including
the ones a ``where`` masks out) holds on the documented input domain, for the primal and the gradient jaxpr.
beta = 0 and beta = inf are covered twice: as values of the symbolic beta (0) and as concrete Python floats closed over
by the traced function (0.0, inf, and one finite value), which is how ``apply_params(..., beta=...)`` passes them.
"""
from __future__ import annotations

import math
import time
from fractions import Fraction

import numpy as np
import z3

from .. import jx2smt as jx
from .. import sc
from ..core import Inconclusive, model_array, model_value
from ..sc import isz

META = dict(
    functions=["objects.device.parameters.projection.tanh_projection", "projection.smoothed_projection",
               "TanhProjection.__call__", "SubpixelSmoothedProjection.__call__", "jax.grad / jax.vjp jaxprs of all four"],
    assumptions=[
        "reals instead of floats; tanh/sqrt are uninterpreted functions with sound axioms (sign, strict monotonicity, oddness, |tanh|<1, sqrt(a)^2=a)",
        "a symbolic beta is a finite real >= 0; beta = inf (and 0.0, 8.0) enter as concrete Python floats closed over by the traced call",
        "eta in [0,1] (strictly inside (0,1) for the fixed-point and the beta=inf clauses), design values in [0,1] for range/monotonicity",
        "'finite gradient' = all recorded definedness conditions (divisor != 0, sqrt argument >= 0, divisor sqrt(.) != 0) of the primal and "
        "gradient jaxprs hold, masked branches included",
        "'cell without an interface' = finite-difference gradient of rho is 0, or |eta-rho| > 0.55*|grad rho| in pixel units with a 1e-9 relative "
        "margin (the margin absorbs constant-folding round-off of 0.55*dx; the boundary case |d| = R itself is not claimed)",
    ],
    outside="float overflow / 0*inf in masked branches (d_R**5, tanh(inf*x)): only the real-arithmetic definedness is claimed; "
            "arrays larger than the listed shapes; values of the smoothed projection in cells with an interface",
    bounds=dict(quick=dict(smoothed_shapes=[(3, 3)], resolutions=[20.0], wrapper_shapes=[(3, 1, 3)]),
                thorough=dict(smoothed_shapes=[(3, 3), (3, 4), (2, 3), (4, 4)], resolutions=[20.0, 1.0, 37.5], wrapper_shapes=[(3, 1, 3), (1, 3, 3), (3, 3, 1)])),
    timeout_ms=dict(quick=30000, thorough=120000),
)

INF = float("inf")
MARGIN = Fraction(1, 10**9)
BETAS = {"sym": None, "inf": INF, "zero": 0.0, "eight": 8.0}


def cases(tier, seed):
    out = [dict(name=f"tanh-beta-{b}", kind="tanh", beta=b, wrapper=False) for b in ("sym", "inf", "zero", "eight")]
    out += [dict(name=f"tanh-wrapper-beta-{b}", kind="tanh", beta=b, wrapper=True) for b in ("sym", "inf")]
    out.append(dict(name="smoothed-3x3-res20-beta-sym", kind="smooth", shape=[3, 3], res=20.0, beta="sym", wrapper=None))
    out.append(dict(name="smoothed-3x3-res20-beta-inf", kind="smooth", shape=[3, 3], res=20.0, beta="inf", wrapper=None))
    out.append(dict(name="smoothed-wrapper-3x1x3-beta-sym", kind="smooth", shape=[3, 3], res=None, beta="sym", wrapper=1))
    if tier != "quick":
        out.append(dict(name="smoothed-3x3-res20-beta-zero", kind="smooth", shape=[3, 3], res=20.0, beta="zero", wrapper=None))
        out.append(dict(name="smoothed-3x4-res1-beta-sym", kind="smooth", shape=[3, 4], res=1.0, beta="sym", wrapper=None))
        out.append(dict(name="smoothed-2x3-res37.5-beta-eight", kind="smooth", shape=[2, 3], res=37.5, beta="eight", wrapper=None))
        out.append(dict(name="smoothed-4x4-res20-beta-sym", kind="smooth", shape=[4, 4], res=20.0, beta="sym", wrapper=None))
        out.append(dict(name="smoothed-wrapper-1x3x3-beta-inf", kind="smooth", shape=[3, 3], res=None, beta="inf", wrapper=0))
        out.append(dict(name="smoothed-wrapper-3x3x1-beta-sym", kind="smooth", shape=[3, 3], res=None, beta="sym", wrapper=2))
    return out


class PInterp(jx.Interp):
    """``jnp.isinf(beta)`` on a symbolic beta lowers to ``eq(abs(beta), inf)``: a symbolic real is finite, so a comparison of
    a symbolic term with a concrete +-inf is decided (False) instead of importing inf as a rational."""

    def p_eq(self, e, ins):
        def f(a, b):
            for u, v in ((a, b), (b, a)):
                if isinstance(u, float) and math.isinf(u) and (isz(v) or isinstance(v, (Fraction, int))):
                    return False
            return sc.eq(a, b)

        return jx.ew(f, ins[0], ins[1])


def _dedup_sides(side):
    seen, out = {}, []
    for kind, cond, desc in side:
        if isinstance(cond, bool):
            if not cond:
                out.append((kind, cond, desc))
            continue
        s = z3.simplify(cond)
        if z3.is_true(s):
            continue
        if any(s.eq(t) for t in seen.get(s.hash(), ())):
            continue
        seen.setdefault(s.hash(), []).append(s)  # keep the term alive: z3 ast ids are reused after garbage collection
        out.append((kind, cond, desc))
    return out


def _interp_call(fn, args, what):
    """interpret; an inf/NaN constant meeting a symbolic value (e.g. inf*x, a branch that is undefined for some x) is
    reported to the caller as a definedness failure candidate."""
    it = PInterp()
    try:
        out, tr = jx.call(fn, *args, interp=it)
    except sc.NotEncodable as ex:
        if "non-finite" in str(ex):
            return None, None, it, str(ex)
        raise
    return out, tr, it, None


def _finite(*arrs):
    return all(bool(np.all(np.isfinite(np.asarray(a)))) for a in arrs)


# ------------------------------------------------------------------------------------------------ tanh projection
def _tanh_case(c, case):
    import jax
    import jax.numpy as jnp

    import fdtdx
    from fdtdx.objects.device.parameters import projection as pj

    bmode = case["beta"]
    bconst = BETAS[bmode]
    wrapper = case["wrapper"]
    c.functions.update(["tanh_projection"] + (["TanhProjection.__call__"] if wrapper else []))
    x, y, b, e = (jx.symarr(n, ()) for n in ("x", "y", "b", "e"))
    X, Y, B, E = x[()], y[()], b[()], e[()]
    c.symvars += 4 if bconst is None else 3

    if wrapper:
        # the public transform object; eta is its frozen ``projection_midpoint`` -> injected with aset inside the trace
        mod = pj.TanhProjection()
        cfg = fdtdx.SimulationConfig(time=1e-15, grid=fdtdx.UniformGrid(spacing=5e-8), backend="cpu")
        mod = mod.init_module(config=cfg, materials={}, matrix_voxel_grid_shape=(1, 1, 1), single_voxel_size=(5e-8, 5e-8, 5e-8),
                              output_shape={"p": (1, 1, 1)})

        def raw(xv, bv, ev):
            m = mod.aset("projection_midpoint", ev)
            return m({"p": jnp.reshape(xv, (1, 1, 1))}, beta=bv)["p"].reshape(())
    else:
        def raw(xv, bv, ev):
            return pj.tanh_projection(xv, bv, ev)

    if bconst is None:
        fn = lambda xv, bv, ev: raw(xv, bv, ev)  # noqa: E731
        args = lambda xx: (xx, b, e)  # noqa: E731
        conc = lambda m, xv: (xv, model_value(m, B), model_value(m, E))  # noqa: E731
        dom = [B >= 0, E >= 0, E <= 1]
    else:
        fn = lambda xv, ev: raw(xv, bconst, ev)  # noqa: E731
        args = lambda xx: (xx, e)  # noqa: E731
        conc = lambda m, xv: (xv, model_value(m, E))  # noqa: E731
        dom = [E >= 0, E <= 1]
    strict = [E > 0, E < 1]
    boxx, boxy = [X >= 0, X <= 1], [Y >= 0, Y <= 1]
    key = f"tanh{'-wrapper' if wrapper else ''}:beta-{bmode}"

    def real(m, xv):
        a = conc(m, xv)
        return float(fn(*[jnp.asarray(v, dtype=jnp.float64) for v in a])), a

    t0 = time.time()
    Tx, tr, it, bad = _interp_call(fn, args(x), "primal")
    if bad:
        return _nonfinite_fallback(c, fn, args, bad, key, nx=1)
    Tx = jx.lift(Tx)[()]
    Ty = jx.lift(tr(*args(y), interp=PInterp()))[()]
    T0 = jx.lift(tr(*args(np.asarray(0.0)), interp=PInterp()))[()]
    T1 = jx.lift(tr(*args(np.asarray(1.0)), interp=PInterp()))[()]
    c.interp_s += time.time() - t0
    # translator validation
    pt = dict(x=0.3, b=2.5, e=0.4)
    cargs = (pt["x"], pt["b"], pt["e"]) if bconst is None else (pt["x"], pt["e"])
    got = tr(*[jx.fracarr(np.asarray(v)) for v in cargs], interp=PInterp())
    c.validate(jx.to_numeric(got), np.asarray(fn(*[jnp.asarray(v) for v in cargs])), "tanh projection")

    def ax(*f, **kw):
        return sc.axioms_for([t for t in f if isz(t)], neg_closure=True, **kw)

    tol = 1e-12

    def rp(check, pts):
        def replay(m):
            vals = {}
            for n, sym in pts.items():
                xv = model_value(m, sym) if isz(sym) else float(sym)
                vals[n], a = real(m, xv)
                vals[n + "_in"] = a
            return bool(check(vals)), vals
        return replay

    # 1. range
    c.prove("range: x in [0,1] => T(x) in [0,1]", z3.And(Tx >= 0, Tx <= 1) if isz(Tx) else bool(0 <= Tx <= 1), dom + boxx + ax(Tx),
            rp(lambda v: v["x"] < -tol or v["x"] > 1 + tol, dict(x=X)), key=key + ":range")
    # 2. monotone
    c.prove("monotone: x <= y => T(x) <= T(y)", z3.Implies(X <= Y, sc.toz(sc.le(Tx, Ty))), dom + boxx + boxy + ax(Tx, Ty),
            rp(lambda v: v["x_in"][0] <= v["y_in"][0] and v["x"] > v["y"] + tol, dict(x=X, y=Y)), key=key + ":monotone")
    # 3. fixed points (eta strictly inside)
    c.prove("fixes 0", sc.toz(sc.eq(T0, 0)), dom + strict + ax(T0), rp(lambda v: abs(v["x"]) > tol, dict(x=0.0)), key=key + ":fix0")
    c.prove("fixes 1", sc.toz(sc.eq(T1, 1)), dom + strict + ax(T1), rp(lambda v: abs(v["x"] - 1) > tol, dict(x=1.0)), key=key + ":fix1")
    # 4. limits
    clip = z3.If(X < 0, z3.RealVal(0), z3.If(X > 1, z3.RealVal(1), X))
    if bconst is None:
        c.prove("beta == 0 => clip(x) for every real x", z3.Implies(B == 0, Tx == clip), dom,
                rp(lambda v: v["x_in"][1] == 0 and abs(v["x"] - min(max(v["x_in"][0], 0.0), 1.0)) > tol, dict(x=X)), key=key + ":clip")
    elif bconst == 0.0:
        c.prove("beta = 0.0 => clip(x) for every real x", sc.toz(sc.eq(Tx, clip)), dom,
                rp(lambda v: abs(v["x"] - min(max(v["x_in"][0], 0.0), 1.0)) > tol, dict(x=X)), key=key + ":clip")
    elif bconst == INF:
        step = z3.If(X > E, z3.RealVal(1), z3.RealVal(0))
        c.prove("beta = inf => step at eta (x != eta)", z3.Implies(X != E, sc.toz(sc.eq(Tx, step))), dom,
                rp(lambda v: v["x_in"][0] != v["x_in"][1] and v["x"] != (1.0 if v["x_in"][0] > v["x_in"][1] else 0.0), dict(x=X)), key=key + ":step")
    # 5. definedness: primal and gradient
    nargs = 3 if bconst is None else 2
    gfn = jax.grad(fn, argnums=tuple(range(nargs)))
    t0 = time.time()
    _, _, itg, bad = _interp_call(gfn, args(x), "grad")
    c.interp_s += time.time() - t0
    if bad:
        return _nonfinite_fallback(c, fn, args, bad, key, nx=1)

    def rside(m):
        a = conc(m, model_value(m, X))
        ja = [jnp.asarray(v, dtype=jnp.float64) for v in a]
        val, g = fn(*ja), gfn(*ja)
        return not _finite(val, *g), dict(inputs=a, value=float(val), grad=[float(q) for q in g])

    sides = _dedup_sides(it.side + itg.side)
    c.extra["side_conditions"] = len(sides)
    for i, (kind, cond, desc) in enumerate(sides):
        c.prove(f"defined[{i}] {kind}", cond, dom + ax(cond), rside, key=key + ":definedness")
    # twins
    if isz(Tx) and isz(Ty):
        c.witness("twin: T strictly increases somewhere", z3.And(X < Y, Tx < Ty), dom + boxx + boxy + ax(Tx, Ty))
        c.witness("twin: T(x) != x possible", Tx != X, dom + ax(Tx))
    else:
        c.witness("twin", True, dom)
    if sides:
        c.witness("twin: a definedness condition is not a tautology of the solver (can fail outside the domain)", z3.Not(sides[0][1]), [])


def _nonfinite_fallback(c, fn, args, msg, key, nx):
    """The interpreter met inf/NaN * symbolic (a branch that is not defined for every real input).  Candidate points
    (the places where such a product is 0*inf) are run on the real code; a non-finite value/gradient is a violation."""
    import jax
    import jax.numpy as jnp

    n = len(args(np.zeros(())))
    for xv in (0.5, 0.0, 1.0):
        for ev in (0.5, 0.0, 1.0):
            a = [xv] + ([1.0] if n == 3 else []) + [ev]
            ja = [jnp.asarray(v, dtype=jnp.float64) for v in a]
            val = fn(*ja)
            g = jax.grad(fn, argnums=tuple(range(n)))(*ja)
            if not _finite(val, *g):
                c.fail_concrete("definedness: non-finite constant meets a symbolic value", dict(interpreter=msg, inputs=a, value=float(val), grad=[float(q) for q in g]),
                                key=key + ":definedness")
                return
    raise Inconclusive("interpreter met a non-finite constant on a symbolic value, candidate points are finite on the real code: " + msg)


# ------------------------------------------------------------------------------------------------ smoothed projection
def _fd_gradient(a, axis):
    """finite differences of a 2-D object array in pixel units: central in the interior, one-sided at the edges."""
    n = a.shape[axis]
    g = np.empty(a.shape, dtype=object)
    for idx in np.ndindex(*a.shape):
        i = idx[axis]

        def at(j):
            l = list(idx)
            l[axis] = j
            return a[tuple(l)]

        if i == 0:
            g[idx] = at(1) - at(0)
        elif i == n - 1:
            g[idx] = at(n - 1) - at(n - 2)
        else:
            g[idx] = (at(i + 1) - at(i - 1)) / 2
    return g


def _smooth_case(c, case):
    import jax
    import jax.numpy as jnp

    import fdtdx
    from fdtdx.objects.device.parameters import projection as pj

    shape = tuple(case["shape"])
    bmode = case["beta"]
    bconst = BETAS[bmode]
    wrapper = case["wrapper"]
    c.functions.update(["smoothed_projection", "tanh_projection"] + (["SubpixelSmoothedProjection.__call__"] if wrapper is not None else []))
    r, ct = jx.symarr("r", shape), jx.symarr("ct", shape)
    b, e = jx.symarr("b", ()), jx.symarr("e", ())
    B, E = b[()], e[()]
    c.symvars += 2 * r.size + (2 if bconst is None else 1)

    if wrapper is not None:
        vs = [5e-8, 5e-8, 5e-8]
        vs[wrapper] = 2e-8  # the vertical voxel size may differ
        shp3 = list(shape)
        shp3.insert(wrapper, 1)
        mod = pj.SubpixelSmoothedProjection()
        cfg = fdtdx.SimulationConfig(time=1e-15, grid=fdtdx.UniformGrid(spacing=5e-8), backend="cpu")
        mod = mod.init_module(config=cfg, materials={}, matrix_voxel_grid_shape=tuple(shp3), single_voxel_size=tuple(vs),
                              output_shape={"p": tuple(shp3)})

        def raw(rv, bv, ev):
            m = mod.aset("projection_midpoint", ev)
            return m({"p": jnp.expand_dims(rv, wrapper)}, beta=bv)["p"].squeeze(wrapper)
    else:
        res = case["res"]

        def raw(rv, bv, ev):
            return pj.smoothed_projection(rv, bv, ev, res)

    if bconst is None:
        fn = lambda rv, bv, ev: raw(rv, bv, ev)  # noqa: E731
        plain_fn = lambda rv, bv, ev: pj.tanh_projection(rv, bv, ev)  # noqa: E731
        args = (r, b, e)
        conc = lambda m: (model_array(m, r), model_value(m, B), model_value(m, E))  # noqa: E731
        dom = [B >= 0, E >= 0, E <= 1]
        fix = lambda bv, ev: [B == bv, E == ev]  # noqa: E731
    else:
        fn = lambda rv, ev: raw(rv, bconst, ev)  # noqa: E731
        plain_fn = lambda rv, ev: pj.tanh_projection(rv, bconst, ev)  # noqa: E731
        args = (r, e)
        conc = lambda m: (model_array(m, r), model_value(m, E))  # noqa: E731
        dom = [E >= 0, E <= 1]
        fix = lambda bv, ev: [E == ev]  # noqa: E731
    dom = dom + [z3.And(v >= 0, v <= 1) for v in r.reshape(-1)]
    key = f"smoothed{'-wrapper' if wrapper is not None else ''}:beta-{bmode}"

    def vjp_fn(*a):
        *prim, cot = a
        out, pull = jax.vjp(fn, *prim)
        return pull(cot)

    t0 = time.time()
    out, tr, it, bad = _interp_call(fn, args, "primal")
    if bad:
        raise Inconclusive("non-finite constant meets a symbolic value in smoothed_projection: " + bad)
    plain, _ = jx.call(plain_fn, *args, interp=PInterp())
    _, _, itg, bad = _interp_call(vjp_fn, args + (ct,), "vjp")
    if bad:
        raise Inconclusive("non-finite constant meets a symbolic value in the vjp of smoothed_projection: " + bad)
    c.interp_s += time.time() - t0
    out, plain = jx.lift(out), jx.lift(plain)
    # translator validation
    rng = np.random.default_rng(c.seed + 20)
    r0 = np.round(rng.uniform(0, 1, size=shape), 3)
    cargs = (r0, 3.0, 0.45) if bconst is None else (r0, 0.45)
    got = tr(*[jx.fracarr(np.asarray(v)) for v in cargs], interp=PInterp())
    c.validate(jx.to_numeric(got), np.asarray(fn(*[jnp.asarray(v) for v in cargs])), "smoothed projection")

    # 1. definedness of primal and vjp
    def rside(m):
        a = conc(m)
        ja = [jnp.asarray(v, dtype=jnp.float64) for v in a]
        val = fn(*ja)
        g = vjp_fn(*ja, jnp.asarray(model_array(m, ct), dtype=jnp.float64))
        return not _finite(val, *g), dict(inputs=a, value=np.asarray(val), grad=[np.asarray(q) for q in g])

    sides = _dedup_sides(it.side + itg.side)
    c.extra["side_conditions"] = len(sides)
    for i, (kind, cond, desc) in enumerate(sides):
        c.prove(f"defined[{i}] {kind}", cond, dom + sc.axioms_for([cond], neg_closure=True), rside, key=key + ":definedness")

    # 2. agreement with the plain projection in cells without an interface (independent oracle for "interface")
    g0, g1 = _fd_gradient(r, 0), _fd_gradient(r, 1)
    k2 = z3.RealVal(Fraction(55, 100) ** 2 * (1 + MARGIN) ** 2)

    def no_interface_conc(rv, ev, idx):
        fr = np.empty(rv.shape, dtype=object)
        for j in np.ndindex(*rv.shape):
            fr[j] = Fraction(float(rv[j]))
        h0, h1 = _fd_gradient(fr, 0)[idx], _fd_gradient(fr, 1)[idx]
        G2 = h0 * h0 + h1 * h1
        a = Fraction(float(ev)) - fr[idx]
        return G2 == 0 or a * a > Fraction(55, 100) ** 2 * (1 + MARGIN) ** 2 * G2

    for idx in np.ndindex(*shape):
        G2 = g0[idx] * g0[idx] + g1[idx] * g1[idx]
        a = E - r[idx]
        noif = z3.Or(G2 == 0, a * a > k2 * G2)

        def replay(m, idx=idx):
            cv = conc(m)
            ja = [jnp.asarray(v, dtype=jnp.float64) for v in cv]
            o, p = np.asarray(fn(*ja)), np.asarray(plain_fn(*ja))
            ok = no_interface_conc(cv[0], cv[-1], idx)
            return bool(ok and abs(o[idx] - p[idx]) > 1e-9), dict(inputs=cv, cell=list(idx), smoothed=float(o[idx]), plain=float(p[idx]), no_interface=bool(ok))

        o = out[idx]
        if isz(o) and z3.is_app_of(o, z3.Z3_OP_ITE):
            # interpolant split (sound for any C): no-interface => not C, and not C => smoothed == plain
            C = o.arg(0)
            nv, ni = len(c.violations), len(c.inconclusive)
            okA = c.prove(f"agree{list(idx)}: no interface => smoothing predicate of the code is false", z3.Implies(noif, z3.Not(C)),
                          dom + sc.axioms_for([C], kinds=("sqrt",)), replay, key=key + ":agree")
            if not okA and len(c.violations) == nv and bmode in ("inf", "zero"):
                # the predicate can hold without an interface but the witness happened to have equal values: ask for a
                # witness of the full claim on the tanh-free slice (beta = 0 / inf), where the values are piecewise polynomial
                sm, pl = o.arg(1), sc.toz(plain[idx])
                if bmode == "sym":
                    sm, pl, Cb = (z3.simplify(z3.substitute(t, (B, z3.RealVal(0)))) for t in (sm, pl, C))
                    extra = [B == 0]
                else:
                    Cb, extra = C, []
                okB = c.prove(f"agree{list(idx)}: no interface => predicate false or smoothed == plain (tanh-free slice)",
                              z3.Implies(noif, z3.Or(z3.Not(Cb), sm == pl)), dom + extra + sc.axioms_for([Cb], kinds=("sqrt",)), replay, key=key + ":agree")
                if len(c.violations) > nv:
                    del c.inconclusive[ni:]
            c.prove(f"agree{list(idx)}: predicate false => smoothed == plain", z3.Implies(z3.Not(C), sc.toz(sc.eq(o, plain[idx]))), dom, replay, key=key + ":agree")
            if idx == (0,) * len(shape):
                c.witness("twin: the code's smoothing predicate can hold", C, dom + sc.axioms_for([C], kinds=("sqrt",)))
        else:
            cl = z3.Implies(noif, sc.toz(sc.eq(o, plain[idx])))
            c.prove(f"agree{list(idx)}: no interface => smoothed == plain", cl, dom + sc.axioms_for([cl], kinds=("sqrt",)), replay, key=key + ":agree")

    # twins: the oracle's no-interface class and its complement are both inhabited; at a concrete ramp with beta = 0 /
    # eta = 1/2 the smoothed value differs from the plain one (the code under test does something)
    mid = tuple(s // 2 for s in shape)
    G2 = g0[mid] * g0[mid] + g1[mid] * g1[mid]
    c.witness("twin: cell with an interface exists", z3.And(G2 > 0, (E - r[mid]) * (E - r[mid]) < k2 * G2), dom)
    ramp = [r[idx] == z3.RealVal(min(Fraction(2 + 3 * idx[0] + idx[1], 10), Fraction(1))) for idx in np.ndindex(*shape)]
    om, pm = out[mid], plain[mid]
    c.witness("twin: assumptions satisfiable", True, dom + ramp)
    # the smoothing branch does something: on some concrete legal input the interpreted smoothed value differs from the plain one
    def cand(kind):
        a = np.empty(shape, dtype=object)
        for idx in np.ndindex(*shape):
            a[idx] = min(Fraction(2 + 3 * idx[0] + idx[1], 10), Fraction(1)) if kind == 0 else [Fraction(1, 2), Fraction(95, 100), Fraction(1)][min(idx[0], 2)]
        return a

    differs = False
    for kind in (0, 1):
        for ev in (0.5, 0.95):
            for bv in ((8.0, 0.0) if bconst is None else (None,)):
                cargs = (cand(kind),) + ((jx.fracarr(np.asarray(bv)),) if bv is not None else ()) + (jx.fracarr(np.asarray(ev)),)
                oc_ = jx.to_numeric(jx.lift(tr(*cargs, interp=PInterp())))
                pc_ = jx.to_numeric(jx.lift(jx.call(plain_fn, *cargs, interp=PInterp())[0]))
                differs = differs or bool(np.max(np.abs(oc_ - pc_)) > 1e-6)
    c.witness("twin: smoothing changes the value at an interface (concrete legal inputs)", differs)


def run_case(c, case):
    if case["kind"] == "tanh":
        return _tanh_case(c, case)
    return _smooth_case(c, case)
