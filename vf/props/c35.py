"""C35 -- dispersion pole coefficients encode the declared pole model (E2 + E1).

E2 (pysym): the real ``compute_pole_coefficients_per_axis`` / ``compute_pole_coefficients_tensor`` (and, for the padding
clause, ``materials.compute_allowed_dispersive_coefficients``) run with every pole parameter and the time step a
symbolic real; each feasible path yields the coefficient arrays as z3 terms plus its path condition (which contains the
code's own ``omega_0*dt >= 2`` raise decision).
E1 (jx2smt): the real ``susceptibility_from_coefficients`` is traced and interpreted *on those terms* with omega and dt
symbolic, so the obligation is about the composition  chi_rec(c(pole, dt), omega, dt):

  (i)   chi_rec * D == N  (real and imaginary part), where N/D is the declared pole model written here
        (Lorentz  d_eps*w0^2/(w0^2-w^2-i*g*w),  Drude  -wp^2/(w^2+i*g*w),  CCPR  r/(-iw-q) + r*/(-iw-q*),
        oriented:  chi(w) * u_i*u_j), at every omega where the declared denominator is non-zero;
  (ii)  no complex root z = x+iy of z^2 - c1*z - c2 with |z| > 1 (x, y universally quantified);
  (iii) zero-padded slots contribute exactly 0 and the padding routine writes exact zeros / unchanged coefficients.
Legal inputs (gamma >= 0, omega_0*dt < 2) never take the code's raise path.
"""
from __future__ import annotations

import os
import time
from fractions import Fraction

import numpy as np
import z3

from .. import jx2smt as jx
from .. import pysym, sc
from ..core import Inconclusive, model_value
from ..pysym import SymNum, fresh_real
from ..sc import Cx, isz

META = dict(
    functions=["dispersion.compute_pole_coefficients_per_axis", "dispersion.compute_pole_coefficients_tensor", "dispersion.compute_pole_coefficients",
               "dispersion.susceptibility_from_coefficients", "LorentzPole/DrudePole/CCPRPole.*_axes", "CCPRPole.from_critical_point",
               "materials.compute_allowed_dispersive_coefficients"],
    assumptions=[
        "reals instead of floats; damping >= 0 (CCPR: Re q <= 0), dt > 0, omega real; omega_0*dt < 2 is the code's own raise decision on coupled axes "
        "and an explicit assumption for the root clause on uncoupled axes",
        "the identity is claimed where the declared denominator is non-zero (undamped pole exactly at resonance excluded) ",
        "CCPR |q| enters through pysym's sqrt (s >= 0, s*s = |q|^2); oriented poles: the orientation is a concrete vector (normalised by the real constructor) and the declared tensor weight of entry (i,j) is the float64 product u_i*u_j",
        "stubs in the analysed modules: float -> identity on symbolic reals, complex -> symbolic pair, np.zeros -> object arrays, cmath.exp(i*phi) -> (c, s) with c^2+s^2=1",
    ],
    outside="the asymptotic clause (recurrence frequency response -> model with relative error O((omega*dt)^2)): a limit statement, not encoded; "
            "float round-off/cancellation in 2 - c1*D for omega_0*dt << 1; models with more than two poles per material; DispersionModel.rotated",
    bounds=dict(quick=dict(poles_per_model="1 (2 in the padding case)", pole_kinds=["lorentz", "drude", "ccpr", "lorentz per-axis", "lorentz oriented"]),
                thorough=dict(poles_per_model="1-2", pole_kinds=["lorentz", "drude", "ccpr", "critical-point", "per-axis lorentz/drude/ccpr", "oriented lorentz/drude"])),
    timeout_ms=dict(quick=20000, thorough=60000),
)


def cases(tier, seed):
    out = [dict(name=n, kind="pole", pole=p, fn=f) for n, p, f in [
        ("lorentz-iso-per_axis", "lorentz", "per_axis"), ("drude-iso-per_axis", "drude", "per_axis"), ("ccpr-iso-per_axis", "ccpr", "per_axis"),
        ("lorentz-aniso-tensor", "lorentz3", "tensor"), ("lorentz-oriented-tensor", "lorentz_o", "tensor")]]
    out.append(dict(name="zero-padding", kind="padding"))
    if tier != "quick":
        out += [dict(name=n, kind="pole", pole=p, fn=f) for n, p, f in [
            ("lorentz-iso-scalar", "lorentz", "scalar"), ("drude-aniso-per_axis", "drude3", "per_axis"), ("ccpr-aniso-tensor", "ccpr3", "tensor"),
            ("drude-oriented-tensor", "drude_o", "tensor"), ("critical-point-per_axis", "cp", "per_axis"), ("lorentz-iso-tensor", "lorentz", "tensor")]]
    return out


# ------------------------------------------------------------------------------------------------ symbolic complex for CCPR
class SymCx:
    """complex number with pysym parts -- what ``complex(x)`` returns inside the analysed module for a symbolic pole/residue."""

    def __init__(self, re, im):
        self.re, self.im = re, im

    real = property(lambda s: s.re)
    imag = property(lambda s: s.im)

    def conjugate(self):
        return SymCx(self.re, -self.im)

    def __mul__(self, o):
        if isinstance(o, SymCx):
            return SymCx(self.re * o.re - self.im * o.im, self.re * o.im + self.im * o.re)
        if isinstance(o, complex):
            return self * SymCx(o.real, o.imag)
        return SymCx(self.re * o, self.im * o)

    __rmul__ = __mul__

    def __abs__(self):
        return pysym.sym_sqrt(self.re * self.re + self.im * self.im)

    def __eq__(self, o):
        if isinstance(o, SymCx):
            a, b = self.re == o.re, self.im == o.im
            return a & b if isinstance(a, pysym.SymBool) or isinstance(b, pysym.SymBool) else (a and b)
        return NotImplemented

    __hash__ = None


def symcomplex(x=0.0, *a):
    if isinstance(x, SymCx):
        return x
    if isinstance(x, SymNum) or any(isinstance(v, SymNum) for v in a):
        return SymCx(x, a[0] if a else 0.0)
    return complex(x, *a)


class _NP:
    """numpy with ``zeros`` returning object arrays (so that ``c1[i, ax] = <symbolic>`` stores the term)."""

    def __getattr__(self, n):
        return getattr(np, n)

    @staticmethod
    def zeros(shape, dtype=None):
        a = np.empty(shape, dtype=object)
        a[...] = 0.0
        return a


def _terms(a):
    out = np.empty(np.shape(a), dtype=object)
    for i in np.ndindex(*np.shape(a)):
        v = a[i]
        out[i] = pysym.term(v) if isinstance(v, (SymNum, pysym.SymBool)) else float(v)
        if isz(out[i]) and z3.is_int(out[i]):
            out[i] = z3.ToReal(out[i])
    return out


# ------------------------------------------------------------------------------------------------ pole families
def _family(kind):
    """returns (symbolic parameter dict, domain constraints, build(vals)->poles, declared(vals, omega, mul)->list of 9|3 (N, D) complex pairs,
    box constraints for a well-conditioned witness).  ``vals`` maps names to SymNum or float; ``declared`` works on z3 terms or floats."""
    P, dom, box = {}, [], []

    def real(name, lo=None, strict=False, well=(0.2, 1.5)):
        s, cons = fresh_real(name, lo, None, lo_strict=strict)
        P[name] = s
        dom.extend(cons)
        box.extend([s.t >= Fraction(well[0]).limit_denominator(100), s.t <= Fraction(well[1]).limit_denominator(100)])
        return s

    import fdtdx.dispersion as dp

    axes3 = kind.endswith("3")
    base = kind.rstrip("3")
    orient = None
    if base.endswith("_o"):
        base, orient = base[:-2], (1.0, -2.0, 2.0)
    n = 3 if axes3 else 1
    sfx = ["_x", "_y", "_z"] if axes3 else [""]
    if base == "lorentz":
        for s in sfx:
            real("w0" + s, 0, True), real("g" + s, 0, well=(0.0, 1.0)), real("de" + s, well=(0.5, 3.0))
            dom.append(P["de" + s].t > 0 if orient else P["de" + s].t != 0)

        def build(v):
            pick = lambda k: tuple(v[k + s] for s in sfx) if axes3 else v[k]  # noqa: E731
            return (dp.LorentzPole(resonance_frequency=pick("w0"), damping=pick("g"), delta_epsilon=pick("de"), orientation=orient),)

        def declared(v, w, ax):
            s = sfx[ax if axes3 else 0]
            w0, g, de = v["w0" + s], v["g" + s], v["de" + s]
            return Cx(de * w0 * w0, 0), Cx(w0 * w0 - w * w, -(g * w))
    elif base == "drude":
        for s in sfx:
            real("wp" + s, 0, True), real("g" + s, 0, well=(0.0, 1.0))

        def build(v):
            pick = lambda k: tuple(v[k + s] for s in sfx) if axes3 else v[k]  # noqa: E731
            return (dp.DrudePole(plasma_frequency=pick("wp"), damping=pick("g"), orientation=orient),)

        def declared(v, w, ax):
            s = sfx[ax if axes3 else 0]
            wp, g = v["wp" + s], v["g" + s]
            return Cx(-(wp * wp), 0), Cx(w * w, g * w)  # -wp^2 / (w^2 + i g w)
    elif base == "ccpr":
        for s in sfx:
            real("qr" + s, well=(-0.8, 0.0)), real("qi" + s, well=(0.3, 1.2)), real("rr" + s, well=(-1.0, 1.0)), real("ri" + s, well=(0.5, 2.0))
            dom.append(P["qr" + s].t <= 0)
            dom.append(z3.Or(P["rr" + s].t != 0, P["ri" + s].t * P["qi" + s].t + P["rr" + s].t * P["qr" + s].t != 0))  # the pole couples (a != 0 or b != 0)

        def build(v):
            def cxv(a, b):
                return SymCx(a, b) if isinstance(a, SymNum) or isinstance(b, SymNum) else complex(a, b)
            q = tuple(cxv(v["qr" + s], v["qi" + s]) for s in sfx)
            r = tuple(cxv(v["rr" + s], v["ri" + s]) for s in sfx)
            return (dp.CCPRPole(pole=q if axes3 else q[0], residue=r if axes3 else r[0]),)

        def declared(v, w, ax):
            s = sfx[ax if axes3 else 0]
            qr, qi, rr, ri = v["qr" + s], v["qi" + s], v["rr" + s], v["ri" + s]
            # r/(-iw-q) + r*/(-iw-q*) over the common denominator (-iw-q)(-iw-q*)
            d1, d2 = Cx(-qr, -w - qi), Cx(-qr, -w + qi)
            num = sc.add(sc.mul(Cx(rr, ri), d2), sc.mul(Cx(rr, -ri), d1))
            return num, sc.mul(d1, d2)
    elif base == "cp":
        real("A", well=(0.5, 2.0)), real("Om", 0, True, well=(0.3, 1.2)), real("Ga", 0, well=(0.0, 0.8)), real("cphi", well=(-1, 1)), real("sphi", well=(-1, 1))
        dom.append(P["cphi"].t * P["cphi"].t + P["sphi"].t * P["sphi"].t == 1)
        dom.append(P["A"].t != 0)

        def build(v):
            import cmath
            import math

            if isinstance(v["A"], SymNum):
                # from_critical_point does ``import cmath; cmath.exp(1j*phase)``: the phase enters only through (cos, sin)
                old = cmath.exp
                cmath.exp = lambda z: SymCx(v["cphi"], v["sphi"])
                try:
                    return (_cp_build(dp, SymCx(v["A"], 0.0), 0.0, v["Om"], v["Ga"]),)
                finally:
                    cmath.exp = old
            return (dp.CCPRPole.from_critical_point(v["A"], math.atan2(v["sphi"], v["cphi"]), v["Om"], v["Ga"]),)

        def declared(v, w, ax):
            A, Om, Ga, c, s = v["A"], v["Om"], v["Ga"], v["cphi"], v["sphi"]
            # A*Om*[ e^{i phi}/(Om - w - i Ga) + e^{-i phi}/(Om + w + i Ga) ]
            d1, d2 = Cx(Om - w, -Ga), Cx(Om + w, Ga)
            num = sc.add(sc.mul(Cx(c, s), d2), sc.mul(Cx(c, -s), d1))
            return sc.mul(A * Om, num), sc.mul(d1, d2)
    else:
        raise ValueError(kind)
    # seeded exact-rational parameter points (dt = 1/2): lightly damped (gamma*dt = 1/2) and heavily damped (gamma*dt = 3, i.e. c2 > 0)
    # oscillators, mixed over the axes for per-axis poles; all legal (omega_0*dt < 2, damping >= 0)
    F = Fraction
    light = dict(w0=F(1), g=F(1), de=F(3, 2), wp=F(2), qr=F(-1, 2), qi=F(6, 5), rr=F(7, 10), ri=F(11, 10), A=F(4, 5), Om=F(6, 5), Ga=F(1, 2), cphi=F(3, 5), sphi=F(4, 5))
    heavy = dict(light, g=F(6), qr=F(-3), qi=F(5, 4), Ga=F(3), Om=F(5, 4), w0=F(3, 2), de=F(2), wp=F(3))
    seeds = []
    for pattern in ((light, heavy, light), (heavy, light, heavy)):
        sd = {}
        for name in P:
            stem, _, suf = name.partition("_")
            src = pattern[["x", "y", "z"].index(suf)] if suf in ("x", "y", "z") else pattern[0]
            sd[name] = src[stem]
        seeds.append(sd)
    return P, dom, build, declared, box, orient, (base if not axes3 else base + "3"), seeds


def _cp_build(dp, A, phase, Om, Ga):
    return dp.CCPRPole.from_critical_point(A, phase, Om, Ga)


def _explore(c, fn, assume, modules):
    """run fn over all feasible paths with the stubs installed; returns [(result, exception, path condition)]"""
    paths = []
    ex = pysym.Explorer(assume, max_paths=200, timeout_ms=c.timeout_ms)
    # dispersion.py: float()/complex() conversions of pole parameters, np.zeros; materials.py: only np.zeros (it uses isinstance(v, float))
    stubs = [pysym.stub_module(m, float=pysym.symfloat, complex=symcomplex, np=_NP()) if m.__name__.endswith("dispersion") else pysym.stub_module(m, np=_NP())
             for m in modules]
    for s in stubs:
        s.__enter__()
    try:
        ex.explore(fn, lambda r, e, pc: paths.append((r, e, pc)))
    except pysym.Budget as b:
        raise Inconclusive(f"exploration budget: {b}")
    finally:
        for s in reversed(stubs):
            s.__exit__()
    c.paths += ex.paths
    c.queries += ex.queries
    c.solver_s += ex.solver_s
    if ex.unknown:
        c.notes.append(f"{ex.unknown} feasibility queries were 'unknown' (both sides explored)")
    return paths


def _chi(c, coeffs, W, DT):
    """interpret the real susceptibility_from_coefficients on coefficient terms; returns (chi object array, side conditions, Traced)"""
    import fdtdx.dispersion as dp

    om, dtv = jx.obj0(W), jx.obj0(DT)
    it = jx.Interp()
    t0 = time.time()
    out, tr = jx.call(lambda c1, c2, c3, c4, om, dtv: dp.susceptibility_from_coefficients(c1, c2, c3, om, dtv, c4), *coeffs, om, dtv, interp=it)
    c.interp_s += time.time() - t0
    return jx.lift(out), it.side, tr


def _ite_conditions(t):
    seen, out, stack = set(), [], [t]
    while stack:
        u = stack.pop()
        if u.get_id() in seen:
            continue
        seen.add(u.get_id())
        if z3.is_app_of(u, z3.Z3_OP_ITE):
            if not any(u.arg(0).eq(q) for q in out):
                out.append(u.arg(0))
        stack.extend(u.children())
    return out


def _resolve_ites(c, t, assume, rounds=3):
    """equivalence-preserving simplification under ``assume``: every If-condition of ``t`` that z3 proves constant under the
    assumptions (e.g. the pole mask / the ``1 - c2 == 0`` guard of susceptibility_from_coefficients evaluated on the coefficient terms)
    is replaced by that constant.  Each replacement is itself a discharged solver query, so a claim about the result is a claim about t."""
    for _ in range(rounds):
        conds = _ite_conditions(t)
        if not conds:
            break
        subs = []
        for cond in conds:
            if _lemmas(c, [cond], assume):
                subs.append((cond, z3.BoolVal(True)))
            elif _lemmas(c, [z3.Not(cond)], assume):
                subs.append((cond, z3.BoolVal(False)))
        if not subs:
            break
        t = z3.simplify(z3.substitute(t, *subs))
    return t


def _ratfun(t, memo, dens):
    """z3 real term -> (num, den) z3 terms built by the school rules for fractions; t == num/den wherever every divisor
    collected in ``dens`` is non-zero.  Anything that is not + - * / unary-minus is an atom."""
    k = t.get_id()
    if k in memo:
        return memo[k][1]
    K = t.decl().kind() if z3.is_app(t) else None
    one = z3.RealVal(1)
    mul = lambda a, b: b if a.eq(one) else (a if b.eq(one) else a * b)  # noqa: E731
    if K in (z3.Z3_OP_ADD, z3.Z3_OP_SUB):
        parts = [_ratfun(a, memo, dens) for a in t.children()]
        n, d = parts[0]
        for n2, d2 in parts[1:]:
            if d.eq(d2):
                n = n + n2 if K == z3.Z3_OP_ADD else n - n2
            else:
                n = (mul(n, d2) + mul(n2, d)) if K == z3.Z3_OP_ADD else (mul(n, d2) - mul(n2, d))
                d = mul(d, d2)
        r = (n, d)
    elif K == z3.Z3_OP_MUL:
        n, d = one, one
        for a in t.children():
            n2, d2 = _ratfun(a, memo, dens)
            n, d = mul(n, n2), mul(d, d2)
        r = (n, d)
    elif K == z3.Z3_OP_UMINUS:
        n, d = _ratfun(t.arg(0), memo, dens)
        r = (-n, d)
    elif K == z3.Z3_OP_DIV:
        n1, d1 = _ratfun(t.arg(0), memo, dens)
        n2, d2 = _ratfun(t.arg(1), memo, dens)
        if not any(n2.eq(x) for x in dens):
            dens.append(n2)
        if not d2.eq(one) and not any(d2.eq(x) for x in dens):
            dens.append(d2)
        r = (mul(n1, d2), mul(d1, n2))
    else:
        r = (t, one)
    memo[k] = (t, r)  # keep t alive (ast ids are reused after garbage collection)
    return r


def _rational_identity(c, l, r, assume):
    """the claim  l == r  with denominators cleared: z3 5.1 needs ~30 s for the nested-fraction form of these identities and
    ~0.1 s for the cleared one (z3 4.8.12: ~2 s / 0.1 s).  (1) If-conditions of l that the assumptions decide are resolved
    (each by a solver query); (2) l - r is brought to num/den by _ratfun; (3) every divisor met on the way is proved
    non-zero under the assumptions; then  l == r  <=>  num == 0.  If a divisor cannot be shown non-zero the plain claim is
    returned.  The rewriting is spot-checked on a model of the assumptions."""
    l = _resolve_ites(c, l, assume)
    dens = []
    n, d = _ratfun(l - r, {}, dens)
    if len(_lemmas(c, [q != 0 for q in dens], assume)) != len(dens):
        c.notes.append("denominator clearing not applicable (a divisor is not provably non-zero): plain identity asked")
        return l == r
    if not c.extra.get("ratfun_checked"):
        s = z3.Solver()
        s.set("timeout", 5000)
        s.add(*[a for a in assume if not isinstance(a, bool)])
        if s.check() == z3.sat:
            m = s.model()
            a = model_value(m, l - r)
            b = model_value(m, n) / model_value(m, d)
            if abs(a - b) > 1e-9 * (1 + abs(a)):
                raise Inconclusive(f"denominator clearing failed its spot check: {a} vs {b}")
            c.extra["ratfun_checked"] = True
    return n == 0


def _clear_cond(c, f, assume):
    """boolean combination of (dis)equalities between rational-function terms -> the same with denominators cleared"""
    if z3.is_and(f) or z3.is_or(f) or z3.is_not(f):
        kids = [_clear_cond(c, k, assume) for k in f.children()]
        return z3.And(*kids) if z3.is_and(f) else (z3.Or(*kids) if z3.is_or(f) else z3.Not(kids[0]))
    if z3.is_eq(f) and z3.is_arith(f.arg(0)):
        return _rational_identity(c, f.arg(0), f.arg(1), assume)
    if z3.is_distinct(f) and f.num_args() == 2 and z3.is_arith(f.arg(0)):
        return z3.Not(_rational_identity(c, f.arg(0), f.arg(1), assume))
    return f


def _lemmas(c, candidates, assume, timeout_ms=5000):
    """optional proof hints: every candidate that z3 proves under ``assume`` (short timeout) is returned and may then be
    used as an additional assumption of a harder query with the same assumptions (sound: it is implied by them)."""
    out = []
    for cand in candidates:
        s = z3.Solver()
        s.set("timeout", timeout_ms)
        cand_, assume_ = _de_uf(cand, assume)
        s.add(*[a for a in assume_ if not isinstance(a, bool)])
        s.add(z3.Not(cand_))
        t0 = time.time()
        r = s.check()
        c.solver_s += time.time() - t0
        c.queries += 1
        if r == z3.unsat:
            out.append(cand)
        if os.environ.get("VERIF_DEBUG"):
            print(f"    lemma {r} {time.time() - t0:.2f}s {str(cand)[:100]!r}", flush=True)
    return out


def _de_uf(claim, assume):
    """replace every application of pysym's uninterpreted sqrt by a fresh real constant (in the claim and the assumptions, which
    contain its defining axiom  a >= 0 => s >= 0 and s*s = a): a generalisation (sound for `unsat`), and it puts the query into pure
    nonlinear real arithmetic where z3 is far quicker."""
    fs = [f for f in [claim] + list(assume) if isz(f)]
    apps, seen, stack = [], set(), list(fs)
    while stack:
        u = stack.pop()
        if u.get_id() in seen:
            continue
        seen.add(u.get_id())
        if z3.is_app(u) and u.decl().eq(pysym._SQRT) and not any(u.eq(a) for a in apps):
            apps.append(u)
        stack.extend(u.children())
    if not apps:
        return claim, list(assume)
    # applications whose arguments have the same z3 normal form denote the same value (pysym simplifies branch conditions, so the
    # same sqrt occurs as sqrt(-G*-G + ..) in value terms and as sqrt(G*G + ..) in the path condition): they share one constant
    canon, subs = [], []
    for a in apps:
        key = z3.simplify(a.arg(0), som=True)
        for k, v in canon:
            if k.eq(key):
                subs.append((a, v))
                break
        else:
            v = z3.Real(f"sqrt!{len(canon)}")
            canon.append((key, v))
            subs.append((a, v))
    # innermost first is not needed: arguments of these applications contain no further sqrt in this module
    rw = lambda f: z3.substitute(f, *subs) if isz(f) else f  # noqa: E731
    return rw(claim), [rw(a) for a in assume]


def _prove_boxed(c, name, claim, assume, box, replay, key):
    """prove; when the solver's witness does not replay (ill-conditioned floats), ask again inside a well-conditioned box"""
    claim, assume = _de_uf(claim, assume)
    nv, ni = len(c.violations), len(c.inconclusive)
    ok = c.prove(name, claim, assume, replay, key)
    if not ok and len(c.violations) == nv and len(c.inconclusive) > ni and "unknown" not in c.inconclusive[-1]:
        c.prove(name + " [well-conditioned box]", claim, list(assume) + list(box), replay, key)
        if len(c.violations) > nv:
            del c.inconclusive[ni:]
    return ok


def _pole_case(c, case):
    import jax.numpy as jnp

    import fdtdx.dispersion as dp

    P, dom, build, declared, box, orient, fam, seeds = _family(case["pole"])
    t_case0 = time.time()
    budget_s = 120 if c.tier == "quick" else 400

    def over_budget():
        return time.time() - t_case0 > budget_s

    dt, cdt = fresh_real("dt", 0, None, lo_strict=True)
    W = z3.Real("omega")
    DT = dt.t
    box = box + [DT >= Fraction(1, 2), DT <= 1, W >= Fraction(3, 10), W <= Fraction(3, 2)]
    c.symvars += len(P) + 2
    fname = case["fn"]
    real_fn = dict(per_axis=dp.compute_pole_coefficients_per_axis, tensor=dp.compute_pole_coefficients_tensor, scalar=dp.compute_pole_coefficients)[fname]
    c.functions.update(["dispersion." + real_fn.__name__, "dispersion.susceptibility_from_coefficients", type(build({k: 1.0 for k in P})[0]).__name__])
    key = f"{fam}{'-oriented' if orient else ''}:{fname}"
    paths = _explore(c, lambda: real_fn(build(P), dt), dom + cdt, [dp])
    tv = {k: s.t for k, s in P.items()}
    # omega_0 of each axis as the harness sees it (for the hypothesis omega_0*dt < 2): Lorentz w0, Drude 0, CCPR/CP |q|
    def w0sq(ax):
        s = ["_x", "_y", "_z"][ax] if fam.endswith("3") else ""
        b = fam.rstrip("3")
        if b == "lorentz":
            return tv["w0" + s] * tv["w0" + s]
        if b == "drude":
            return z3.RealVal(0)
        if b == "ccpr":
            return tv["qr" + s] * tv["qr" + s] + tv["qi" + s] * tv["qi" + s]
        return tv["Ga"] * tv["Ga"] + tv["Om"] * tv["Om"]

    legal = [w0sq(ax) * DT * DT < 4 for ax in range(3)]
    nval = 0
    for pi, (res, exc, pc) in enumerate(paths):
        if exc is not None:
            # the code's own raise: must be impossible for legal inputs (omega_0*dt < 2 on every axis, damping >= 0)
            c.prove(f"path{pi}: exception ({type(exc).__name__}) only for omega_0*dt >= 2", False, pc + legal,
                    lambda m: _replay_raise(m, P, dt, build, real_fn), key=key + ":raises-on-legal-input")
            continue
        nval += 1
        coeffs = [_terms(a) for a in res]
        if fname == "scalar":
            coeffs = [a.reshape(-1, 1) for a in coeffs]
        chi, side, tr = _chi(c, coeffs, W, DT)
        chi = chi.reshape(-1)
        ncomp = chi.size
        if nval == 1:
            _validate(c, P, build, real_fn, tr, fname)
        seeded_bad = _seeded_checks(c, pi, pc, coeffs, P, dt, W, seeds, build, declared, real_fn, fname, ncomp, key)
        if seeded_bad:
            c.notes.append(f"{key}: a seeded-point violation was confirmed; the fully symbolic susceptibility obligations of that path are skipped")
        done = []
        nz_all = []
        for ax in range(3):
            Dz = sc.cx(declared(tv, W, ax)[1])
            nz_all.append(z3.Or(sc.toz(Dz.re) != 0, sc.toz(Dz.im) != 0))
        seen_side = []
        for kind_, cond, desc in side:
            if isz(cond) and any(cond.eq(q) for q in seen_side):
                continue
            seen_side.append(cond)
            if seeded_bad:
                break
            if over_budget():
                raise Inconclusive(f"case time budget of {budget_s} s exhausted")
            cond_, assume_ = _de_uf(_clear_cond(c, cond, pc + nz_all), pc + nz_all)
            c.prove(f"path{pi}: definedness {kind_} (where the declared denominators are non-zero)", cond_, assume_, None, key=key + ":definedness")
        for j in range(ncomp):
            ax = j // 3 if ncomp == 9 else (j if ncomp == 3 else 0)
            N, D = declared(tv, W, ax)
            if ncomp == 9:
                u = build({k: 1.0 for k in P})[0].orientation
                wgt = Fraction(float(u[j // 3]) * float(u[j % 3])) if u is not None else (1 if j % 4 == 0 else 0)  # the float64 product, as np.outer forms it
                N = sc.mul(sc.cx(N), wgt)
            if seeded_bad:
                break
            if over_budget():
                raise Inconclusive(f"case time budget of {budget_s} s exhausted")
            X = sc.cx(chi[j])
            lhs = sc.mul(X, sc.cx(D))
            sig = (str(z3.simplify(sc.toz(lhs.re)).hash()), str(z3.simplify(sc.toz(lhs.im)).hash()), str(sc.cx(N).re), str(sc.cx(N).im))
            if sig in done:
                continue
            done.append(sig)
            Dz = sc.cx(D)
            nz = z3.Or(sc.toz(Dz.re) != 0, sc.toz(Dz.im) != 0)

            def replay(m, j=j, ax=ax):
                return _replay_identity(m, P, dt, W, build, declared, real_fn, fname, j, ax, ncomp)

            # proof hints (each proved first, then assumed): the guards inside susceptibility_from_coefficients are decided by the
            # coefficient terms -- 1 - c2 != 0 and the pole mask -- which collapses its where-chains for the nonlinear solver
            for part, l, r in (("re", lhs.re, sc.cx(N).re), ("im", lhs.im, sc.cx(N).im)):
                claim = _rational_identity(c, sc.toz(l), sc.toz(r), pc + [nz])
                _prove_boxed(c, f"path{pi}: chi_rec[{j}]*D == N ({part})", claim, pc + [nz], box, replay, key + ":susceptibility")
        # (ii) roots of z^2 - c1 z - c2
        x, y = z3.Real("root_re"), z3.Real("root_im")
        seen = []
        c1a, c2a = coeffs[0].reshape(-1), coeffs[1].reshape(-1)
        for j in range(c1a.size):
            a1, a2 = sc.toz(c1a[j]), sc.toz(c2a[j])
            if any(a1.eq(p) and a2.eq(q) for p, q in seen):
                continue
            seen.append((a1, a2))
            if over_budget():
                raise Inconclusive(f"case time budget of {budget_s} s exhausted")
            root = z3.And(x * x - y * y - a1 * x - a2 == 0, 2 * x * y - a1 * y == 0, x * x + y * y > 1)

            def rroot(m, j=j):
                return _replay_root(m, P, dt, build, real_fn, j)

            _prove_boxed(c, f"path{pi}: no root of z^2-c1[{j}]z-c2[{j}] outside the unit circle", z3.Not(root), pc + legal, box, rroot, key + ":root-outside-unit-circle")
        if nval == 1 and not seeded_bad:
            X = sc.cx(chi[0])
            # at a concrete point of the well-conditioned box (z3 only has to evaluate)
            mid = [s.t == z3.RealVal({"cphi": Fraction(3, 5), "sphi": Fraction(4, 5)}.get(k, Fraction(b0.arg(1).as_fraction() + b1.arg(1).as_fraction()) / 2))
                   for (k, s), b0, b1 in zip(P.items(), box[0::2], box[1::2])]
            tw, asm = _de_uf(z3.And(sc.toz(X.re) != 0, sc.toz(X.im) != 0), pc + mid + [DT == Fraction(3, 4), W == Fraction(9, 10)])
            c.witness("twin: reconstructed susceptibility is non-zero with a non-zero imaginary part", tw, asm)
    if nval == 0:
        raise Inconclusive("no value-returning path")
    c.extra["value_paths"] = nval
    c.extra["raise_paths"] = len(paths) - nval


def _conc(m, P, dt):
    return {k: model_value(m, s.t) for k, s in P.items()}, model_value(m, dt.t)


def _replay_raise(m, P, dt, build, real_fn):
    v, dtv = _conc(m, P, dt)
    try:
        real_fn(build(v), dtv)
    except Exception as ex:  # noqa: BLE001
        return True, dict(params=v, dt=dtv, raised=repr(ex)[:300])
    return False, dict(params=v, dt=dtv, raised=None)


def _num_declared(declared, v, w, ax):
    N, D = declared(v, w, ax)
    N, D = sc.cx(N), sc.cx(D)
    return complex(float(N.re), float(N.im)), complex(float(D.re), float(D.im))


def _exact_sqrt(q):
    import math

    if q < 0:
        return None
    a, b = math.isqrt(q.numerator), math.isqrt(q.denominator)
    return Fraction(a, b) if a * a == q.numerator and b * b == q.denominator else None


def _at_point(t, subs):
    """value of a z3 term at a rational point (pysym sqrt applications with a perfect-square argument are evaluated exactly)"""
    if not isz(t):
        return t
    u = z3.simplify(z3.substitute(t, *subs))
    for _ in range(3):
        apps, seen, stack = [], set(), [u]
        while stack:
            k = stack.pop()
            if k.get_id() in seen:
                continue
            seen.add(k.get_id())
            if z3.is_app(k) and k.decl().eq(pysym._SQRT) and z3.is_rational_value(k.arg(0)) and not any(k.eq(a) for a in apps):
                apps.append(k)
            stack.extend(k.children())
        if not apps:
            break
        reps = []
        for a in apps:
            r = _exact_sqrt(a.arg(0).as_fraction())
            if r is not None:
                reps.append((a, z3.RealVal(r)))
        if not reps:
            break
        u = z3.simplify(z3.substitute(u, *reps))
    return u


def _seeded_checks(c, pi, pc, coeffs, P, dt, W, seeds, build, declared, real_fn, fname, ncomp, key):
    """cheap sub-obligations (implied by the symbolic ones): pole parameters and dt fixed to seeded exact rationals, omega symbolic in a
    well-conditioned range.  The coefficient terms of this path are evaluated exactly at the point, the real susceptibility_from_coefficients
    is interpreted on those rationals (all its guards / clips become concrete), and chi_rec*D == N is a univariate polynomial identity in omega.
    Returns True if a violation was confirmed."""
    nv0 = len(c.violations)
    dtq = Fraction(1, 2)
    for si, sd in enumerate(seeds):
        subs = [(P[k].t, z3.RealVal(v)) for k, v in sd.items()] + [(dt.t, z3.RealVal(dtq))]
        if not all(z3.is_true(_at_point(p, subs)) for p in pc if isz(p)):
            continue  # the seeded point lies on another path
        cf = []
        for a in coeffs:
            b = np.empty(a.shape, dtype=object)
            for i in np.ndindex(*a.shape):
                v = _at_point(a[i], subs)
                if isz(v):
                    if not z3.is_rational_value(v):
                        raise Inconclusive(f"seeded point: coefficient does not evaluate to a rational ({v})")
                    v = v.as_fraction()
                b[i] = Fraction(v)
            cf.append(b)
        chi, _, _ = _chi(c, cf, W, z3.RealVal(dtq))
        chi = chi.reshape(-1)
        zv = {k: z3.RealVal(v) for k, v in sd.items()}
        rng = [W >= Fraction(3, 10), W <= 3]
        fv = {k: float(v) for k, v in sd.items()}
        for j in range(ncomp):
            ax = j // 3 if ncomp == 9 else (j if ncomp == 3 else 0)
            N, D = declared(zv, W, ax)
            if ncomp == 9:
                u = build({k: 1.0 for k in P})[0].orientation
                N = sc.mul(sc.cx(N), Fraction(float(u[j // 3]) * float(u[j % 3])) if u is not None else (1 if j % 4 == 0 else 0))
            N, Dz = sc.cx(N), sc.cx(D)
            lhs = sc.mul(sc.cx(chi[j]), Dz)
            nz = z3.Or(sc.toz(Dz.re) != 0, sc.toz(Dz.im) != 0)

            def replay(m, j=j, ax=ax, fv=fv):
                return _real_vs_declared(fv, float(dtq), model_value(m, W), build, declared, real_fn, fname, j, ax, ncomp)

            for part, l, r in (("re", lhs.re, N.re), ("im", lhs.im, N.im)):
                l, r = sc.toz(l), sc.toz(r)
                claim = z3.simplify(l == r) if not (isz(l) and _has_div(l)) else _rational_identity(c, l, r, rng + [nz])
                c.prove(f"path{pi} seed{si}: chi_rec[{j}]*D == N ({part}) at a rational pole, omega in [0.3, 3]", claim, rng + [nz], replay, key=key + ":susceptibility-seeded")
    return len(c.violations) > nv0


def _has_div(t):
    seen, stack = set(), [t]
    while stack:
        u = stack.pop()
        if u.get_id() in seen:
            continue
        seen.add(u.get_id())
        if z3.is_app_of(u, z3.Z3_OP_DIV):
            return True
        stack.extend(u.children())
    return False


def _replay_identity(m, P, dt, W, build, declared, real_fn, fname, j, ax, ncomp):
    v, dtv = _conc(m, P, dt)
    return _real_vs_declared(v, dtv, model_value(m, W), build, declared, real_fn, fname, j, ax, ncomp)


def _real_vs_declared(v, dtv, w, build, declared, real_fn, fname, j, ax, ncomp):
    import jax.numpy as jnp

    import fdtdx.dispersion as dp

    poles = build(v)
    cs = [np.asarray(a, dtype=np.float64) for a in real_fn(poles, dtv)]
    if fname == "scalar":
        cs = [a.reshape(-1, 1) for a in cs]
    chi = np.asarray(dp.susceptibility_from_coefficients(jnp.asarray(cs[0]), jnp.asarray(cs[1]), jnp.asarray(cs[2]), w, dtv, jnp.asarray(cs[3]))).reshape(-1)
    N, D = _num_declared(declared, v, w, ax)
    if ncomp == 9:
        u = poles[0].orientation
        N = N * ((u[j // 3] * u[j % 3]) if u is not None else (1.0 if j % 4 == 0 else 0.0))
    if abs(D) < 1e-9 * (abs(w) ** 2 + 1e-300):
        raise Inconclusive("witness at a zero of the declared denominator")
    want = N / D
    err = abs(chi[j] - want)
    scale = abs(want) + 1e-300
    wd = abs(w * dtv)
    if err > 1e-6 * scale and not (1e-3 <= wd <= 10 and all(abs(x) < 1e6 for x in list(v.values()) + [dtv])):
        raise Inconclusive(f"witness is ill-conditioned in float64 (omega*dt={wd:.3g}); relative deviation {err / scale:.3g}")
    return bool(err > 1e-6 * scale), dict(params=v, dt=dtv, omega=w, component=j, chi_reconstructed=complex(chi[j]), chi_declared=want)


def _replay_root(m, P, dt, build, real_fn, j):
    v, dtv = _conc(m, P, dt)
    cs = real_fn(build(v), dtv)
    c1, c2 = np.asarray(cs[0], dtype=np.float64).reshape(-1)[j], np.asarray(cs[1], dtype=np.float64).reshape(-1)[j]
    roots = np.roots([1.0, -c1, -c2])
    return bool(np.max(np.abs(roots)) > 1 + 1e-9), dict(params=v, dt=dtv, c1=float(c1), c2=float(c2), roots=[complex(r) for r in roots])


def _validate(c, P, build, real_fn, tr, fname):
    import jax.numpy as jnp

    import fdtdx.dispersion as dp

    vals = {k: 0.4 + 0.1 * i for i, k in enumerate(sorted(P))}
    for k in vals:
        if k.startswith("qr"):
            vals[k] = -0.3
        if k == "cphi":
            vals[k] = 0.6
        if k == "sphi":
            vals[k] = 0.8
    cs = [np.asarray(a, dtype=np.float64) for a in real_fn(build(vals), 0.7)]
    if fname == "scalar":
        cs = [a.reshape(-1, 1) for a in cs]
    want = np.asarray(dp.susceptibility_from_coefficients(jnp.asarray(cs[0]), jnp.asarray(cs[1]), jnp.asarray(cs[2]), 0.9, 0.7, jnp.asarray(cs[3])))
    got = tr(*[jx.fracarr(a) for a in cs], jx.fracarr(np.asarray(0.9)), jx.fracarr(np.asarray(0.7)), interp=jx.Interp())
    c.validate(jx.to_numeric(jx.lift(got)), want, "susceptibility_from_coefficients")


# ------------------------------------------------------------------------------------------------ (iii) zero padding
def _padding_case(c, case):
    import jax.numpy as jnp

    import fdtdx
    import fdtdx.dispersion as dp
    import fdtdx.materials as mt

    c.functions.update(["dispersion.susceptibility_from_coefficients", "materials.compute_allowed_dispersive_coefficients", "dispersion.compute_pole_coefficients_tensor"])
    W, DT = z3.Real("omega"), z3.Real("dt")
    # E1: symbolic coefficient rows followed / interleaved by all-zero rows
    for comps in (1, 3, 9):
        rc = 3 if comps == 9 else comps
        row = [jx.symarr(f"c{k}", (1, rc if k < 3 else comps)) for k in (1, 2)] + [jx.symarr(f"c{k}", (1, comps)) for k in (3, 4)]
        c.symvars += sum(a.size for a in row) + 2
        base, side, tr = _chi(c, row, W, DT)
        zero = lambda a: np.zeros((1,) + a.shape[1:])  # noqa: E731
        def real_chi(arrs, w, dtv):
            a = [jnp.asarray(np.asarray(x, dtype=np.float64)) for x in arrs]
            return np.asarray(dp.susceptibility_from_coefficients(a[0], a[1], a[2], w, dtv, a[3]))

        for tag, order in (("after", lambda a: np.concatenate([a, jx.lift(zero(a))], axis=0)), ("before", lambda a: np.concatenate([jx.lift(zero(a)), a, jx.lift(zero(a))], axis=0))):
            padded, _, _ = _chi(c, [order(a) for a in row], W, DT)

            def rpad(m, order=order, row=row):
                from ..core import model_array
                rv = [model_array(m, a) for a in row]
                w, dtv = model_value(m, W), model_value(m, DT)
                b = real_chi(rv, w, dtv)
                pd = real_chi([jx.to_numeric(order(jx.fracarr(a))) for a in rv], w, dtv)
                if not np.all(np.isfinite(b)):
                    raise Inconclusive("witness coefficients give a non-finite susceptibility")
                return bool(np.max(np.abs(pd - b)) > 1e-9 * (1 + np.max(np.abs(b)))), dict(coefficients=rv, omega=w, dt=dtv, padded=pd, unpadded=b)

            c.prove_eq(f"comps={comps}: zero slot {tag} contributes nothing", padded, base, [], rpad, key="padding:zero-slot-contributes")
        zs = [np.zeros((2,) + a.shape[1:]) for a in row]
        allzero, _, _ = _chi(c, zs, W, DT)

        def rzero(m, zs=zs):
            w, dtv = model_value(m, W), model_value(m, DT)
            v = real_chi(zs, w, dtv)
            return bool(np.any(v != 0)), dict(omega=w, dt=dtv, chi=v)

        c.prove(f"comps={comps}: all-zero coefficients give chi == 0", (not jx.has_z3(allzero)) and bool(np.all(jx.to_numeric(allzero) == 0)), [W == W, DT > 0], rzero, key="padding:all-zero")
        if comps == 1:
            X = sc.cx(base.reshape(-1)[0])
            c.witness("twin: a non-zero slot contributes", sc.toz(X.re) != 0, [])
    # E2: the real padding routine with symbolic poles: shorter pole lists / non-dispersive materials get exact zeros, the
    # real slots carry exactly the coefficients of compute_pole_coefficients_tensor
    w0, c0 = fresh_real("w0", 0, None, lo_strict=True)
    g, c1_ = fresh_real("g", 0, None)
    de, _ = fresh_real("de")
    wp, c2_ = fresh_real("wp", 0, None, lo_strict=True)
    g2, c3_ = fresh_real("g2", 0, None)
    dt, c4_ = fresh_real("dt", 0, None, lo_strict=True)
    assume = c0 + c1_ + c2_ + c3_ + c4_ + [de.t != 0, w0.t * dt.t < 2, dt.t * dt.t * Fraction(37, 64) < 4]  # last: |q|*dt < 2 for the concrete CCPR pole (|q|^2 = 37/64)
    c.symvars += 6

    def mats(with3=True):
        lor = dp.LorentzPole(resonance_frequency=w0, damping=g, delta_epsilon=de)
        dru = dp.DrudePole(plasma_frequency=wp, damping=g2)
        return {"air": fdtdx.Material(), "one": fdtdx.Material(permittivity=2.0, dispersion=dp.DispersionModel(poles=(lor,))),
                "two": fdtdx.Material(permittivity=3.0, dispersion=dp.DispersionModel(poles=(dru, lor))),
                **({"three": fdtdx.Material(permittivity=4.0, dispersion=dp.DispersionModel(poles=(_CCPR3(dp),)))} if with3 else {})}, (lor, dru)

    for comps, ccomps in ((1, 1), (3, 3), (3, 9)):
        def fn(comps=comps, ccomps=ccomps):
            m, (lor, dru) = mats(comps >= 3)  # the scalar tier rejects per-axis poles by design
            order = [n for n, _ in mt.compute_ordered_material_name_tuples(m)]
            return (order, mt.compute_allowed_dispersive_coefficients(m, dt, 3, comps, ccomps), dp.compute_pole_coefficients_tensor((lor,), dt),
                    dp.compute_pole_coefficients_tensor((dru, lor), dt), dp.compute_pole_coefficients_tensor((_CCPR3(dp),), dt))

        paths = _explore(c, fn, assume, [dp, mt])
        vals = [p for p in paths if p[1] is None]
        for res, exc, pc in paths:
            if exc is not None:
                c.prove(f"padding comps={comps}/{ccomps}: no exception on legal poles ({type(exc).__name__}: {str(exc)[:200]})", False, pc, lambda m: (True, dict(note="exception path feasible", model=str(m)[:300])), key="padding:raises")
        if not vals:
            raise Inconclusive("padding routine: no value path")
        def rslots(m, comps=comps, ccomps=ccomps):
            v = {k: model_value(m, s_.t) for k, s_ in dict(w0=w0, g=g, de=de, wp=wp, g2=g2).items()}
            dtv = model_value(m, dt.t)
            lor = dp.LorentzPole(resonance_frequency=v["w0"], damping=v["g"], delta_epsilon=v["de"])
            dru = dp.DrudePole(plasma_frequency=v["wp"], damping=v["g2"])
            ms = {"air": fdtdx.Material(), "one": fdtdx.Material(permittivity=2.0, dispersion=dp.DispersionModel(poles=(lor,))),
                  "two": fdtdx.Material(permittivity=3.0, dispersion=dp.DispersionModel(poles=(dru, lor))),
                  **({"three": fdtdx.Material(permittivity=4.0, dispersion=dp.DispersionModel(poles=(_CCPR3(dp),)))} if comps >= 3 else {})}
            names = [n for n, _ in mt.compute_ordered_material_name_tuples(ms)]
            got = mt.compute_allowed_dispersive_coefficients(ms, dtv, 3, comps, ccomps)
            refs = dict(one=dp.compute_pole_coefficients_tensor((lor,), dtv), two=dp.compute_pole_coefficients_tensor((dru, lor), dtv),
                        three=dp.compute_pole_coefficients_tensor((_CCPR3(dp),), dtv))
            dg = {1: [0], 3: [0, 4, 8], 9: list(range(9))}[ccomps]
            bad = []
            for k in range(4):
                sel = list(range(comps)) if k < 2 else dg
                for mi, name in enumerate(names):
                    npoles = dict(air=0, one=1, two=2, three=1)[name]
                    if np.any(got[k][mi, npoles:] != 0):
                        bad.append(f"c{k + 1}[{name}] padded slot non-zero")
                    if npoles and not np.array_equal(got[k][mi, :npoles], refs[name][k][:, sel]):
                        bad.append(f"c{k + 1}[{name}] differs from compute_pole_coefficients_tensor")
            return bool(bad), dict(params=v, dt=dtv, mismatches=bad[:6])

        for pi, (res, exc, pc) in enumerate(vals):
            order, arrs, one, two, three = res
            diag = {1: [0], 3: [0, 4, 8], 9: list(range(9))}[ccomps]
            for k in range(4):
                A = _terms(arrs[k])
                sel = list(range(comps)) if k < 2 else diag
                ref = {"one": _terms(one[k])[:, sel], "two": _terms(two[k])[:, sel], "three": _terms(three[k])[:, sel]}
                for mi, name in enumerate(order):
                    npoles = dict(air=0, one=1, two=2, three=1)[name]
                    pad = A[mi, npoles:]
                    c.prove(f"padding comps={comps}/{ccomps} path{pi}: c{k + 1}[{name}] padded slots are exact zeros",
                            bool(all((not isz(v)) and v == 0 for v in pad.reshape(-1))), pc, rslots, key="padding:nonzero-pad")
                    if npoles:
                        c.prove_eq(f"padding comps={comps}/{ccomps} path{pi}: c{k + 1}[{name}] real slots unchanged", A[mi, :npoles], ref[name], pc, rslots, key="padding:slot-changed")
    c.witness("twin: padding assumptions satisfiable", True, assume)


def _CCPR3(dp):
    """a concrete per-axis CCPR pole with non-zero real residue parts (dE/dt coupling c4 != 0, different on every axis): the
    per-material table must pick the DIAGONAL c3/c4 entries at the per-axis tier (seeded change C35b)"""
    return dp.CCPRPole(pole=(complex(-0.125, 0.75), complex(-0.125, 0.75), complex(-0.25, 0.5)), residue=(complex(0.5, 0.25), complex(0.375, 0.25), complex(-0.25, 0.75)))


def run_case(c, case):
    if case["kind"] == "pole":
        return _pole_case(c, case)
    return _padding_case(c, case)
