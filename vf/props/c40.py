"""C40 -- functional updates never mutate their input (E2, structural: pysym over core/jax/pytrees.py::TreeClass.aset).

Four nested templates (TreeClass containing lists, dicts and further TreeClasses, plain and frozen fields, a private
field, one sub-object referenced from two places).  Every leaf is a distinct symbolic real, the new value is a
symbolic real; the update path is chosen by a symbolic selector int over *every* addressable node of the template
(attribute, list index incl. negative, dictionary key), concretised by forking.  The oracle is an independent
functional update on a plain nested copy of the template (``_ref_set``); the claim per path is: no exception, same
type, every node of the result equals the reference (leaf terms equal under the solver), and the original object
graph -- containers by identity, leaves by identity -- is exactly what it was before the call.
"""
from __future__ import annotations

import numpy as np
import z3

from .. import pysym
from ..core import model_value
from ..pysym import SymNum, fresh_int, fresh_real

META = dict(
    functions=["TreeClass.aset", "TreeClass._parse_operations", "TreeClass._aset", "core.jax.pytrees.safe_hasattr"],
    assumptions=["containers are lists and dicts with string keys free of quotes/brackets (the documented path grammar)",
                 "leaf values are numbers (symbolic reals); containers may also be installed as new values"],
    outside="tuples / arrays as indexed containers (no __setitem__ or not documented); jax pytree leaf updates through .at[] (not aset); templates beyond the four listed",
    bounds=dict(quick=dict(templates=4, paths="every addressable node (<= 64 per template)", new_value_kinds=2),
                thorough=dict(templates=4, paths="every addressable node (<= 64 per template)", new_value_kinds=3)),
    timeout_ms=dict(quick=30000, thorough=120000),
)

N_LEAVES = 24


def cases(tier, seed):
    out = []
    kinds = ["leaf", "subtree"] if tier == "quick" else ["leaf", "subtree", "treeclass"]
    for t in range(4):
        for kind in kinds:
            out.append(dict(name=f"template{t}-set-{kind}", kind="set", template=t, value=kind))
        out.append(dict(name=f"template{t}-create", kind="create", template=t))
        out.append(dict(name=f"template{t}-errors", kind="errors", template=t))
    out.append(dict(name="path-grammar", kind="grammar"))
    return out


# ------------------------------------------------------------------------------------------------ templates
_CLS = {}


def _classes():
    if _CLS:
        return _CLS
    from fdtdx.core.jax.pytrees import TreeClass, autoinit, field, frozen_field, private_field

    @autoinit
    class Leaf(TreeClass):
        x: float = field()
        y: float = frozen_field(default=0.5)
        opts: dict = frozen_field(default=None)

    @autoinit
    class Mid(TreeClass):
        items: list = field()
        leaf: Leaf = field()
        label: str = frozen_field(default="m")
        _hidden: float = private_field(default=1.5)

    @autoinit
    class Top(TreeClass):
        mid: Mid = field()
        mids: list = frozen_field()
        table: dict = field()
        z: float = field()

    @autoinit
    class Bag(TreeClass):
        rows: list = field()
        names: dict = frozen_field()
        inner: Leaf = frozen_field()

    _CLS.update(Leaf=Leaf, Mid=Mid, Top=Top, Bag=Bag, TreeClass=TreeClass)
    return _CLS


def build(t, v):
    """template number t over leaf values v (list of >= N_LEAVES numbers)."""
    C = _classes()
    Leaf, Mid, Top, Bag = C["Leaf"], C["Mid"], C["Top"], C["Bag"]
    it = iter(v)
    nx = lambda: next(it)  # noqa: E731
    lf = lambda: Leaf(x=nx(), y=nx(), opts={"k": nx()})  # noqa: E731
    if t == 0:  # TreeClass > TreeClass > list > dict > TreeClass > dict
        return Top(mid=Mid(items=[{"a": lf(), "b": lf()}, {"a": lf()}], leaf=lf()), mids=[Mid(items=[], leaf=lf()), Mid(items=[{"c": lf()}], leaf=lf())],
                   table={"p": [nx(), nx()], "q": []}, z=nx())
    if t == 1:  # lists of lists, dicts of dicts
        return Bag(rows=[[nx(), nx()], [nx(), [nx(), nx()]], []], names={"u": {"v": {"w": nx()}, "x": [nx(), nx()]}, "y": nx()}, inner=lf())
    if t == 2:  # one Leaf object referenced from three places (aliasing inside the tree)
        shared = lf()
        return Top(mid=Mid(items=[{"a": shared}], leaf=shared), mids=[Mid(items=[{"s": shared}], leaf=lf())], table={"p": [nx()]}, z=nx())
    # t == 3: TreeClass in frozen containers, private field holding a container
    return Bag(rows=[lf(), Mid(items=[{"a": nx()}], leaf=lf())],
               names={"m": Mid(items=[[nx()]], leaf=lf(), label="named"), "n": [lf()]}, inner=lf())


def _is_tree(o):
    return isinstance(o, _classes()["TreeClass"])


def _field_names(o):
    import pytreeclass as tc

    return [f.name for f in tc.fields(o)]


def nodes(o, ops=()):
    """every addressable node below o: list of op tuples ((kind, key), ...)."""
    out = []
    if _is_tree(o):
        for nm in _field_names(o):
            p = ops + (("attribute", nm),)
            out.append(p)
            out += nodes(getattr(o, nm), p)
    elif isinstance(o, list):
        for i, ch in enumerate(o):
            p = ops + (("index", i),)
            out.append(p)
            out += nodes(ch, p)
        if o:
            out.append(ops + (("index", -1),))
    elif isinstance(o, dict):
        for k, ch in o.items():
            p = ops + (("key", k),)
            out.append(p)
            out += nodes(ch, p)
    return out


def path_str(ops):
    return "->".join(nm if kind == "attribute" else (f"[{nm}]" if kind == "index" else f"['{nm}']") for kind, nm in ops)


# ------------------------------------------------------------------------------------------------ reference model (oracle)
def plain(o):
    """plain nested copy: ("T", cls, {field: ..}) | ("L", [..]) | ("D", {k: ..}) | ("V", leaf)."""
    if _is_tree(o):
        d = {nm: plain(getattr(o, nm)) for nm in _field_names(o)}
        for nm, val in vars(o).items():  # attributes added with create_new_ok
            if nm not in d:
                d[nm] = plain(val)
        return ("T", type(o), d)
    if isinstance(o, list):
        return ("L", [plain(x) for x in o])
    if isinstance(o, dict):
        return ("D", {k: plain(x) for k, x in o.items()})
    return ("V", o)


def _ref_set(p, ops, newp):
    """functional update of a plain structure: returns a new structure in which exactly the addressed node is newp."""
    if not ops:
        return newp
    (kind, key), rest = ops[0], ops[1:]
    tag = p[0]
    if kind == "attribute":
        assert tag == "T"
        d = dict(p[2])
        d[key] = _ref_set(d.get(key), rest, newp)
        return ("T", p[1], d)
    if kind == "index":
        assert tag == "L"
        lst = list(p[1])
        lst[key] = _ref_set(lst[key], rest, newp)
        return ("L", lst)
    assert tag == "D"
    d = dict(p[1])
    d[key] = _ref_set(d.get(key), rest, newp)
    return ("D", d)


def same(a, b, eqleaf):
    """list of conjuncts: plain structures a and b agree (containers structurally, leaves through eqleaf)."""
    if a[0] != b[0]:
        return [False]
    if a[0] == "V":
        return [eqleaf(a[1], b[1])]
    if a[0] == "T":
        if a[1] is not b[1] or set(a[2]) != set(b[2]):
            return [False]
        return [x for k in a[2] for x in same(a[2][k], b[2][k], eqleaf)]
    if a[0] == "L":
        if len(a[1]) != len(b[1]):
            return [False]
        return [x for u, w in zip(a[1], b[1]) for x in same(u, w, eqleaf)]
    if set(a[1]) != set(b[1]):
        return [False]
    return [x for k in a[1] for x in same(a[1][k], b[1][k], eqleaf)]


def identity_map(o, ops=()):
    """ops -> id(node) for every container and leaf (original-unchanged check: same objects in the same places)."""
    out = {ops: id(o)}
    if _is_tree(o):
        for nm in list(vars(o)):
            out.update(identity_map(getattr(o, nm), ops + (("attribute", nm),)))
    elif isinstance(o, list):
        for i, ch in enumerate(o):
            out.update(identity_map(ch, ops + (("index", i),)))
    elif isinstance(o, dict):
        for k, ch in o.items():
            out.update(identity_map(ch, ops + (("key", k),)))
    return out


def leaf_positions(p, ops=()):
    """ops -> leaf for every leaf of a plain structure."""
    if p[0] == "V":
        return {ops: p[1]}
    out = {}
    if p[0] == "T":
        for k, ch in p[2].items():
            out.update(leaf_positions(ch, ops + (("attribute", k),)))
    elif p[0] == "L":
        for i, ch in enumerate(p[1]):
            out.update(leaf_positions(ch, ops + (("index", i),)))
    else:
        for k, ch in p[1].items():
            out.update(leaf_positions(ch, ops + (("key", k),)))
    return out


def eq_sym(a, b):
    if isinstance(a, SymNum) and isinstance(b, SymNum):
        return a.t == b.t
    if isinstance(a, SymNum) or isinstance(b, SymNum):
        return pysym.term(a) == pysym.term(b) if not isinstance(a, (str, type(None))) and not isinstance(b, (str, type(None))) else False
    return a is b or a == b


def eq_conc(a, b):
    if isinstance(a, (int, float, np.floating)) and isinstance(b, (int, float, np.floating)) and not isinstance(a, bool) and not isinstance(b, bool):
        return float(a) == float(b)
    return a is b or a == b


def _new_value(kind, nv):
    C = _classes()
    if kind == "leaf":
        return nv[0]
    if kind == "subtree":
        return {"n": [nv[0], nv[1]], "o": nv[2]}
    return C["Leaf"](x=nv[0], y=nv[1], opts={"k": nv[2]})


def _conj(cl):
    return z3.And(*[z3.BoolVal(bool(x)) if isinstance(x, (bool, np.bool_)) else x for x in cl])


# ------------------------------------------------------------------------------------------------ cases
def run_case(c, case):
    c.functions.update(META["functions"])
    globals()["_case_" + case["kind"]](c, case)


def _leaves(c):
    vs = [fresh_real(f"leaf{i}")[0] for i in range(N_LEAVES)]
    nv = [fresh_real(f"new{i}")[0] for i in range(3)]
    c.symvars += N_LEAVES + 3
    return vs, nv


def _run_update(c, name, key, t, targets, vs, nv, kind, create):
    """targets: list of op tuples; a symbolic selector picks one."""
    sel, cs = fresh_int("selector", 0, len(targets) - 1)
    c.symvars += 1
    state = {}

    def fn():
        k = int(sel)  # forks over every target
        obj = build(t, vs)
        before_plain, before_ids = plain(obj), identity_map(obj)
        val = _new_value(kind, nv)
        res = obj.aset(path_str(targets[k]), val, create_new_ok=create)
        state.update(k=k, obj=obj, before_plain=before_plain, before_ids=before_ids, val=val)
        return res

    def verdict(res, exc, eqleaf, st):
        if exc is not None:
            return [False]
        obj, ops = st["obj"], targets[st["k"]]
        ops = tuple((kd, (len(_get(st["before_plain"], ops[:i])[1]) + nm) if kd == "index" and nm < 0 else nm) for i, (kd, nm) in enumerate(ops))
        cl = [type(res) is type(obj), res is not obj]
        want = _ref_set(st["before_plain"], ops, plain(st["val"]))
        cl += same(plain(res), want, eqleaf)  # only the addressed path differs (and it holds the new value)
        cl += same(plain(obj), st["before_plain"], lambda a, b: a is b)  # original: same leaves
        cl.append(identity_map(obj) == st["before_ids"])  # original: same containers in the same places
        return cl

    def norm(ops, pl):
        return tuple((kd, (len(_get(pl, ops[:i])[1]) + nm) if kd == "index" and nm < 0 else nm) for i, (kd, nm) in enumerate(ops))

    def selector_map(res):
        """second, selector-level statement of 'only the addressed path changed' (kind 'leaf'): every numeric leaf position
        q of the original that still exists in the result holds  If(selector addresses q, new value, old leaf)  -- one
        formula over the *symbolic* selector, resolved by the solver through the path condition."""
        if kind != "leaf" or exc_free_targets is None:
            return []
        before, after = leaf_positions(state["before_plain"]), leaf_positions(plain(res))
        cl = []
        for q, old in before.items():
            if q in after and isinstance(old, SymNum) and isinstance(after[q], SymNum):
                hit = [j for j, tj in enumerate(exc_free_targets) if tj == q]
                cond = z3.Or(*[sel.t == j for j in hit]) if hit else z3.BoolVal(False)
                cl.append(after[q].t == z3.If(cond, nv[0].t, old.t))
        return cl

    exc_free_targets = None if create else [norm(tg, plain(build(t, list(range(N_LEAVES))))) for tg in targets]

    def post(res, exc):
        return _conj(verdict(res, exc, eq_sym, state) + (selector_map(res) if exc is None else []))

    def replay(m):
        cv = [model_value(m, x.t) for x in vs]
        cn = [model_value(m, x.t) for x in nv]
        k = model_value(m, sel.t)
        obj = build(t, cv)
        st = dict(k=k, obj=obj, before_plain=plain(obj), before_ids=identity_map(obj), val=_new_value(kind, cn))
        res = exc = None
        try:
            res = obj.aset(path_str(targets[k]), st["val"], create_new_ok=create)
        except Exception as e:  # noqa: BLE001
            exc = e
        ok = all(bool(x) for x in verdict(res, exc, eq_conc, st))
        return (not ok), dict(template=t, path=path_str(targets[k]), create_new_ok=create, raised=repr(exc) if exc is not None else None,
                              result=repr(res)[:300])

    c.sym_explore(name, fn, post, cs, replay, key=key, max_paths=2000, int_range=max(64, len(targets) + 1))


def _get(p, ops):
    for kind, key in ops:
        p = p[2][key] if kind == "attribute" else p[1][key]
    return p


def _case_set(c, case):
    t, kind = case["template"], case["value"]
    vs, nv = _leaves(c)
    with_concrete = build(t, list(range(N_LEAVES)))
    targets = nodes(with_concrete)
    c.bounds["paths_template%d" % t] = len(targets)
    for create in (False, True):
        _run_update(c, f"aset[{kind},create_new_ok={create}]", f"aset:template{t}:{kind}", t, targets, vs, nv, kind, create)
    c.witness("twin: the new value differs from every old leaf", z3.And(*[nv[0].t != x.t for x in vs]), [])


def _case_create(c, case):
    """create_new_ok=True: a new attribute on any TreeClass node / a new key in any dict node."""
    t = case["template"]
    vs, nv = _leaves(c)
    probe = build(t, list(range(N_LEAVES)))
    targets = []
    for ops in [()] + nodes(probe):
        node = probe
        for kind, key in ops:
            node = getattr(node, key) if kind == "attribute" else node[key]
        if _is_tree(node):
            targets.append(ops + (("attribute", "brand_new"),))
        elif isinstance(node, dict):
            targets.append(ops + (("key", "brand new"),))
    c.bounds["create_paths_template%d" % t] = len(targets)
    for kind in ("leaf", "subtree"):
        _run_update(c, f"aset creates [{kind}]", f"aset:template{t}:create", t, targets, vs, nv, kind, True)
    c.witness("twin", nv[0].t != nv[1].t, [])


def _case_errors(c, case):
    """paths that do not exist: an exception, and the original is untouched."""
    t = case["template"]
    vs, nv = _leaves(c)
    probe = build(t, list(range(N_LEAVES)))
    bad = []
    for ops in [()] + nodes(probe):
        node = probe
        for kind, key in ops:
            node = getattr(node, key) if kind == "attribute" else node[key]
        if _is_tree(node):
            bad += [(ops + (("attribute", "nope"),), False), (ops + (("attribute", "nope"), ("attribute", "deeper")), True), (ops + (("index", 0),), True)]
        elif isinstance(node, dict):
            bad += [(ops + (("key", "nope"),), False), (ops + (("key", "nope"), ("key", "deeper")), True)]
        elif isinstance(node, list):
            bad += [(ops + (("index", len(node)),), True), (ops + (("key", "k"),), True)]
        else:
            bad += [(ops + (("attribute", "real_part_of_a_float_is_not_settable"),), True)]
    bad = bad[:60]
    sel, cs = fresh_int("selector", 0, len(bad) - 1)
    c.symvars += 1
    state = {}

    def fn():
        k = int(sel)
        obj = build(t, vs)
        state.update(obj=obj, before_plain=plain(obj), before_ids=identity_map(obj))
        return obj.aset(path_str(bad[k][0]), nv[0], create_new_ok=bad[k][1])

    def post(res, exc):
        obj = state["obj"]
        return _conj([exc is not None, identity_map(obj) == state["before_ids"]] + same(plain(obj), state["before_plain"], lambda a, b: a is b))

    def replay(m):
        k = model_value(m, sel.t)
        obj = build(t, [model_value(m, x.t) for x in vs])
        bp, bi = plain(obj), identity_map(obj)
        try:
            res = obj.aset(path_str(bad[k][0]), 1.0, create_new_ok=bad[k][1])
            raised = None
        except Exception as e:  # noqa: BLE001
            res, raised = None, repr(e)
        ok = raised is not None and identity_map(obj) == bi and all(same(plain(obj), bp, lambda a, b: a is b))
        return (not ok), dict(template=t, path=path_str(bad[k][0]), create_new_ok=bad[k][1], raised=raised, result=repr(res)[:200])

    c.sym_explore("aset on a non-existent path", fn, post, cs, replay, key=f"aset:template{t}:bad-path", max_paths=2000, int_range=64)
    c.witness("twin", sel.t > 0, cs)


def _case_grammar(c, case):
    """malformed path strings are rejected (ValueError) before anything is touched; well-formed ones parse to the ops."""
    TreeClass = _classes()["TreeClass"]
    vs, nv = _leaves(c)
    malformed = ["", "a->", "->a", "a->->b", "[x]", "[1", "a b", "a->[']", "['a'b']", "['a[']", "a->1b", "[1.5]", "a-->b"]
    wellformed = {"a": [("a", "attribute")], "a->b": [("a", "attribute"), ("b", "attribute")], "[0]": [(0, "index")], "[-2]->x": [(-2, "index"), ("x", "attribute")],
                  "a->['k y']->[ 3 ]": [("a", "attribute"), ("k y", "key"), (3, "index")], "_p->['']": [("_p", "attribute"), ("", "key")]}
    sel, cs = fresh_int("selector", 0, len(malformed) - 1)
    state = {}

    def fn():
        k = int(sel)
        obj = build(0, vs)
        state.update(obj=obj, before_ids=identity_map(obj))
        return obj.aset(malformed[k], nv[0], create_new_ok=True)

    def post(res, exc):
        return _conj([isinstance(exc, ValueError), identity_map(state["obj"]) == state["before_ids"]])

    def replay(m):
        k = model_value(m, sel.t)
        obj = build(0, list(range(N_LEAVES)))
        try:
            obj.aset(malformed[k], 1.0, create_new_ok=True)
            return True, dict(path=malformed[k], raised=None)
        except ValueError:
            return False, {}
        except Exception as e:  # noqa: BLE001
            return True, dict(path=malformed[k], raised=repr(e))

    c.sym_explore("malformed path strings", fn, post, cs, replay, key="aset:grammar:malformed", int_range=64)
    for s, ops in wellformed.items():
        got = TreeClass._parse_operations(s)
        if got != ops:
            c.fail_concrete(f"parse {s!r}", dict(got=got, want=ops), key="aset:grammar:parse")
        else:
            c.prove(f"parse {s!r}", True)
    c.witness("twin", sel.t >= 0, cs)
