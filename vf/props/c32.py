"""C32 -- symmetry unfolding is consistent (E1, QF_LRA).

The real ``unfold_fields`` / ``unfold_array`` / ``unfold_detector_states`` are traced and interpreted with every stored
value a fresh real (complex for phasors).  The oracle is the documented rule, written here from the docstrings as an
explicit (source index, sign) table per reconstructed cell -- no flip / concatenate / roll is shared with the code:

* parity: an electric plane (-1) makes tangential E and normal H odd, normal E and tangential H even; a magnetic plane
  (+1) the opposite.  Poynting flux is a polar vector (normal component odd, tangential even, either wall), energy even.
* index map along a symmetric axis with n kept samples (full index i in [0, 2n), plane between n-1 and n):
  kept half      full[n + j] = stored[j]
  plain flip     full[n - 1 - j] = p * stored[j]                                    (half-cell-offset samples)
  on the plane   full[n - j] = p * stored[j] for j = 1..n-1, full[0] = full[1]      (samples that sit on an electric plane)
  On the plane sit: tangential E / normal H of ``unfold_fields``; every stored sample of a detector with
  ``exact_interpolation`` on an electric x- or y-plane (co-located at the E_z point); nothing on a magnetic plane.
* volume-reduced detectors: the stored value is the detector's reduction (mean for Field/Phasor, sum for Energy/Poynting)
  of a spatial record S; its unfolding must equal the same reduction of the oracle-unfolded S (only when nothing sits on
  a plane).  Energy ``as_slices`` planes (mean over the collapsed axis) are treated the same way.
"""
from __future__ import annotations

import itertools
import time

import jax.numpy as jnp
import numpy as np
import z3

from .. import jx2smt as jx
from .. import sc
from ..core import Inconclusive, model_array

META = dict(
    functions=["fdtd.symmetry.unfold_fields", "fdtd.symmetry.unfold_array", "fdtd.symmetry.unfold_detector_states", "_unfold_one_detector",
               "_unfold_poynting", "_unfold_energy_slices", "_component_signs", "_reduce_factor", "_colocated_on_plane_axes",
               "core.physics.symmetry.field_component_parity", "mirror_pairs_on_plane", "component_sits_on_plane", "mirror_extend_low_side",
               "SimulationObject.straddles_symmetry_plane (through the real place_objects)"],
    assumptions=[
        "reals instead of floats (the unfolding only copies and negates, so this is exact)",
        "detector scenes: uniform grid (the volume reductions are then plain means / sums up to a constant factor)",
        "PoyntingFluxDetector(keep_all_components=True) cannot be placed in the pinned tree (known C16/C17 placement defect): "
        "that variant is obtained by aset('keep_all_components', True) on the placed single-component detector",
        "reduce-volume consistency is only demanded when no stored sample sits on a symmetry plane (as the statement says)",
    ],
    outside="DiffractiveDetector / ClosedSurface*PoyntingFluxDetector (unfold raises NotImplementedError by design), mode-overlap and field-projection "
            "detectors (mode solver / far-field code not encodable), unfold_source_mode, non-uniform grids, reduced extents above 4 cells per axis, "
            "whether the mirrored record equals what a full-domain simulation would record (that is C33)",
    bounds=dict(quick=dict(field_shapes=[[3, 2, 2], [2, 3, 3]], symmetry_tuples="all 26 for unfold_fields; 7 for detector scenes", detector_half_extent=[2, 3]),
                thorough=dict(field_shapes=[[3, 2, 2], [2, 3, 3], [2, 2, 3], [4, 3, 2]], symmetry_tuples="all 26 for unfold_fields and for detector scenes", detector_half_extent=[2, 3])),
    timeout_ms=dict(quick=60000, thorough=120000),
)

ALL_SYM = [s for s in itertools.product((-1, 0, 1), repeat=3) if any(s)]
COMP = ("Ex", "Ey", "Ez", "Hx", "Hy", "Hz")


def _sname(s):
    return "".join({-1: "e", 0: "0", 1: "m"}[v] for v in s)


def cases(tier, seed):
    out = []
    q = tier == "quick"
    groups = 4 if q else 6
    for g in range(groups):
        out.append(dict(name=f"fields-{g}", kind="fields", syms=[list(s) for i, s in enumerate(ALL_SYM) if i % groups == g],
                        shapes=[[3, 2, 2], [2, 3, 3]] if q else [[3, 2, 2], [2, 3, 3], [2, 2, 3], [4, 3, 2]]))
    out.append(dict(name="fields-one-cell", kind="fields1"))
    out.append(dict(name="array", kind="array"))
    out.append(dict(name="array-one-cell", kind="array1"))
    dsyms = [(-1, 0, 0), (0, 1, 0), (0, 0, -1), (1, -1, 0), (0, -1, 1), (1, 1, 1), (-1, 1, -1)] if q else ALL_SYM
    for i, s in enumerate(dsyms):
        out.append(dict(name=f"det-{_sname(s)}", kind="det", sym=list(s), h=2 + (i % 2 if sum(1 for v in s if v) < 3 else 0)))
    out.append(dict(name="det-one-cell", kind="det1"))
    return out


# ===================================================================================================== oracle (docstrings)
def doc_parity(ft, comp, axis, wall):
    """+1 even / -1 odd.  Electric wall: tangential E and normal H vanish on the plane (odd); magnetic wall: the opposite."""
    normal = comp == axis
    odd_on_electric = (ft == "E" and not normal) or (ft == "H" and normal)
    p = -1 if odd_on_electric else 1
    if wall == -1:
        return p
    if wall == 1:
        return -p
    raise ValueError(wall)


def doc_on_plane(ft, comp, axis, wall):
    """E_c is offset along c only, H_c along the two other axes: along ``axis`` the integer-position components are E_c (c != axis)
    and H_axis.  They are on the plane only if the plane is electric (a magnetic plane lies half a cell below the kept domain)."""
    integer_pos = (ft == "E" and comp != axis) or (ft == "H" and comp == axis)
    return wall == -1 and integer_pos


def poynting_parity(comp, axis, wall):
    """E x H is a polar vector: its component normal to the mirror flips, the tangential ones do not (both wall types)."""
    assert wall in (-1, 1)
    return -1 if comp == axis else 1


def axis_table(n, on_plane, p):
    """[(source index j, sign)] for full index i = 0..2n-1 along one symmetric axis."""
    tab = []
    for i in range(2 * n):
        if i >= n:
            tab.append((i - n, 1))
        elif not on_plane:
            tab.append((n - 1 - i, p))
        else:
            if n < 2:
                raise ValueError("on-plane map with a single kept sample: the repeated neighbour is not defined by the documentation")
            tab.append((n - i, p) if i >= 1 else (n - 1, p))
    return tab


def _mul(sign, a):
    if a.dtype == object:
        return jx.ew(lambda v: sc.mul(sign, v), a)
    return sign * a


def oracle_unfold(S, walls, spatial_axes, comp_axis, parity, on_plane):
    """S: stored array (object or numeric).  parity(c, a) / on_plane(c, a): per stored component index c (None without a
    component axis) and physical axis a.  Returns the documented full-domain array."""
    ncomp = S.shape[comp_axis] if comp_axis is not None else 1
    parts = []
    for cidx in range(ncomp):
        sub = np.take(S, [cidx], axis=comp_axis) if comp_axis is not None else S
        cc = cidx if comp_axis is not None else None
        for a in range(3):
            if walls[a] == 0:
                continue
            ax = spatial_axes[a]
            tab = axis_table(sub.shape[ax], on_plane(cc, a), parity(cc, a))
            slabs = []
            for j, sgn in tab:
                slabs.append(_mul(sgn, np.take(sub, [j], axis=ax)))
            sub = np.concatenate(slabs, axis=ax)
        parts.append(sub)
    return np.concatenate(parts, axis=comp_axis) if comp_axis is not None else parts[0]


def upper_half(A, walls, spatial_axes):
    idx = [slice(None)] * A.ndim
    for a in range(3):
        if walls[a] != 0:
            n = A.shape[spatial_axes[a]]
            idx[spatial_axes[a]] = slice(n // 2, None)
    return A[tuple(idx)]


def reduce_axes(A, axes, mean):
    """sum / mean over ``axes`` (object or numeric arrays), axes removed."""
    if A.dtype != object:
        return A.mean(axis=tuple(axes)) if mean else A.sum(axis=tuple(axes))
    keep = [i for i in range(A.ndim) if i not in axes]
    B = np.transpose(A, keep + list(axes))
    k = int(np.prod([A.shape[i] for i in axes]))
    B = B.reshape(tuple(A.shape[i] for i in keep) + (k,))
    out = np.empty(B.shape[:-1], dtype=object)
    for idx in np.ndindex(*out.shape):
        acc = 0
        for v in B[idx]:
            acc = sc.add(acc, v)
        out[idx] = sc.div(acc, k) if mean else acc
    return out


def _maxabs(*arrs):
    return max([float(np.max(np.abs(a))) for a in arrs if np.size(a)] + [0.0])


# ================================================================================================================ driver
def run_case(c, case):
    c.functions.update(META["functions"])
    {"fields": _fields, "fields1": _fields_one_cell, "array": _array, "array1": _array_one_cell, "det": _detectors, "det1": _detectors_one_cell}[case["kind"]](c, case)


# ------------------------------------------------------------------------------------------------------- unfold_fields
def _fields(c, case):
    from fdtdx.fdtd.symmetry import unfold_fields

    rng = np.random.default_rng(c.seed + 32)
    twin = False
    validated = False
    for sym in [tuple(s) for s in case["syms"]]:
        for ft in ("E", "H"):
            for shp in [tuple(s) for s in case["shapes"]]:
                f = jx.symarr(f"{ft}{_sname(sym)}_{'x'.join(map(str, shp))}", (3,) + shp)
                c.symvars += f.size
                fn = lambda a, sym=sym, ft=ft: unfold_fields(a, sym, ft)
                kb = f"unfold_fields:{ft}:{_sname(sym)}"
                t0 = time.time()
                try:
                    out, tr = jx.call(fn, f)
                except sc.NotEncodable:
                    raise
                except Exception as ex:  # noqa: BLE001
                    c.fail_concrete(f"{kb} {shp}: raises on a legal input", dict(symmetry=list(sym), field_type=ft, shape=list(shp), error=repr(ex)[:300]), key=f"{kb}:raises")
                    continue
                c.interp_s += time.time() - t0
                out = jx.lift(out)
                par = lambda cc, a, ft=ft, sym=sym: doc_parity(ft, cc, a, sym[a])
                onp = lambda cc, a, ft=ft, sym=sym: doc_on_plane(ft, cc, a, sym[a])
                want = oracle_unfold(f, sym, (1, 2, 3), 0, par, onp)
                if out.shape != want.shape:
                    c.fail_concrete(f"{kb} {shp}: symmetric axes are not doubled", dict(got=list(out.shape), want=list(want.shape)), key=f"{kb}:shape")
                    continue
                if not validated:
                    fc = rng.normal(size=f.shape)
                    c.validate(jx.to_numeric(tr(jx.fracarr(fc))), np.asarray(fn(jnp.asarray(fc))), "unfold_fields")
                    validated = True

                def replay(m, f=f, fn=fn, sym=sym, par=par, onp=onp, upper=False):
                    fc = model_array(m, f)
                    got = np.asarray(fn(jnp.asarray(fc, dtype=jnp.float64)))
                    ref = oracle_unfold(fc, sym, (1, 2, 3), 0, par, onp)
                    if upper:
                        got, ref = upper_half(got, sym, (1, 2, 3)), fc
                    res = float(np.max(np.abs(got - ref)))
                    return res > 1e-9 * (1 + _maxabs(fc)), dict(field=fc, unfolded=got, documented=ref, residual=res)

                nm = f"{ft} {_sname(sym)} {'x'.join(map(str, shp))}"
                c.prove_eq(f"{nm}: upper half == input", upper_half(out, sym, (1, 2, 3)), f, (), lambda m, r=replay: r(m, upper=True), key=f"{kb}:upper-half")
                c.prove_eq(f"{nm}: parity and mirror index map", out, want, (), replay, key=f"{kb}:parity-map", chunk=4)
                # under the wall condition (an odd component sampled on an electric plane vanishes there) the unfolded field is
                # exactly (anti)symmetric about the plane, the plane row included: U[n - j] == p U[n + j], j = 0..n-1
                for a in range(3):
                    for cc in range(3):
                        if sym[a] == 0 or not onp(cc, a):
                            continue
                        p, n = par(cc, a), shp[a]
                        idx0 = [slice(None)] * 3
                        idx0[a] = 0
                        hyp = [sc.eq(v, 0) for v in f[cc][tuple(idx0)].reshape(-1)] if p == -1 else []
                        lhs = np.take(out[cc], [n - j for j in range(n)], axis=a)
                        rhs = _mul(p, np.take(out[cc], [n + j for j in range(n)], axis=a))

                        def rp_sym(m, f=f, fn=fn, cc=cc, a=a, n=n, p=p):
                            fc = model_array(m, f)
                            U = np.asarray(fn(jnp.asarray(fc, dtype=jnp.float64)))[cc]
                            res = float(np.max(np.abs(np.take(U, [n - j for j in range(n)], axis=a) - p * np.take(U, [n + j for j in range(n)], axis=a))))
                            return res > 1e-9 * (1 + _maxabs(fc)), dict(field=fc, unfolded_component=U, component=cc, axis=a, residual=res)

                        c.prove_eq(f"{nm}: {ft}{'xyz'[cc]} zero on the {'xyz'[a]}-plane => mirror (anti)symmetric about it", lhs, rhs, hyp, rp_sym, key=f"{kb}:plane-symmetry")
                if not twin:
                    # vacuity: an odd component exists and the lower half is not a copy of the input
                    lowidx = (0,) + tuple(0 for _ in shp)
                    twin = c.witness(f"{nm}: mirrored cell can differ from the kept corner cell", sc.ne(out[lowidx], f[lowidx]))
    if not twin:
        raise Inconclusive("vacuity twin failed")


def _fields_one_cell(c, case):
    """reduced field with a single cell on the symmetric axis (full domain of 2 cells: allowed by validate_symmetric_axis_cells)."""
    from fdtdx.fdtd.symmetry import unfold_fields

    for a in range(3):
        for wall in (-1, 1):
            sym = tuple(wall if b == a else 0 for b in range(3))
            shp = tuple(1 if b == a else 2 for b in range(3))
            for ft in ("E", "H"):
                f = jx.symarr(f"{ft}{_sname(sym)}", (3,) + shp)
                c.symvars += f.size
                fn = lambda x, sym=sym, ft=ft: unfold_fields(x, sym, ft)
                nm = f"{ft} {_sname(sym)} {'x'.join(map(str, shp))}"
                want_shape = (3,) + tuple(2 * s if sym[b] else s for b, s in enumerate(shp))
                try:
                    out, tr = jx.call(fn, f)
                except sc.NotEncodable:
                    raise
                except Exception as ex:  # noqa: BLE001
                    c.fail_concrete(f"{nm}: unfold_fields raises for a one-cell reduced axis", dict(symmetry=list(sym), field_type=ft, reduced_shape=[3, *shp], error=repr(ex)[:300]),
                                    key=f"one-cell-on-plane:unfold_fields:{ft}")
                    continue
                out = jx.lift(out)
                if out.shape != want_shape:
                    c.fail_concrete(f"{nm}: symmetric axis not doubled", dict(got=list(out.shape), want=list(want_shape)), key=f"one-cell-on-plane:unfold_fields:{ft}")
                    continue
                c.prove_eq(f"{nm}: upper half == input", upper_half(out, sym, (1, 2, 3)), f, (), None, key=f"unfold_fields:{ft}:{_sname(sym)}:upper-half")
                if wall == 1:  # nothing on the plane: the plain flip is fully documented also for n = 1
                    want = oracle_unfold(f, sym, (1, 2, 3), 0, lambda cc, b: doc_parity(ft, cc, b, sym[b]), lambda cc, b: False)

                    def replay(m, f=f, fn=fn, sym=sym, ft=ft):
                        fc = model_array(m, f)
                        got = np.asarray(fn(jnp.asarray(fc, dtype=jnp.float64)))
                        ref = oracle_unfold(fc, sym, (1, 2, 3), 0, lambda cc, b: doc_parity(ft, cc, b, sym[b]), lambda cc, b: False)
                        res = float(np.max(np.abs(got - ref)))
                        return res > 1e-9 * (1 + _maxabs(fc)), dict(field=fc, unfolded=got, documented=ref, residual=res)

                    c.prove_eq(f"{nm}: parity and mirror index map", out, want, (), replay, key=f"unfold_fields:{ft}:{_sname(sym)}:parity-map")
    c.witness("twin", True)


# -------------------------------------------------------------------------------------------------------- unfold_array
_ARRAY_CFGS = [
    # (array shape, spatial_axes, component axis, symmetry, on_plane_axes)
    ((2, 3, 2, 3, 2), (2, 3, 4), 1, (-1, 1, 0), (0,)),
    ((2, 3, 3, 2, 2), (2, 3, 4), 1, (-1, -1, -1), (0, 1)),
    ((2, 3, 2, 2, 3), (2, 3, 4), 1, (1, 0, -1), ()),
    ((3, 2, 2, 3), (3, 1, 2), 0, (-1, -1, 1), (1,)),  # z is array axis 2, x the last one
    ((2, 3, 2), (0, 1, 2), None, (0, -1, -1), (1, 2)),
    ((4, 2, 2), (0, 1, 2), None, (-1, 0, 0), (0,)),
]


def _array(c, case):
    from fdtdx.fdtd.symmetry import unfold_array

    rng = np.random.default_rng(c.seed + 320)
    twin = False
    for k, (shp, spax, cax, sym, onpl) in enumerate(_ARRAY_CFGS):
        for use_signs in (True, False):
            arr = jx.symarr(f"a{k}{int(use_signs)}", shp)
            c.symvars += arr.size
            ncomp = shp[cax] if cax is not None else 1
            sg = {a: rng.choice([-1.0, 1.0], size=ncomp) for a in range(3) if sym[a] != 0}
            if k % 2 == 0:
                sg.pop(next(iter(sg)))  # a missing axis defaults to +1
            signs = None
            if use_signs:
                signs = {}
                for a, v in sg.items():
                    s = [1] * len(shp)
                    if cax is not None:
                        s[cax] = ncomp
                        signs[a] = jnp.asarray(v).reshape(s)
                    else:
                        signs[a] = jnp.asarray(float(v[0]))
            fn = lambda x, sym=sym, spax=spax, signs=signs, onpl=onpl: unfold_array(x, sym, spax, signs, onpl)
            out, tr = jx.call(fn, arr)
            out = jx.lift(out)
            par = lambda cc, a, sg=sg, use_signs=use_signs: int(sg[a][cc or 0]) if (use_signs and a in sg) else 1
            onp = lambda cc, a, onpl=onpl: a in onpl
            want = oracle_unfold(arr, sym, spax, cax, par, onp)
            nm = f"cfg{k}{'s' if use_signs else ''}"
            kb = f"unfold_array:{'on-plane' if onpl else 'flip'}"
            if out.shape != want.shape:
                c.fail_concrete(f"{nm}: symmetric axes are not doubled", dict(got=list(out.shape), want=list(want.shape)), key=f"{kb}:shape")
                continue
            if k == 0 and use_signs:
                ac = rng.normal(size=shp)
                c.validate(jx.to_numeric(tr(jx.fracarr(ac))), np.asarray(fn(jnp.asarray(ac))), "unfold_array")

            def replay(m, arr=arr, fn=fn, sym=sym, spax=spax, cax=cax, par=par, onp=onp, upper=False):
                ac = model_array(m, arr)
                got = np.asarray(fn(jnp.asarray(ac, dtype=jnp.float64)))
                ref = oracle_unfold(ac, sym, spax, cax, par, onp)
                if upper:
                    got, ref = upper_half(got, sym, spax), ac
                res = float(np.max(np.abs(got - ref)))
                return res > 1e-9 * (1 + _maxabs(ac)), dict(array=ac, unfolded=got, documented=ref, residual=res)

            c.prove_eq(f"{nm}: upper half == input", upper_half(out, sym, spax), arr, (), lambda m, r=replay: r(m, upper=True), key=f"{kb}:upper-half")
            c.prove_eq(f"{nm}: sign and mirror index map", out, want, (), replay, key=f"{kb}:parity-map", chunk=4)
            if not twin:
                twin = c.witness(f"{nm}: mirrored cell can differ from the kept corner cell", sc.ne(out[(0,) * len(shp)], arr[(0,) * len(shp)]))
    if not twin:
        raise Inconclusive("vacuity twin failed")


def _array_one_cell(c, case):
    from fdtdx.fdtd.symmetry import unfold_array

    for onpl in ((), (0,)):
        arr = jx.symarr(f"a1{len(onpl)}", (1, 2, 2))
        c.symvars += arr.size
        fn = lambda x, onpl=onpl: unfold_array(x, (-1, 0, 0), (0, 1, 2), None, onpl)
        out, _ = jx.call(fn, arr)
        out = jx.lift(out)
        nm = f"one kept sample, on_plane_axes={onpl}"
        if out.shape != (2, 2, 2):
            c.fail_concrete(f"{nm}: symmetric axis not doubled", dict(got=list(out.shape), want=[2, 2, 2]), key="one-cell-on-plane:unfold_array")
            continue
        c.prove_eq(f"{nm}: upper half == input", out[1:], arr, (), None, key="unfold_array:flip:upper-half")
        if not onpl:
            c.prove_eq(f"{nm}: lower half is the mirror image", out[:1], arr, (), None, key="unfold_array:flip:parity-map")
    c.witness("twin", True)


# ------------------------------------------------------------------------------------------------ unfold_detector_states
def _det_specs(sym, h):
    """detector recipes for a scene with symmetry ``sym``: name -> dict(cls, kw, lo, shape, kind, ...)."""
    full = tuple(2 * (h + 1) if s else 4 for s in sym)
    mid = tuple(f // 2 for f in full)
    lo_s = tuple(m - h if s else 1 for s, m in zip(sym, mid))
    sh_s = tuple(2 * h if s else 2 for s in sym)
    pa = next((a for a in range(3) if sym[a] == 0), 2)  # Poynting plane normal
    lo_p, sh_p = list(lo_s), list(sh_s)
    lo_p[pa], sh_p[pa] = (mid[pa] + 1 if sym[pa] else 1), 1
    lo_b = tuple(m if s else 1 for s, m in zip(sym, mid))  # begins at the plane, inside the kept half
    sh_b = tuple(2 for _ in sym)
    lo_a = tuple(m - 1 if s else 1 for s, m in zip(sym, mid))  # asymmetric straddle
    sh_a = tuple(h + 1 if s else 2 for s in sym)
    D = {}

    def add(name, cls, lo, shape, kind, twin=None, **kw):
        D[name] = dict(cls=cls, lo=tuple(lo), shape=tuple(shape), kind=kind, twin=twin, kw=kw)

    for ex in (False, True):
        e = int(ex)
        add(f"f_sp{e}", "FieldDetector", lo_s, sh_s, "field", exact_interpolation=ex, reduce_volume=False)
        add(f"f_rv{e}", "FieldDetector", lo_s, sh_s, "field_rv", twin=f"f_sp{e}", exact_interpolation=ex, reduce_volume=True)
        add(f"ph_sp{e}", "PhasorDetector", lo_s, sh_s, "phasor", exact_interpolation=ex, reduce_volume=False)
        add(f"ph_rv{e}", "PhasorDetector", lo_s, sh_s, "phasor_rv", twin=f"ph_sp{e}", exact_interpolation=ex, reduce_volume=True)
        add(f"e_sp{e}", "EnergyDetector", lo_s, sh_s, "energy", exact_interpolation=ex)
        add(f"e_rv{e}", "EnergyDetector", lo_s, sh_s, "energy_rv", twin=f"e_sp{e}", exact_interpolation=ex, reduce_volume=True)
        add(f"e_sl{e}", "EnergyDetector", lo_s, sh_s, "energy_sl", twin=f"e_sp{e}", exact_interpolation=ex, as_slices=True)
        add(f"pf_sp{e}", "PoyntingFluxDetector", lo_p, sh_p, "poynting", exact_interpolation=ex, reduce_volume=False, direction="-" if ex else "+", pa=pa)
        add(f"pf_rv{e}", "PoyntingFluxDetector", lo_p, sh_p, "poynting_rv", twin=f"pf_sp{e}", exact_interpolation=ex, reduce_volume=True, direction="+", pa=pa)
    add("f_sub", "FieldDetector", lo_s, sh_s, "field", exact_interpolation=False, reduce_volume=False, components=("Hx", "Ex", "Ey"))
    add("f_sub_rv", "FieldDetector", lo_s, sh_s, "field_rv", twin="f_sub", exact_interpolation=False, reduce_volume=True, components=("Hx", "Ex", "Ey"))
    add("ph_sub", "PhasorDetector", lo_s, sh_s, "phasor", exact_interpolation=True, reduce_volume=False, components=("Hz", "Ey"))
    add("ph_sub_rv", "PhasorDetector", lo_s, sh_s, "phasor_rv", twin="ph_sub", exact_interpolation=False, reduce_volume=True, components=("Hz", "Ey"))
    add("ppf", "PhasorPoyntingFluxDetector", lo_p, sh_p, "phasor", direction="+")
    add("f_begin", "FieldDetector", lo_b, sh_b, "untouched", exact_interpolation=True, reduce_volume=False)
    add("e_begin_rv", "EnergyDetector", lo_b, sh_b, "untouched", exact_interpolation=True, reduce_volume=True)
    add("f_asym", "FieldDetector", lo_a, sh_a, "field", exact_interpolation=True, reduce_volume=False, components=("Ex", "Ey", "Hz"))
    return full, D


def _build_det_scene(sym, h, specs=None):
    import fdtdx
    from ..scenes import WAVE, box_detector, build_scene

    full, D = specs if specs is not None else _det_specs(sym, h)
    objs = []
    for name, d in D.items():
        kw = {k: v for k, v in d["kw"].items() if k != "pa"}
        cls = getattr(fdtdx, d["cls"])
        if "Phasor" in d["cls"]:
            kw.update(wave_characters=(WAVE,), dtype=jnp.complex128)
        else:
            kw.update(dtype=jnp.float64)
        if d["cls"] != "PhasorPoyntingFluxDetector":
            kw.update(plot=False)
        objs.append(box_detector(cls, name, d["lo"], d["shape"], **kw))
    S = build_scene(full, "pec", steps=2, symmetry=sym, extra_objects=objs)
    return S, D


def _stored_components(d):
    comps = d["kw"].get("components", COMP)
    return [(n[0], "xyz".index(n[1])) for n in COMP if n in comps]  # documented canonical stacking order


def _detector_rules(d, touched):
    """(parity(c,a), on_plane(c,a), component axis, spatial axes, state key) of a spatial detector record, per the documentation."""
    ex = d["kw"].get("exact_interpolation", True)
    onp = lambda cc, a: bool(ex) and a in (0, 1) and touched[a] == -1
    kind = d["kind"]
    if kind in ("field", "field_rv"):
        spec = _stored_components(d)
        return (lambda cc, a: doc_parity(spec[cc][0], spec[cc][1], a, touched[a])), onp, 1, (2, 3, 4), "fields"
    if kind in ("phasor", "phasor_rv"):
        spec = _stored_components(d)
        return (lambda cc, a: doc_parity(spec[cc][0], spec[cc][1], a, touched[a])), onp, 2, (3, 4, 5), "phasor"
    if kind in ("energy", "energy_rv", "energy_sl"):
        return (lambda cc, a: 1), onp, None, (1, 2, 3), "energy"
    if kind in ("poynting", "poynting_rv"):
        if d["kw"].get("keep_all_components"):
            return (lambda cc, a: poynting_parity(cc, a, touched[a])), onp, 1, (2, 3, 4), "poynting_flux"
        pa = d["kw"]["pa"]
        return (lambda cc, a: poynting_parity(pa, a, touched[a])), onp, None, (1, 2, 3), "poynting_flux"
    raise ValueError(kind)


_PLANES = {"XY Plane": (0, 1), "XZ Plane": (0, 2), "YZ Plane": (1, 2)}


def _detectors(c, case, one_cell=False):
    from fdtdx.fdtd.symmetry import unfold_detector_states

    sym, h = tuple(case["sym"]), case["h"]
    t0 = time.time()
    S, D = _build_det_scene(sym, h, case.get("_specs"))
    arr, oc, cfg = S["arrays"], S["objects"], S["config"]
    c.extra["scene_build_s"] = round(time.time() - t0, 2)
    c.bounds.update(symmetry=list(sym), half_extent=h, detectors=len(D))
    placed = {d.name: d for d in oc.detectors}
    # keep_all_components variants of the Poynting detectors (direct placement fails in the pinned tree: known C16/C17 defect)
    extra_objs = []
    for name in [n for n in D if n.startswith("pf_")]:
        d = dict(D[name])
        d["kw"] = dict(d["kw"], keep_all_components=True)
        d["twin"] = None if d["twin"] is None else d["twin"].replace("pf_", "pfa_")
        new = name.replace("pf_", "pfa_")
        D[new] = d
        obj = placed[name].aset("keep_all_components", True).aset("name", new)
        placed[new] = obj
        extra_objs.append(obj)
    oc2 = oc.aset("object_list", list(oc.object_list) + extra_objs)
    T = 2

    # ---- symbolic stored states: spatial records are fresh variables, reduced records are the detector's reduction of its twin
    states, conc_builders = {}, {}
    touched_of = {}
    for name, d in D.items():
        obj = placed[name]
        un = obj.unreduced_grid_slice_tuple
        touched = tuple(sym[a] if un[a][0] < 0 else 0 for a in range(3))  # oracle reading of "crossed the plane"
        touched_of[name] = touched
        gs = tuple(s1 - s0 for s0, s1 in obj.grid_slice_tuple)
        kind = d["kind"]
        if kind == "untouched":
            ref = arr.detector_states[name]
            states[name] = {k: jx.symarr(f"{name}_{i}", np.shape(v)) for i, (k, v) in enumerate(ref.items())}
        elif kind == "field":
            states[name] = {"fields": jx.symarr(name, (T, len(_stored_components(d))) + gs)}
        elif kind == "phasor":
            states[name] = {"phasor": jx.symarr(name, (1, 1, len(_stored_components(d))) + gs, cplx=True)}
        elif kind == "energy":
            states[name] = {"energy": jx.symarr(name, (T,) + gs)}
        elif kind == "poynting":
            states[name] = {"poynting_flux": jx.symarr(name, ((T, 3) if d["kw"].get("keep_all_components") else (T,)) + gs)}
    for name, d in D.items():
        kind = d["kind"]
        if kind in ("field_rv", "phasor_rv", "energy_rv", "poynting_rv", "energy_sl"):
            key = _detector_rules(d, touched_of[name])[4]
            tw = states[d["twin"]][key]
            states[name] = _reduce_record(kind, tw)
    for name in D:
        if name.startswith("pfa_"):
            continue
        for k, v in states[name].items():
            ref = arr.detector_states[name][k]
            if tuple(np.shape(ref)) != tuple(v.shape):
                raise Inconclusive(f"harness state shape {v.shape} differs from the placed detector's state shape {np.shape(ref)} for {name}/{k}")
    c.symvars += sum(v.size for n, d in D.items() if d["kind"] in ("field", "phasor", "energy", "poynting", "untouched") for v in states[n].values())

    def fn(st):
        return unfold_detector_states(arr.aset("detector_states", st), oc2, cfg).detector_states

    t0 = time.time()
    out, tr = jx.call(fn, states)
    c.interp_s += time.time() - t0

    def concrete_states(m):
        cs = {}
        for name, d in D.items():
            if d["kind"] in ("field", "phasor", "energy", "poynting", "untouched"):
                cs[name] = {k: model_array(m, v) for k, v in states[name].items()}
        for name, d in D.items():
            if name not in cs:
                key = _detector_rules(d, touched_of[name])[4]
                cs[name] = _reduce_record(d["kind"], cs[d["twin"]][key])
        return cs

    def real_unfold(cs):
        r = fn({n: {k: jnp.asarray(v) for k, v in st.items()} for n, st in cs.items()})
        return {n: {k: np.asarray(v) for k, v in st.items()} for n, st in r.items()}

    # translator validation on one random concrete input
    rng = np.random.default_rng(c.seed + 3200)
    cs0 = {}
    for name, st in states.items():
        cs0[name] = {k: (rng.normal(size=v.shape) + (1j * rng.normal(size=v.shape) if any(isinstance(x, sc.Cx) for x in v.reshape(-1)[:1]) else 0)) for k, v in st.items()}
    want0 = real_unfold(cs0)
    got0 = tr({n: {k: jx.fracarr(v) for k, v in st.items()} for n, st in cs0.items()})
    for n in ("f_sp1", "ph_rv0", "e_sl1", "pf_rv0"):
        if n in got0:
            for k in got0[n]:
                c.validate(jx.to_numeric(got0[n][k]), want0[n][k], f"unfold_detector_states {n}/{k}")

    twin = False
    for name, d in D.items():
        kind, touched = d["kind"], touched_of[name]
        kb = f"detector:{d['cls']}:{kind}"
        o = {k: jx.lift(v) for k, v in out[name].items()}
        count = sum(1 for t in touched if t)

        def mk_replay(check, name=name):
            def replay(m):
                cs = concrete_states(m)
                got = real_unfold(cs)[name]
                res, detail = check(cs, got)
                scale = 1 + _maxabs(*[v for st in cs.values() for v in st.values()])
                return res > 1e-9 * scale, dict(detector=name, residual=res, stored={k: v for k, v in cs[name].items()}, unfolded={k: v for k, v in got.items()}, **detail)
            return replay

        if kind == "untouched" or count == 0:
            for k in o:
                if o[k].shape != states[name][k].shape:
                    c.fail_concrete(f"{name}/{k}: a detector that does not cross a symmetry plane was unfolded", dict(stored=list(states[name][k].shape), got=list(o[k].shape),
                                    grid_slice=[list(x) for x in placed[name].grid_slice_tuple], unreduced_slice=[list(x) for x in placed[name].unreduced_grid_slice_tuple], symmetry=list(sym)), key=f"{kb}:untouched")
                    continue
                c.prove_eq(f"{name}/{k}: detector not clipped by a plane => unchanged", o[k], states[name][k], (),
                           mk_replay(lambda cs, got, k=k, name=name: (float(np.max(np.abs(got[k] - cs[name][k]))) if got[k].shape == cs[name][k].shape else float("inf"), {})), key=f"{kb}:untouched")
            continue
        par, onp, cax, spax, key = _detector_rules(d, touched)
        any_on_plane = any(onp(0, a) for a in range(3) if touched[a])
        if one_cell and any_on_plane:
            gsz = [states[name][key].shape[spax[a]] for a in range(3)] if kind in ("field", "phasor", "energy", "poynting") else None
            if gsz is not None:
                want_shape = list(states[name][key].shape)
                for a in range(3):
                    if touched[a]:
                        want_shape[spax[a]] *= 2
                if list(o[key].shape) != want_shape:
                    c.fail_concrete(f"{name}/{key}: unfolded record is not doubled along the symmetric axis", dict(stored=list(states[name][key].shape), got=list(o[key].shape), want=want_shape,
                                    symmetry=list(sym), exact_interpolation=True), key=f"one-cell-on-plane:detector:{d['cls']}")
                else:
                    c.prove_eq(f"{name}/{key}: upper half == stored", upper_half(o[key], touched, spax), states[name][key], (), None, key=f"{kb}:upper-half")
            continue
        if kind in ("field", "phasor", "energy", "poynting"):
            Sx = states[name][key]
            want = oracle_unfold(Sx, touched, spax, cax, par, onp)
            if o[key].shape != want.shape:
                c.fail_concrete(f"{name}/{key}: symmetric axes are not doubled", dict(got=list(o[key].shape), want=list(want.shape)), key=f"{kb}:shape")
                continue
            rp_up = mk_replay(lambda cs, got, name=name, key=key, touched=touched, spax=spax: (float(np.max(np.abs(upper_half(got[key], touched, spax) - cs[name][key]))), {}))
            rp_map = mk_replay(lambda cs, got, name=name, key=key, touched=touched, spax=spax, cax=cax, par=par, onp=onp:
                               (float(np.max(np.abs(got[key] - oracle_unfold(cs[name][key], touched, spax, cax, par, onp)))), dict(documented=oracle_unfold(cs[name][key], touched, spax, cax, par, onp))))
            c.prove_eq(f"{name}/{key}: upper half == stored", upper_half(o[key], touched, spax), Sx, (), rp_up, key=f"{kb}:upper-half")
            c.prove_eq(f"{name}/{key}: parity and mirror index map", o[key], want, (), rp_map, key=f"{kb}:parity-map{':on-plane' if any_on_plane else ''}", chunk=4)
            if not twin and not one_cell:
                twin = c.witness(f"{name}: mirrored cell can differ from the kept corner cell", sc.ne(o[key][(0,) * o[key].ndim], Sx[(0,) * Sx.ndim]))
            continue
        if kind == "energy_sl":
            # the stored planes themselves are (T, a, b) records: even parity, mirrored along their in-plane symmetric axes
            for pk, (pa_, pb_) in _PLANES.items():
                P = states[name][pk]
                sub = tuple(touched[a] if a in (pa_, pb_) else 0 for a in range(3))
                spx = tuple({pa_: 1, pb_: 2}.get(a, 0) for a in range(3))
                wantp = oracle_unfold(P, sub, spx, None, lambda cc, a: 1, onp) if any(sub) else P
                if o[pk].shape != wantp.shape:
                    c.fail_concrete(f"{name}/{pk}: in-plane symmetric axes are not doubled", dict(got=list(o[pk].shape), want=list(wantp.shape)), key=f"{kb}:shape")
                    continue

                def check_pl(cs, got, name=name, pk=pk, sub=sub, spx=spx, onp=onp):
                    ref = oracle_unfold(cs[name][pk], sub, spx, None, lambda cc, a: 1, onp) if any(sub) else cs[name][pk]
                    return float(np.max(np.abs(got[pk] - ref))), dict(documented=ref, plane=pk)

                c.prove_eq(f"{name}/{pk}: even parity and mirror index map", o[pk], wantp, (), mk_replay(check_pl), key=f"{kb}:parity-map{':on-plane' if any_on_plane else ''}")
        # ---- reduced records: unfold(reduce(S)) == reduce(documented unfold(S)), only when nothing sits on a plane
        if any_on_plane:
            continue
        tw = d["twin"]
        Sx = states[tw][key]
        full = oracle_unfold(Sx, touched, spax, cax, par, lambda cc, a: False)
        wantd = _reduce_record(kind, full)
        for k in wantd:
            if o[k].shape != wantd[k].shape:
                c.fail_concrete(f"{name}/{k}: shape of the unfolded reduced record", dict(got=list(o[k].shape), want=list(wantd[k].shape)), key=f"{kb}:shape")
                continue

            def check(cs, got, k=k, tw=tw, key=key, kind=kind, touched=touched, spax=spax, cax=cax, par=par):
                ref = _reduce_record(kind, oracle_unfold(cs[tw][key], touched, spax, cax, par, lambda cc, a: False))[k]
                return float(np.max(np.abs(got[k] - ref))), dict(reduction_of_unfolded_spatial_record=ref, spatial_record=cs[tw][key])

            c.prove_eq(f"{name}/{k}: unfold(reduce S) == reduce(unfold S)", o[k], wantd[k], (), mk_replay(check), key=f"{kb}:reduce-consistency")
    if not one_cell and not twin:
        raise Inconclusive("vacuity twin failed")
    if one_cell:
        c.witness("twin", True)


def _reduce_record(kind, S):
    """the detector's own reduction of a spatial record (uniform grid): what the reduce_volume / as_slices variant stores."""
    nd = S.ndim
    if kind == "field_rv":  # (T, C, x, y, z) -> (T, C), mean
        return {"fields": reduce_axes(S, [2, 3, 4], mean=True)}
    if kind == "phasor_rv":  # (1, F, C, x, y, z) -> (1, F, C), mean
        return {"phasor": reduce_axes(S, [3, 4, 5], mean=True)}
    if kind == "energy_rv":  # (T, x, y, z) -> (T, 1), sum
        return {"energy": reduce_axes(S, [1, 2, 3], mean=False).reshape(S.shape[0], 1)}
    if kind == "poynting_rv":
        if nd == 5:  # (T, 3, x, y, z) -> (T, 3)
            return {"poynting_flux": reduce_axes(S, [2, 3, 4], mean=False)}
        return {"poynting_flux": reduce_axes(S, [1, 2, 3], mean=False).reshape(S.shape[0], 1)}
    if kind == "energy_sl":  # mean over the collapsed axis
        return {"XY Plane": reduce_axes(S, [3], mean=True), "XZ Plane": reduce_axes(S, [2], mean=True), "YZ Plane": reduce_axes(S, [1], mean=True)}
    raise ValueError(kind)


def _detectors_one_cell(c, case):
    """detectors two cells wide centred on an electric x-plane: the reduced record has one sample on the symmetric axis."""
    sym, h = (-1, 0, 0), 1
    full = (6, 4, 4)
    D = {}
    for ex in (True, False):
        D[f"f_sp{int(ex)}"] = dict(cls="FieldDetector", lo=(2, 1, 1), shape=(2, 2, 2), kind="field", twin=None, kw=dict(exact_interpolation=ex, reduce_volume=False))
        D[f"e_sp{int(ex)}"] = dict(cls="EnergyDetector", lo=(2, 1, 1), shape=(2, 2, 2), kind="energy", twin=None, kw=dict(exact_interpolation=ex))
    _detectors(c, dict(case, sym=list(sym), h=h, _specs=(full, D)), one_cell=True)
