"""C08 -- the solver is equivariant under cyclic relabelling of the axes (E1).

A scene description (shape, per-face boundaries and PML thickness, diagonal material tensors, dipole / plane sources
with their polarisations, raw field detectors) is relabelled x->y->z->x by the harness once and twice, each variant is
placed with the real ``place_objects``, and T forward steps with detector recording are interpreted from consistently
permuted symbolic initial fields.  The permuted outputs of the original must equal the outputs of the relabelled scene.
"""
from __future__ import annotations

import time

import jax
import jax.numpy as jnp
import numpy as np
import z3

import fdtdx
from fdtdx.fdtd.forward import forward

from .. import jx2smt as jx
from .. import sc
from ..core import Inconclusive, model_array
from ..scenes import box_detector, build_scene, dipole, plane_source

META = dict(
    functions=["fdtd.forward.forward", "core.physics.curl.curl_E/curl_H (per-axis CPML derivative mapping)", "PerfectlyMatchedLayer.step_cpml/place_on_grid",
               "core.axis.get_oriented_transverse_axes", "TFSFPlaneSource injection", "PointDipoleSource", "update_E/update_H", "FieldDetector.update (raw components)"],
    assumptions=["reals for floats; comparison up to 1e-9 relative with inputs boxed (per-orientation placement constants may differ in the last bit)",
                 "quantified: initial E, H; materials, boundaries, sources concrete but relabelled by the harness"],
    outside="co-located (interpolating) detectors (not cyclic: they co-locate onto the E_z node), non-cyclic axis permutations, T and shapes beyond the bound",
    bounds=dict(quick=dict(T=3), thorough=dict(T=5)),
)

AX = "xyz"


def pt(t):
    """relabel a per-axis 3-tuple: new[(a+1)%3] = old[a]."""
    r = [None] * 3
    for a in range(3):
        r[(a + 1) % 3] = t[a]
    return tuple(r)


def pface(f):
    side, a = f.split("_")
    return f"{side}_{AX[(AX.index(a) + 1) % 3]}"


def permute_spec(s):
    return dict(
        shape=pt(s["shape"]),
        bounds={pface(f): v for f, v in s["bounds"].items()},
        thickness={pface(f): v for f, v in s["thickness"].items()},
        eps=pt(s["eps"]), mu=pt(s["mu"]),
        eps_full=(None if s.get("eps_full") is None else tuple(tuple(s["eps_full"][(i - 1) % 3][(j - 1) % 3] for j in range(3)) for i in range(3))),
        dipoles=[dict(pos=pt(d["pos"]), pol=(d["pol"] + 1) % 3, kind=d["kind"]) for d in s["dipoles"]],
        planes=[dict(axis=(p["axis"] + 1) % 3, index=p["index"], direction=p["direction"], pol=pt(p["pol"]), az=p.get("az", 0.0), el=p.get("el", 0.0)) for p in s["planes"]],
        dets=[dict(lo=pt(d["lo"]), shape=pt(d["shape"])) for d in s["dets"]],
    )


def permF(A):
    """field array (3, x, y, z) of the original -> array of the relabelled scene."""
    A = jx.lift(A) if jx.is_obj(A) else np.asarray(A)
    return np.transpose(np.roll(A, 1, axis=0), (0, 3, 1, 2))


def permD(A):
    """FieldDetector record (t, 6, x, y, z)."""
    A = jx.lift(A) if jx.is_obj(A) else np.asarray(A)
    e, h = np.roll(A[:, :3], 1, axis=1), np.roll(A[:, 3:], 1, axis=1)
    return np.transpose(np.concatenate([e, h], axis=1), (0, 1, 4, 2, 3))


_SPECS = {
    "pml-z-dipoles": dict(shape=(4, 3, 5), bounds={"min_x": "periodic", "max_x": "periodic", "min_y": "pec", "max_y": "pmc", "min_z": "pml", "max_z": "pml"},
                          thickness={"min_z": 1, "max_z": 2}, eps=(2.0, 3.0, 1.5), mu=(1.0, 1.0, 1.0),
                          dipoles=[dict(pos=(1, 1, 2), pol=0, kind="electric"), dict(pos=(3, 0, 3), pol=2, kind="magnetic")], planes=[],
                          dets=[dict(lo=(0, 1, 2), shape=(2, 2, 1)), dict(lo=(3, 0, 1), shape=(1, 3, 3))]),
    "pml-x-plane": dict(shape=(5, 3, 2), bounds={"min_x": "pml", "max_x": "pec", "min_y": "periodic", "max_y": "periodic", "min_z": "periodic", "max_z": "periodic"},
                        thickness={"min_x": 2}, eps=(2.0, 2.0, 2.0), mu=(1.0, 1.0, 1.0),
                        dipoles=[dict(pos=(3, 1, 0), pol=1, kind="electric")], planes=[dict(axis=0, index=3, direction="-", pol=(0.0, 1.0, 0.0))],
                        dets=[dict(lo=(2, 0, 0), shape=(2, 3, 2))]),
    "mixed-walls-magnetic": dict(shape=(2, 4, 3), bounds={"min_x": "pmc", "max_x": "pec", "min_y": "pml", "max_y": "pmc", "min_z": "bloch", "max_z": "bloch"},
                                 thickness={"min_y": 1}, eps=(1.5, 2.5, 2.0), mu=(1.5, 1.25, 2.0),
                                 dipoles=[dict(pos=(0, 2, 1), pol=2, kind="electric"), dict(pos=(1, 3, 2), pol=0, kind="magnetic")], planes=[],
                                 dets=[dict(lo=(0, 1, 0), shape=(2, 2, 3))]),
}


# a TILTED plane source (azimuth / elevation are defined relative to the right-handed transverse pair of the propagation
# axis, so the same angles describe the relabelled source; seeded change C08b: wrong pair for y-propagation)
_SPECS["pml-x-tilted-plane"] = dict(_SPECS["pml-x-plane"], dipoles=[], planes=[dict(axis=0, index=3, direction="-", pol=(0.0, 1.0, 0.0), az=20.0, el=10.0)])

_SPECS["full-tensor-dipoles"] = dict(
    shape=(3, 4, 2), bounds={"min_x": "periodic", "max_x": "periodic", "min_y": "pec", "max_y": "pmc", "min_z": "periodic", "max_z": "periodic"},
    thickness={}, eps=(2.0, 2.5, 3.0), mu=(1.0, 1.0, 1.0),
    # all three off-diagonal pairs distinct: each orientation exercises a different pair of the six off-diagonal couplings
    eps_full=((2.0, 0.3, 0.1), (0.3, 2.5, 0.2), (0.1, 0.2, 3.0)),
    dipoles=[dict(pos=(1, 1, 0), pol=0, kind="electric"), dict(pos=(2, 3, 1), pol=1, kind="magnetic")], planes=[],
    dets=[dict(lo=(0, 1, 0), shape=(3, 2, 2))])


def cases(tier, seed):
    T = 3 if tier == "quick" else 5
    names = ["pml-z-dipoles", "pml-x-plane", "pml-x-tilted-plane", "full-tensor-dipoles"] if tier == "quick" else list(_SPECS)
    return [dict(name=n, T=(T if "full-tensor" not in n else min(T, 2))) for n in names]


def _build(s, T):
    if s.get("eps_full") is not None:
        return _build_with(s, T, fdtdx.Material(permittivity=tuple(tuple(r) for r in s["eps_full"])))
    return _build_with(s, T, None)


def _build_with(s, T, mat_override):
    mat = mat_override if mat_override is not None else fdtdx.Material(permittivity=tuple(s["eps"]), permeability=tuple(s["mu"])) if tuple(s["mu"]) != (1.0, 1.0, 1.0) or len(set(s["eps"])) > 1 else fdtdx.Material(permittivity=s["eps"][0])
    extra = []
    for i, d in enumerate(s["dipoles"]):
        extra.append(dipole(f"dip{i}", d["pos"], pol=d["pol"], kind=d["kind"]))
    for i, p in enumerate(s["planes"]):
        kw = {}
        if p.get("az") or p.get("el"):
            kw = dict(azimuth_angle=p.get("az", 0.0), elevation_angle=p.get("el", 0.0))
        extra.append(plane_source(f"pl{i}", p["axis"], p["index"], p["direction"], pol=list(p["pol"]), **kw))
    for i, d in enumerate(s["dets"]):
        extra.append(box_detector(fdtdx.FieldDetector, f"det{i}", d["lo"], d["shape"], dtype=jnp.float64, exact_interpolation=False))
    th = {f: 1 for f in ("min_x", "max_x", "min_y", "max_y", "min_z", "max_z")}
    th.update(s["thickness"])
    return build_scene(s["shape"], s["bounds"], thickness=th, steps=T, background=mat, extra_objects=extra)


def run_case(c, case):
    T = case["T"]
    spec = _SPECS[case["name"]]
    c.functions.update(META["functions"])
    c.bounds.update(T=T, shape=list(spec["shape"]))
    specs = [spec, permute_spec(spec), permute_spec(permute_spec(spec))]
    scenes = [_build(s, T) for s in specs]
    cplx = np.iscomplexobj(np.asarray(scenes[0]["arrays"].fields.E))
    fsh = scenes[0]["arrays"].fields.E.shape
    E, H = jx.symarr("E", fsh, cplx=cplx), jx.symarr("H", fsh, cplx=cplx)
    c.symvars += (E.size + H.size) * (2 if cplx else 1)
    ndet = len(spec["dets"])

    def mk(S):
        arr, oc, cfg, key = S["arrays"], S["objects"], S["config"], S["key"]

        def run(E, H):
            st = (jnp.asarray(0, dtype=jnp.int32), arr.aset("fields->E", E).aset("fields->H", H))
            for _ in range(T):
                st = forward(st, cfg, oc, key, True, False, True)
            return st[1].fields.E, st[1].fields.H, [st[1].detector_states[f"det{i}"]["fields"] for i in range(ndet)]
        return run

    runs = [mk(S) for S in scenes]
    jits = [jax.jit(r) for r in runs]
    ins = [(E, H)]
    for _ in range(2):
        ins.append((permF(ins[-1][0]), permF(ins[-1][1])))
    outs = []
    t0 = time.time()
    for r, (e, h) in zip(runs, ins):
        o, tr = jx.call(r, e, h)
        outs.append(o)
    c.interp_s += time.time() - t0
    rng = np.random.default_rng(c.seed)
    mkc = lambda: rng.normal(size=fsh) + (1j * rng.normal(size=fsh) if cplx else 0)
    ce, ch = mkc(), mkc()
    want = jits[0](jnp.asarray(ce), jnp.asarray(ch))
    got = jx.Traced(runs[0], (E, H))(jx.lift(ce), jx.lift(ch))
    c.validate(jx.to_numeric(got[0]), np.asarray(want[0]), "original orientation final E")
    mags = [float(np.max(np.abs(np.asarray(x)))) for x in (want[0], want[1])] + [float(np.max(np.abs(np.asarray(x)))) for x in want[2]]

    def permuted(o, k):
        e, h, d = o
        for _ in range(k):
            e, h, d = permF(e), permF(h), [permD(x) for x in d]
        return e, h, d

    for k in (1, 2):
        def replay(m, k=k):
            e0, h0 = model_array(m, E), model_array(m, H)
            ek, hk = e0, h0
            for _ in range(k):
                ek, hk = permF(ek), permF(hk)
            a = jits[0](jnp.asarray(e0), jnp.asarray(h0))
            b = jits[k](jnp.asarray(np.ascontiguousarray(ek)), jnp.asarray(np.ascontiguousarray(hk)))
            pa = permuted((np.asarray(a[0]), np.asarray(a[1]), [np.asarray(x) for x in a[2]]), k)
            worst = 0.0
            for x, y in zip([pa[0], pa[1]] + list(pa[2]), [b[0], b[1]] + list(b[2])):
                y = np.asarray(y)
                worst = max(worst, float(np.max(np.abs(x - y))) / (1e-300 + float(np.max(np.abs(y)))))
            return worst > 1e-7, dict(worst_rel_diff=worst, orientation=k)
        pe, ph, pd = permuted(outs[0], k)
        c.prove_eq(f"orientation {k}: E", outs[k][0], pe, [], replay, key=f"equivariance:E", roundoff=1e-9, scale=max(mags[0], 1e-300))
        c.prove_eq(f"orientation {k}: H", outs[k][1], ph, [], replay, key=f"equivariance:H", roundoff=1e-9, scale=max(mags[1], 1e-300))
        for i in range(ndet):
            c.prove_eq(f"orientation {k}: raw detector record {i}", outs[k][2][i], pd[i], [], replay, key=f"equivariance:detector", roundoff=1e-9, scale=max(mags[2 + i], 1e-300))
    e = [v for v in jx.lift(outs[0][0]).reshape(-1) if sc.is_symbolic_scalar(v)]
    c.witness("final field depends on the initial state", sc.ne(sc.real(e[0]), 0), [])
