"""C37 -- grid geometry helpers are exact (E2: pysym over core/grid.py).

The real methods of ``RectilinearGrid`` / ``UniformGrid`` are executed concolically.  Edge coordinates, query
coordinates, anchors, positions, spacings and the Courant factor are solver variables; cell counts, interval sizes,
the axis and the snapping rule are enumerated.  Every oracle below is written from the property text / docstrings in
one place (``_o_*`` functions) over a small two-mode algebra: mode "exact" builds a z3 formula over the symbolic
inputs (the deciding query), mode "float" evaluates the same text in exact rational arithmetic on the float64 inputs
and outputs of a concrete re-run of the real, un-stubbed code (the replay).

Stubs (module namespace of fdtdx.core.grid only): ``float/int/round`` -> pysym versions; ``np``/``jnp`` -> thin shims
that are numpy except: ``asarray`` keeps object arrays, ``round(x, 14)`` and ``sqrt`` accept symbolic numbers,
``allclose`` is its documented formula.  The edge arrays of a symbolic grid reach the methods in two ways:
(i) through the real ``__post_init__`` (cases ``construct-*``, ``uniform-resolve-*``, the grid returned by
``reduce_symmetric``), which proves that the stored edges / widths / minima are what the oracle says, and (ii) by
injecting the edge arrays and ``np.diff`` widths into an instance built by the real constructor (all other cases).
"""
from __future__ import annotations

from fractions import Fraction

import numpy as np
import z3

from .. import pysym
from ..core import Inconclusive, model_value
from ..pysym import SymBool, SymNum, fresh_real

META = dict(
    functions=["RectilinearGrid.__post_init__", "RectilinearGrid.coord_to_index", "RectilinearGrid.length_to_cell_count",
               "RectilinearGrid.bounds_for_center", "RectilinearGrid.bounds_for_anchor", "RectilinearGrid.anchor_coordinate",
               "RectilinearGrid.axis_extent", "RectilinearGrid.slice_extent", "RectilinearGrid.face_area", "RectilinearGrid.cell_volume",
               "RectilinearGrid.centers", "RectilinearGrid.subgrid", "RectilinearGrid.cfl_time_step", "RectilinearGrid.is_uniform/uniform_spacing/min_spacing(s)",
               "RectilinearGrid.reduce_symmetric", "RectilinearGrid.uniform", "UniformGrid.resolve", "UniformGrid.coord_to_index",
               "UniformGrid.length_to_cell_count", "UniformGrid.bounds_for_center", "UniformGrid.bounds_for_anchor", "UniformGrid.anchor_coordinate",
               "UniformGrid.axis_extent", "UniformGrid.face_area", "UniformGrid.cell_volume", "SimulationConfig.time_step_duration",
               "core.misc.validate_symmetric_axis_cells"],
    assumptions=["reals instead of floats: float(), np.round(spacing, 14) and dtype conversion are identities; the dtype round-off floor of the uniformity test (8*eps*max|edge|) is 0",
                 "edges strictly increasing (non-increasing edges: only the ValueError is checked)",
                 "lower/upper snapping: coordinate inside [first edge, last edge]",
                 "ties (two equally near edges / intervals) may be resolved either way",
                 "constants that are floats in the source (c, sqrt(3), 0.5, 1e-4) are their exact rational values; the CFL bound is demanded up to a relative 1e-9",
                 "uniformity detection is pinned down except for a relative 1e-9 band around the documented 1e-4 tolerance edge (the source evaluates it in floats)",
                 "CFL bound: proved per regime of the uniformity predicate; on the square-root branch the proof is staged (minima, sqrt argument, dt*c*S = cf, S > 0, plus an algebraic lemma); the all-symbolic cases repeat it at two seeded width sets",
                 "UniformGrid nearest-interval obligations: the two rounded quantities are not within 1e-3 of a rounding tie",
                 "cases other than construct-*/uniform-resolve-*: edge arrays and np.diff widths injected into an instance built by the real constructor (the construct-* cases prove that is what __post_init__ stores)"],
    outside="cell counts beyond the bound; QuasiUniformGrid; float round-off (near-ties); calculate_time_offset_yee, polygon masks",
    bounds=dict(quick=dict(cells_symbolic_axis="1..4", sizes="every interval size -1..n+1", axes="rotating", construct="one symbolic axis n<=3, 1x1x1 all symbolic", measure="2x2x2 all symbolic, 5 boxes"),
                thorough=dict(cells_symbolic_axis="1..5", sizes="every interval size -1..n+1", axes="all", construct="one symbolic axis n<=4, all symbolic up to 2x1x2", measure="2x2x2, 3x2x1, 1x2x3")),
    timeout_ms=dict(quick=30000, thorough=120000),
)

C0 = 299792458.0
OTHER = [np.array([-1.0, 0.25, 0.75, 2.5, 3.0, 5.5, 6.0, 6.5]), np.array([0.0, 1.5, 2.0, 4.5, 5.0, 7.5, 8.0, 9.25, 10.0])]


def cases(tier, seed):
    out = []
    th = tier != "quick"
    ns = [1, 2, 3, 4, 5] if th else [1, 2, 3, 4]
    for n in ns:
        for ax in range(3):
            if not th and ax != n % 3:
                continue
            out.append(dict(name=f"snap-n{n}-ax{ax}", kind="snap", n=n, ax=ax))
            out.append(dict(name=f"center-n{n}-ax{ax}", kind="center", n=n, ax=ax))
            out.append(dict(name=f"anchor-n{n}-ax{ax}", kind="anchor", n=n, ax=ax))
    for n, ax in ([(n, ax) for n in (1, 2, 3, 4) for ax in range(3)] if th else [(1, 2), (2, 0), (3, 1)]):
        out.append(dict(name=f"construct-n{n}-ax{ax}", kind="construct", shape=[n if a == ax else 0 for a in range(3)], cfl=n <= 3))
    # the other two axes concrete and exactly uniform (spacing 1): uniformity then hinges on the symbolic axis
    for n, ax in ([(n, ax) for n in (1, 2, 3) for ax in range(3)] if th else [(2, 1), (1, 0)]):
        out.append(dict(name=f"construct-n{n}-ax{ax}-u", kind="construct", shape=[n if a == ax else -1 for a in range(3)]))
    for shape in ([[1, 1, 1], [2, 1, 1]] if th else [[1, 1, 1]]):
        out.append(dict(name="construct-" + "x".join(map(str, shape)), kind="construct", shape=shape))
    if th:
        out.append(dict(name="construct-1x1x1-excess", kind="construct", shape=[1, 1, 1], only="near-uniform-weak"))
        for shape in ([1, 2, 1], [1, 1, 2], [2, 1, 2]):
            out.append(dict(name="construct-" + "x".join(map(str, shape)) + "-fields", kind="construct", shape=shape, cfl=False))
    out.append(dict(name="construct-bad-edges", kind="badedges"))
    for shape in ([[2, 2, 2], [3, 2, 1], [1, 2, 3]] if th else [[2, 2, 2]]):
        out.append(dict(name="measure-" + "x".join(map(str, shape)), kind="measure", shape=shape))
    for n in ([2, 3, 4, 6] if th else [2, 3, 4]):
        for ax in range(3):
            if (not th and ax != n % 3) or (n == 6 and ax == 0):
                continue
            out.append(dict(name=f"reduce-sym-n{n}-ax{ax}", kind="reduce", n=n, ax=ax))
    out.append(dict(name="uniform-snap", kind="usnap"))
    out.append(dict(name="uniform-intervals", kind="uint", sizes=[1, 2, 3, 4] if th else [1, 2, 3]))
    out.append(dict(name="uniform-measure", kind="umeasure"))
    for shape in ([[2, 1, 3], [4, 2, 2]] if th else [[2, 1, 3]]):
        out.append(dict(name="uniform-resolve-" + "x".join(map(str, shape)), kind="uresolve", shape=shape))
    return out


# ------------------------------------------------------------------------------------------------ stubs
def _is_sym(x):
    return isinstance(x, (SymNum, SymBool))


def _has_sym(x):
    if _is_sym(x):
        return True
    if isinstance(x, np.ndarray):
        return x.dtype == object and any(_is_sym(v) for v in x.reshape(-1))
    if isinstance(x, (list, tuple)):
        return any(_has_sym(v) for v in x)
    if isinstance(x, dict):
        return any(_has_sym(v) for v in x.values())
    return False


def _objarr(x):
    if isinstance(x, np.ndarray):
        return x
    a = np.empty(len(x), dtype=object)
    for i, v in enumerate(x):
        a[i] = v
    return a


_SQRT_LOG = []


class _NpShim:
    """numpy, except where the analysed module would force symbolic numbers into float arrays."""

    def __getattr__(self, k):
        return getattr(np, k)

    @staticmethod
    def asarray(x, *a, **k):
        if _has_sym(x):
            return _objarr(x)
        return np.asarray(x, *a, **k)

    @staticmethod
    def round(x, decimals=0):
        if isinstance(x, SymNum):
            return x  # reals: rounding a spacing to 14 decimals is a float clean-up (stated assumption)
        return np.round(x, decimals)

    @staticmethod
    def sqrt(x):
        if isinstance(x, SymNum):
            r = pysym.sym_sqrt(x)
            _SQRT_LOG.append((x, r))  # harness-side record of (argument, root) pairs, used to stage the CFL proof
            return r
        return np.sqrt(x)


class _JnpShim(_NpShim):
    @staticmethod
    def allclose(a, b, rtol=1e-5, atol=1e-8):
        if not (_has_sym(a) or _has_sym(b)):
            return np.allclose(a, b, rtol=rtol, atol=atol)
        r = True
        for x, y in zip(np.asarray(a).reshape(-1), np.asarray(b).reshape(-1)):
            r = r & (abs(x - y) <= atol + rtol * abs(y))  # numpy's documented formula
        return r


class _Stubs:
    def __init__(self):
        import fdtdx.core.grid as G

        self.G = G
        self.cm = pysym.stub_module(G, float=pysym.symfloat, int=pysym.symint, round=pysym.symround, np=_NpShim(), jnp=_JnpShim())
        self.on = False

    def __enter__(self):
        self.cm.__enter__()
        self.on = True
        return self

    def __exit__(self, *a):
        self.cm.__exit__(*a)
        self.on = False

    def real(self, f):
        """run f() against the un-stubbed module (replays)."""
        was = self.on
        if was:
            self.__exit__()
        try:
            return f()
        finally:
            if was:
                self.__enter__()


# ------------------------------------------------------------------------------------------------ two-mode algebra
class Alg:
    """exact: z3 formulas over z3 terms; float: exact rational evaluation on concrete numbers with slack ``tol``."""

    def __init__(self, exact, tol=0):
        self.exact, self.tol = exact, Fraction(tol)

    def n(self, x):
        if self.exact:
            return x if isinstance(x, z3.ExprRef) else pysym.term(x)
        if isinstance(x, Fraction):
            return x
        if isinstance(x, (int, np.integer)):
            return Fraction(int(x))
        return Fraction(float(x))

    def real(self, x):
        x = self.n(x)
        return z3.ToReal(x) if self.exact and z3.is_int(x) else x

    def le(self, a, b):
        a, b = self.n(a), self.n(b)
        return a <= b if self.exact else a <= b + self.tol

    def lt(self, a, b):
        a, b = self.n(a), self.n(b)
        return a < b if self.exact else a < b + self.tol

    def eq(self, a, b):
        a, b = self.n(a), self.n(b)
        return a == b if self.exact else abs(a - b) <= self.tol

    def abs(self, a):
        a = self.n(a)
        return z3.If(a >= 0, a, -a) if self.exact else abs(a)

    def min(self, xs):
        xs = [self.n(x) for x in xs]
        r = xs[0]
        for x in xs[1:]:
            r = z3.If(x < r, x, r) if self.exact else min(r, x)
        return r

    def _b(self, p):
        if isinstance(p, SymBool):
            return p.t
        return z3.BoolVal(bool(p)) if not isinstance(p, z3.ExprRef) else p

    def all(self, ps):
        ps = list(ps)
        return z3.And(*[self._b(p) for p in ps]) if self.exact else all(bool(p) for p in ps)

    def any(self, ps):
        ps = list(ps)
        return z3.Or(*[self._b(p) for p in ps]) if self.exact else any(bool(p) for p in ps)

    def implies(self, p, q):
        return z3.Implies(self._b(p), self._b(q)) if self.exact else ((not p) or bool(q))

    def false(self):
        return z3.BoolVal(False) if self.exact else False

    def true(self):
        return z3.BoolVal(True) if self.exact else True


AZ = Alg(True)


def _map(v, f):
    if isinstance(v, dict):
        return {k: _map(x, f) for k, x in v.items()}
    if isinstance(v, (list, tuple)):
        return [_map(x, f) for x in v]
    if isinstance(v, np.ndarray) and v.dtype == object:
        return [_map(x, f) for x in v]
    return f(v)


def _nice(v):
    """all concrete inputs are small dyadic rationals: the few float operations of the real code are then exact and a
    disagreement with the exact oracle is not round-off."""
    ok = [True]

    def chk(x):
        if isinstance(x, (float, np.floating)):
            f = Fraction(float(x))
            if f.denominator & (f.denominator - 1) or f.denominator > 2**20 or abs(f) > 2**20:
                ok[0] = False
        return x

    _map(v, chk)
    return ok[0]


def _scale(v):
    s = [1.0]
    _map(v, lambda x: s.append(abs(float(x))) if isinstance(x, (int, float, np.floating, np.integer)) and not isinstance(x, bool) else None)
    return max(s)


def _tofloat(x):
    if isinstance(x, (str, bool, type(None))):
        return x
    if isinstance(x, dict):
        return {k: _tofloat(v) for k, v in x.items()}
    if isinstance(x, (int, np.integer)):
        return int(x)
    if isinstance(x, (float, np.floating)):
        return float(x)
    try:
        a = np.asarray(x)
        if a.dtype != object:
            return a.tolist()
    except Exception:  # noqa: BLE001
        pass
    if isinstance(x, (list, tuple)):
        return [_tofloat(v) for v in x]
    return repr(x)


def check(c, st, name, key, inputs, assume, call, oracle, max_paths=4000):
    """explore ``call(inputs)`` over all feasible paths; per path prove ``oracle(AZ, inputs, result, exception)``."""

    def fn():
        return call(inputs)

    def post(res, exc):
        return oracle(AZ, _map(inputs, lambda x: x.t if _is_sym(x) else x), res, exc)

    def replay(m):
        conc = _map(inputs, lambda x: model_value(m, x.t) if _is_sym(x) else x)
        res = exc = None
        try:
            res = st.real(lambda: call(conc))
        except Exception as e:  # noqa: BLE001
            exc = e
        detail = dict(inputs=_tofloat(conc), result=_tofloat(res), raised=repr(exc) if exc is not None else None)
        if bool(oracle(Alg(False, 0), conc, res, exc)):
            return False, detail
        if bool(oracle(Alg(False, 1e-9 * _scale(conc)), conc, res, exc)) and not _nice(conc):
            raise Inconclusive(f"witness is a near-tie that float round-off may decide: {detail}")
        return True, detail

    return _explore(c, name, fn, post, assume, replay, key, max_paths)


def _conjuncts(f):
    if isinstance(f, SymBool):
        f = f.t
    if isinstance(f, z3.ExprRef) and z3.is_and(f):
        return [g for ch in f.children() for g in _conjuncts(ch)]
    return [f]


class FastExplorer(pysym.Explorer):
    """pysym.Explorer that skips the second feasibility query of a branch when the first side is infeasible: the path
    condition is satisfiable (invariant; the assumptions are shown satisfiable by the vacuity twins), so the other
    side is feasible.  Matters for ``x / (c*sqrt(a))``: "c*sqrt(a) != 0 is satisfiable" needs a nonlinear model
    (seconds, erratic), "c*sqrt(a) == 0 is unsatisfiable" is immediate."""

    def branch(self, cond):
        cond = z3.simplify(cond)
        if z3.is_true(cond):
            return True
        if z3.is_false(cond):
            return False
        if len(self.decisions) < len(self.prefix):
            return super().branch(cond)
        r1, _ = self._sat([cond])
        if r1 == z3.unsat:
            feas = [False]
        else:
            r2, _ = self._sat([z3.Not(cond)])
            feas = [True] + ([False] if r2 != z3.unsat else [])
        d = feas[0]
        for other in feas[1:]:
            self.todo.append(self.decisions + [other])
        self.decisions.append(d)
        self.pc.append(cond if d else z3.Not(cond))
        return d


def _explore(c, name, fn, post, assume, replay, key, max_paths):
    """Case.sym_explore, except that a conjunctive post-condition is proved conjunct by conjunct (small queries; a
    conjunction of linear and nonlinear facts in one query sent z3 astray)."""
    ex = FastExplorer(assume, max_paths=max_paths, timeout_ms=c.timeout_ms)

    def on_path(res, exc, pc):
        parts = _conjuncts(post(res, exc))
        hard = [p for p in parts if not (isinstance(p, (bool, np.bool_)) and p)]
        if not hard:
            hard = [True]
        hard = [p for p in hard if not (isinstance(p, z3.ExprRef) and z3.is_true(z3.simplify(p)))] or [True]
        for k, p in enumerate(hard):
            c.prove(f"{name}#path{ex.paths}" + (f".{k}" if len(hard) > 1 else ""), p, pc, replay, key)

    try:
        ex.explore(fn, on_path)
    except pysym.Budget as b:
        c.inconclusive.append(f"{c.name}/{name}: exploration budget: {b}")
    c.paths += ex.paths
    c.queries += ex.queries
    c.solver_s += ex.solver_s
    c.extra.setdefault("concretisations", 0)
    c.extra["concretisations"] += ex.concretisations
    if ex.unknown:
        c.notes.append(f"{name}: {ex.unknown} feasibility queries were 'unknown' (both sides explored)")
    return ex


# ------------------------------------------------------------------------------------------------ grids
def _grid(G, edges3):
    """RectilinearGrid over three edge lists.  Concrete: the real constructor.  Symbolic: instance from the real
    constructor on placeholder edges of the same lengths, then edge arrays / np.diff widths injected (see module doc)."""
    if not _has_sym(edges3):
        return G.RectilinearGrid(x_edges=np.asarray(edges3[0], dtype=np.float64), y_edges=np.asarray(edges3[1], dtype=np.float64),
                                 z_edges=np.asarray(edges3[2], dtype=np.float64))
    g = G.RectilinearGrid(x_edges=np.arange(len(edges3[0]), dtype=np.float64), y_edges=np.arange(len(edges3[1]), dtype=np.float64),
                          z_edges=np.arange(len(edges3[2]), dtype=np.float64))
    arrs = [_objarr(list(e)) if _has_sym(e) else np.asarray(e, dtype=np.float64) for e in edges3]
    for nm, a in zip(("x_edges", "y_edges", "z_edges"), arrs):
        object.__setattr__(g, nm, a)
    object.__setattr__(g, "_cell_widths", tuple(np.diff(a) for a in arrs))
    return g


def _sym_edges(prefix, n):
    es = [fresh_real(f"{prefix}{i}")[0] for i in range(n + 1)]
    return es, [es[i + 1].t > es[i].t for i in range(n)]


def _edges3(ax, es):
    oth = iter(OTHER)
    return [es if a == ax else list(next(oth)) for a in range(3)]


def _val_err(exc):
    return isinstance(exc, ValueError)


# ------------------------------------------------------------------------------------------------ oracles (from the property text)
def _o_snap(A, e, coord, snap, res, exc):
    """nearest: no edge is nearer; lower: the last edge <= coord; upper: the first edge >= coord."""
    if snap not in ("nearest", "lower", "upper"):
        return _val_err(exc)
    if exc is not None:
        return A.false()
    n = len(e) - 1
    if _is_sym(res):
        return A.false()  # an index must come back concrete here
    i = int(res)
    if not 0 <= i <= n:
        return A.false()
    if snap == "nearest":
        return A.all(A.le(A.abs(e[i] - coord), A.abs(e[j] - coord)) for j in range(n + 1))
    if snap == "lower":
        return A.all([A.le(e[i], coord)] + ([A.lt(coord, e[i + 1])] if i < n else []))
    return A.all([A.le(coord, e[i])] + ([A.lt(e[i - 1], coord)] if i > 0 else []))


def _o_interval(A, e, size, anchor_of, target, res, exc):
    """size-preserving in-grid interval whose anchor (a function of its two end edges) is nearest to the target;
    non-positive or too large sizes are rejected."""
    n = len(e) - 1
    if size <= 0 or size > n:
        return _val_err(exc)
    if exc is not None:
        return A.false()
    lo, hi = int(res[0]), int(res[1])
    if hi - lo != size or lo < 0 or hi > n:
        return A.false()
    d = A.abs(anchor_of(e[lo], e[hi]) - target)
    return A.all(A.le(d, A.abs(anchor_of(e[l], e[l + size]) - target)) for l in range(n - size + 1))


def _anchor_point(A, lo_edge, hi_edge, p):
    """-1 lower side, 0 centre, +1 upper side, affine in between."""
    return ((1 - p) * lo_edge + (1 + p) * hi_edge) / 2


# ------------------------------------------------------------------------------------------------ cases
def run_case(c, case):
    st = _Stubs()
    G = st.G
    c.functions.update(META["functions"])
    with st:
        globals()["_case_" + case["kind"]](c, st, G, case)


def _case_snap(c, st, G, case):
    n, ax = case["n"], case["ax"]
    es, inc = _sym_edges("e", n)
    coord, _ = fresh_real("coord")
    length, _ = fresh_real("len")
    c.symvars += n + 3
    inside = [coord.t >= es[0].t, coord.t <= es[-1].t]
    for snap in ("nearest", "lower", "upper", "middle"):
        check(c, st, f"coord_to_index[{snap}]", f"RectilinearGrid.coord_to_index:{snap}", dict(e=es, coord=coord),
              inc + (inside if snap in ("lower", "upper") else []),
              lambda v, snap=snap: _grid(G, _edges3(ax, v["e"])).coord_to_index(ax, v["coord"], snap=snap),
              lambda A, v, res, exc, snap=snap: _o_snap(A, v["e"], v["coord"], snap, res, exc))
    for snap in ("nearest", "upper", "lower"):
        def oracle(A, v, res, exc, snap=snap):
            if not A.exact and v["len"] < 0:
                return _val_err(exc)
            if A.exact and exc is not None:
                return A.all([_val_err(exc), v["len"] < 0])
            return A.all([A.le(0, v["len"]), _o_snap(A, v["e"], v["e"][0] + v["len"], snap, res, exc)])

        check(c, st, f"length_to_cell_count[{snap}]", f"RectilinearGrid.length_to_cell_count:{snap}", dict(e=es, len=length),
              inc + [length.t <= es[-1].t - es[0].t],
              lambda v, snap=snap: _grid(G, _edges3(ax, v["e"])).length_to_cell_count(ax, v["len"], snap=snap), oracle)
    c.witness("twin: a coordinate can be strictly nearest to the last edge and another to the first",
              z3.And(coord.t > es[-1].t, length.t < 0), inc)


def _case_center(c, st, G, case):
    n, ax = case["n"], case["ax"]
    es, inc = _sym_edges("e", n)
    ctr, _ = fresh_real("center")
    c.symvars += n + 2
    for size in range(-1, n + 2):
        check(c, st, f"bounds_for_center[size={size}]", "RectilinearGrid.bounds_for_center", dict(e=es, center=ctr), inc,
              lambda v, size=size: _grid(G, _edges3(ax, v["e"])).bounds_for_center(ax, v["center"], size),
              lambda A, v, res, exc, size=size: _o_interval(A, v["e"], size, lambda a, b: (a + b) / 2, v["center"], res, exc))
    c.witness("twin: the requested centre can lie outside the grid", z3.And(ctr.t < es[0].t), inc)


def _case_anchor(c, st, G, case):
    n, ax = case["n"], case["ax"]
    es, inc = _sym_edges("e", n)
    anc, _ = fresh_real("anchor")
    pos, pc = fresh_real("position", -1, 1)
    c.symvars += n + 3
    for size in range(-1, n + 2):
        check(c, st, f"bounds_for_anchor[size={size}]", "RectilinearGrid.bounds_for_anchor", dict(e=es, anchor=anc, position=pos), inc + pc,
              lambda v, size=size: _grid(G, _edges3(ax, v["e"])).bounds_for_anchor(ax, size, v["anchor"], v["position"]),
              lambda A, v, res, exc, size=size: _o_interval(A, v["e"], size, lambda a, b: _anchor_point(A, a, b, v["position"]), v["anchor"], res, exc))
    for lo in range(n + 1):
        for hi in range(lo, n + 1):
            def oracle(A, v, res, exc, lo=lo, hi=hi):
                if exc is not None:
                    return A.false()
                return A.eq(res, _anchor_point(A, v["e"][lo], v["e"][hi], v["position"]))

            check(c, st, f"anchor_coordinate[{lo},{hi}]", "RectilinearGrid.anchor_coordinate", dict(e=es, position=pos), inc + pc,
                  lambda v, lo=lo, hi=hi: _grid(G, _edges3(ax, v["e"])).anchor_coordinate(ax, (lo, hi), v["position"]), oracle)
            if hi > lo:
                # round trip: the interval is recovered from its own anchor
                def call(v, lo=lo, hi=hi):
                    g = _grid(G, _edges3(ax, v["e"]))
                    return g.bounds_for_anchor(ax, hi - lo, g.anchor_coordinate(ax, (lo, hi), v["position"]), v["position"])

                check(c, st, f"anchor round trip[{lo},{hi}]", "RectilinearGrid.bounds_for_anchor:round-trip", dict(e=es, position=pos), inc + pc, call,
                      lambda A, v, res, exc, lo=lo, hi=hi: exc is None and (int(res[0]), int(res[1])) == (lo, hi))
    c.witness("twin: position strictly between the sides", z3.And(pos.t > -1, pos.t < 1, pos.t != 0), inc + pc)


def _uniformity(A, e3):
    """documented uniformity test: every width within a relative 1e-4 of the first x width, plus a round-off floor
    8*eps*max|edge| per float axis (none for a symbolic axis: reals).  Returns (tight, loose): the predicate must be
    True when ``tight`` holds and may only be True when ``loose`` holds (a relative 1e-9 band around the edge is left
    open: the source evaluates the test in floats)."""
    w3 = [[e[i + 1] - e[i] for i in range(len(e) - 1)] for e in e3]
    s = w3[0][0]
    rt = Fraction(1e-4)  # the float literal of the source, exactly
    band = Fraction(1, 10**9)
    tight, loose = [], []
    for e, ws in zip(e3, w3):
        symbolic = A.exact and any(isinstance(x, z3.ExprRef) for x in e)
        floor = Fraction(0) if symbolic else 16 * Fraction(2) ** -52 * max(abs(Fraction(float(x))) for x in e)
        for w in ws:
            tight.append(A.le(A.abs(w - s), A.n(rt * (1 - band)) * s))
            loose.append(A.le(A.abs(w - s), A.n(rt * (1 + band)) * s + A.n(floor)))
    return A.all(tight), A.all(loose)


def _o_construct(A, v, res, exc):
    """stored edges are the inputs; widths are edge differences; per-axis minimum; uniformity = every width within the
    documented relative 1e-4 of the first x width; uniform_spacing raises iff not uniform; CFL bound."""
    e3 = v["e"]
    if exc is not None:
        return A.false()
    w3 = [[e[i + 1] - e[i] for i in range(len(e) - 1)] for e in e3]
    cl = []
    for a in range(3):
        cl += [A.eq(x, y) for x, y in zip(res["edges"][a], e3[a])]
        cl.append(len(res["edges"][a]) == len(e3[a]))
        cl += [A.eq(x, y) for x, y in zip(res["widths"][a], w3[a])]
        cl.append(len(res["widths"][a]) == len(w3[a]))
        cl.append(A.eq(res["mins"][a], A.min(w3[a])))
    cl.append(tuple(res["shape"]) == tuple(len(e) - 1 for e in e3))
    cl.append(A.eq(res["min"], A.min([w for ws in w3 for w in ws])))
    s = w3[0][0]
    tight, loose = _uniformity(A, e3)
    if A.exact:
        got = A._b(res["is_uniform"])
        cl += [z3.Implies(tight, got), z3.Implies(got, loose)]
    else:
        cl.append((bool(loose) or not res["is_uniform"]) and (not tight or bool(res["is_uniform"])))
    isu = res["is_uniform"]
    if res["uniform_spacing"] is None:
        cl.append(A.implies(isu, A.false()) if A.exact else not isu)
    else:
        cl.append(A.all([isu, A.eq(res["uniform_spacing"], s)]) if A.exact else (bool(isu) and abs(Fraction(float(res["uniform_spacing"])) - s) <= Fraction(1, 10**13) + A.tol))
    return A.all(cl)


def _o_cfl(A, v, res, exc, slack):
    """c * dt * sqrt(sum_a 1/min_a^2) <= courant_factor (up to relative ``slack``), dt > 0."""
    if exc is not None:
        return A.false()
    e3, cf = v["e"], v["cf"]
    mins = [A.min([e[i + 1] - e[i] for i in range(len(e) - 1)]) for e in e3]
    dt = A.real(res["dt"])
    c0 = A.n(Fraction(C0))
    if A.exact and len(res.get("sqrt", ())) == 1:
        # staged proof for the branch that takes a square root (one direct query mixing the edge inequalities with
        # the quartic bound made z3's run time erratic): with a = sqrt argument and S = root of the real run,
        #   (1) the code's per-axis minima are the true minima      (2) a = sum 1/min^2
        #   (3) dt*c*S = courant_factor                             (4) S > 0
        # and the lemma "(3), (4), S^2 = a  =>  dt > 0 and (dt*c)^2 * a <= cf^2" is proved once per case (_cfl_lemma).
        a, S = A.n(res["sqrt"][0][0]), A.n(res["sqrt"][0][1])
        cm = [A.n(x) for x in res["mins"]]
        return A.all([A.eq(x, y) for x, y in zip(cm, mins)] + [A.eq(a, sum(1 / (m * m) for m in cm)), A.eq(dt * c0 * S, cf), A.lt(0, S), A.eq(S * S, a)])
    inv = sum(1 / (m * m) for m in mins)
    bound = (cf * (1 + A.n(Fraction(slack)))) if not isinstance(slack, int) else cf * (1 + slack)
    return A.all([A.lt(0, dt), A.le(dt * dt * c0 * c0 * inv, bound * bound)])


def _case_construct(c, st, G, case):
    shape = case["shape"]
    oth = iter(OTHER)
    e3, assume = [], []
    for a, n in enumerate(shape):
        if n == 0:
            e3.append(list(next(oth)))
        elif n < 0:
            e3.append([float(i) for i in range(-3, 4 + len(e3))])  # 7 / 8 unit cells
        else:
            es, inc = _sym_edges("xyz"[a], n)
            e3.append(es)
            assume += inc
            c.symvars += n + 1
    cf, ccf = fresh_real("courant", 0, 1, lo_strict=True)
    c.symvars += 1

    def build(v):
        if _has_sym(v["e"]):
            return G.RectilinearGrid(x_edges=_NpShim.asarray(v["e"][0]), y_edges=_NpShim.asarray(v["e"][1]), z_edges=_NpShim.asarray(v["e"][2]))
        return _grid(G, v["e"])

    def call(v):
        g = build(v)
        try:
            us = g.uniform_spacing
        except ValueError:
            us = None
        return dict(edges=[list(np.asarray(g.edges(a))) for a in range(3)], widths=[list(np.asarray(g.cell_widths(a))) for a in range(3)],
                    mins=list(g.min_spacings), min=g.min_spacing, shape=g.shape, is_uniform=g.is_uniform, uniform_spacing=us)

    def call_cfl(v):
        g = build(v)
        del _SQRT_LOG[:]
        dt = g.cfl_time_step(v["cf"])
        return dict(dt=dt, sqrt=list(_SQRT_LOG), mins=list(g.min_spacings))

    # lemma closing the staged CFL proof of _o_cfl (fresh variables: holds for every run)
    ldt, lc, lS, lcf, la = z3.Reals("lemma_dt lemma_c lemma_S lemma_cf lemma_a")
    c.prove("lemma: dt*c*S = cf, S > 0, S^2 = a, cf > 0, c > 0  =>  dt > 0 and (dt*c)^2*a <= cf^2", z3.And(ldt > 0, ldt * ldt * lc * lc * la <= lcf * lcf),
            [ldt * lc * lS == lcf, lS > 0, lS * lS == la, lcf > 0, lc > 0])

    inputs = dict(e=e3, cf=cf)
    only = case.get("only")
    c.witness("twin: strictly increasing edges", z3.BoolVal(True), assume + ccf)
    if only is None:
        check(c, st, "post_init", "RectilinearGrid.__post_init__", inputs, assume + ccf, call, _o_construct)
    if not case.get("cfl", True):
        return
    # the CFL bound as stated (relative 1e-9 for the float constants), by regime of the (oracle-side) uniformity predicate
    terms = _map(e3, lambda x: x.t if _is_sym(x) else x)
    ws = [pysym.term(e[i + 1]) - pysym.term(e[i]) for e in terms for i in range(len(e) - 1)]
    _, uni = _uniformity(AZ, terms)
    exact = z3.And(*[w == ws[0] for w in ws])
    tight, loose = Fraction(1, 10**9), Fraction(1001, 10**7)
    regimes = [("widths not uniform within 1e-4", [z3.Not(uni)], "metric-branch", tight)]
    if all(n != 0 for n in shape):
        regimes += [("exactly uniform", [exact], "exactly-uniform", tight),
                    ("uniform within 1e-4, bound up to 1.001e-4", [uni], "near-uniform-weak", loose)]
        # (removed) a strict regime "uniform within 1e-4 => bound within 1e-6": a grid whose widths agree within the documented
        # 1e-4 uniformity tolerance is *defined* to be uniform and takes the documented courant_factor/sqrt(3)*spacing step, so
        # its step can exceed the minimum-width bound by that same 1e-4.  Demanding more asked for more than the statement
        # (uniform detection "as documented"); the 1.001e-4 bound above is what is proved.  (harness correction, DESIGN 8.4)
    if all(n > 0 for n in shape):
        # the same obligation at two seeded width sets (a stated concretisation, cf symbolic): keeps the refutation direction
        # decidable (a wrong formula gives a one-variable query instead of a quartic in seven unknowns)
        for tag, qs in (("large", [2, 3, 5, 7, 11, 13]), ("small", [Fraction(1, 2), Fraction(1, 3), Fraction(1, 5), Fraction(1, 7), Fraction(1, 11), Fraction(1, 13)])):
            regimes.append((f"seeded {tag} widths", [w == z3.RealVal(q) for w, q in zip(ws, qs)], "metric-branch", tight))
    # the "weak" regime only quantifies the excess of the near-uniform finding (slow nonlinear query): its own thorough case
    regimes = [r for r in regimes if (r[2] == only if only else r[2] != "near-uniform-weak")]
    for nm, extra, ksfx, slack in regimes:
        c.witness(f"twin: regime '{nm}' is inhabited", z3.And(*extra), assume + ccf)
        check(c, st, f"cfl_time_step[{nm}]", f"RectilinearGrid.cfl_time_step:{ksfx}", inputs, assume + ccf + extra, call_cfl,
              lambda A, v, res, exc, slack=slack: _o_cfl(A, v, res, exc, slack))


def _case_badedges(c, st, G, case):
    """edges that are not strictly increasing are rejected with ValueError; strictly increasing ones are accepted."""
    for n in (1, 2, 3):
        es = [fresh_real(f"e{i}")[0] for i in range(n + 1)]
        c.symvars += n + 1
        for ax in range(3):
            def call(v, ax=ax):
                e3 = _edges3(ax, v["e"])
                if _has_sym(e3):
                    return G.RectilinearGrid(x_edges=_NpShim.asarray(e3[0]), y_edges=_NpShim.asarray(e3[1]), z_edges=_NpShim.asarray(e3[2]))
                return _grid(G, e3)

            def oracle(A, v, res, exc):
                inc = A.all(A.lt(v["e"][i], v["e"][i + 1]) for i in range(len(v["e"]) - 1))
                if exc is not None:
                    if not _val_err(exc):
                        return A.false()
                    return z3.Not(inc) if A.exact else not all(v["e"][i] < v["e"][i + 1] for i in range(len(v["e"]) - 1))
                return inc if A.exact else all(v["e"][i] < v["e"][i + 1] for i in range(len(v["e"]) - 1))

            check(c, st, f"strictly increasing[n={n},ax={ax}]", "RectilinearGrid.__post_init__:monotone", dict(e=es), [], call, oracle)
    c.witness("twin: a decreasing pair exists", es[1].t < es[0].t, [])


def _case_measure(c, st, G, case):
    shape = case["shape"]
    e3, assume = [], []
    for a, n in enumerate(shape):
        es, inc = _sym_edges("xyz"[a], n)
        e3.append(es)
        assume += inc
        c.symvars += n + 1
    inputs = dict(e=e3)
    rng = np.random.default_rng(c.seed + 37)
    boxes = [tuple((0, n) for n in shape)]
    for _ in range(3):
        b = []
        for n in shape:
            lo = int(rng.integers(0, n))
            b.append((lo, int(rng.integers(lo + 1, n + 1))))
        boxes.append(tuple(b))
    boxes.append(tuple((n - 1, n) for n in shape))  # one cell: also used for subgrid (which re-runs __post_init__)

    def W(v, a, i):
        return v["e"][a][i + 1] - v["e"][a][i]

    for box in boxes:
        for ax in range(3):
            lo, hi = box[ax]

            def o_ext(A, v, res, exc, ax=ax, lo=lo, hi=hi):
                return exc is None and A.all([A.eq(res, v["e"][ax][hi] - v["e"][ax][lo]), A.eq(res, sum((W(v, ax, i) for i in range(lo, hi)), A.n(0)))])

            check(c, st, f"axis_extent[{ax},{lo}:{hi}]", "RectilinearGrid.axis_extent", inputs, assume,
                  lambda v, ax=ax, lo=lo, hi=hi: _grid(G, v["e"]).axis_extent(ax, (lo, hi)), o_ext)

            def o_face(A, v, res, exc, ax=ax, box=box):
                if exc is not None:
                    return A.false()
                r = np.asarray(res, dtype=object) if _has_sym(res) else np.asarray(res)
                want_shape = tuple(1 if a == ax else box[a][1] - box[a][0] for a in range(3))
                if tuple(r.shape) != want_shape:
                    return A.false()
                t = [a for a in range(3) if a != ax]
                cl, tot = [], A.n(0)
                for idx in np.ndindex(*want_shape):
                    want = W(v, t[0], box[t[0]][0] + idx[t[0]]) * W(v, t[1], box[t[1]][0] + idx[t[1]])
                    cl.append(A.eq(r[idx], want))
                    tot = tot + A.n(r[idx])
                # consistent with the edges: the faces tile the rectangle spanned by the transverse extents
                ext = [v["e"][a][box[a][1]] - v["e"][a][box[a][0]] for a in t]
                cl.append(A.eq(tot, ext[0] * ext[1]))
                return A.all(cl)

            check(c, st, f"face_area[{ax},{box}]", "RectilinearGrid.face_area", inputs, assume,
                  lambda v, ax=ax, box=box: _grid(G, v["e"]).face_area(ax, box), o_face)

        def o_vol(A, v, res, exc, box=box):
            if exc is not None:
                return A.false()
            r = np.asarray(res, dtype=object) if _has_sym(res) else np.asarray(res)
            want_shape = tuple(b[1] - b[0] for b in box)
            if tuple(r.shape) != want_shape:
                return A.false()
            cl, tot = [], A.n(0)
            for idx in np.ndindex(*want_shape):
                cl.append(A.eq(r[idx], W(v, 0, box[0][0] + idx[0]) * W(v, 1, box[1][0] + idx[1]) * W(v, 2, box[2][0] + idx[2])))
                tot = tot + A.n(r[idx])
            ext = [v["e"][a][box[a][1]] - v["e"][a][box[a][0]] for a in range(3)]
            cl.append(A.eq(tot, ext[0] * ext[1] * ext[2]))
            return A.all(cl)

        check(c, st, f"cell_volume[{box}]", "RectilinearGrid.cell_volume", inputs, assume, lambda v, box=box: _grid(G, v["e"]).cell_volume(box), o_vol)

        def o_slice(A, v, res, exc, box=box):
            return exc is None and len(res) == 3 and A.all(A.eq(res[a], v["e"][a][box[a][1]] - v["e"][a][box[a][0]]) for a in range(3))

        check(c, st, f"slice_extent[{box}]", "RectilinearGrid.slice_extent", inputs, assume, lambda v, box=box: _grid(G, v["e"]).slice_extent(box), o_slice)

        def c_sub(v, box=box):
            g = _grid(G, v["e"]).subgrid(tuple(slice(b[0], b[1]) for b in box))
            return [list(np.asarray(g.edges(a))) for a in range(3)]

        def o_sub(A, v, res, exc, box=box):
            if exc is not None:
                return A.false()
            cl = []
            for a in range(3):
                want = v["e"][a][box[a][0]:box[a][1] + 1]
                cl.append(len(res[a]) == len(want))
                cl += [A.eq(x, y) for x, y in zip(res[a], want)]
            return A.all(cl)

        if box is boxes[-1]:
            check(c, st, f"subgrid[{box}]", "RectilinearGrid.subgrid", inputs, assume, c_sub, o_sub, max_paths=20000)
    for ax in range(3):
        def o_cen(A, v, res, exc, ax=ax):
            e = v["e"][ax]
            return exc is None and len(res) == len(e) - 1 and A.all(A.eq(2 * A.n(r), e[i] + e[i + 1]) for i, r in enumerate(res))

        check(c, st, f"centers[{ax}]", "RectilinearGrid.centers", inputs, assume, lambda v, ax=ax: list(np.asarray(_grid(G, v["e"]).centers(ax))), o_cen)
    c.witness("twin: two cells of one axis can have different widths", True, assume)


def _case_reduce(c, st, G, case):
    """reduce_symmetric: odd (or < 2) count rejected; widths not mirror symmetric (beyond the documented relative 1e-4)
    rejected; otherwise the upper-half edges are kept (absolute coordinates), other axes unchanged."""
    n, ax = case["n"], case["ax"]
    es, inc = _sym_edges("e", n)
    c.symvars += n + 1
    oth_n = {a: len(e) - 1 for a, e in enumerate(_edges3(ax, es))}
    for sv in ((1, -1, 0) if n <= 3 else (1, -1)):  # sv = 0 merely re-runs __post_init__ on the full axis (construct-* cases)
        for other_sym in (False, True):
            sym = [0, 0, 0]
            sym[ax] = sv
            # a second, concrete symmetric axis whose cell count is odd / whose widths are not mirror symmetric must be rejected
            oax = (ax + 1) % 3
            if other_sym:
                sym[oax] = 1
            sym = tuple(sym)

            def call(v, sym=sym):
                g = _grid(G, _edges3(ax, v["e"])).reduce_symmetric(sym)
                return [list(np.asarray(g.edges(a))) for a in range(3)]

            def oracle(A, v, res, exc, sym=sym, other_sym=other_sym):
                e = v["e"]
                w = [e[i + 1] - e[i] for i in range(n)]
                rt = A.n(Fraction(1e-4))  # the float literal of the source, exactly
                if other_sym:
                    return _val_err(exc)  # OTHER axes: 7 cells (odd) or 8 asymmetric cells
                if sym[ax] == 0:
                    mirror = A.true()
                    want = list(e)
                else:
                    if n % 2 or n < 2:
                        return _val_err(exc)
                    if A.exact:
                        mirror = A.all(A.le(A.abs(w[i] - w[n - 1 - i]), rt * A.abs(w[n - 1 - i])) for i in range(n))
                    else:
                        far = any(abs(w[i] - w[n - 1 - i]) > Fraction(10001, 10**8) * abs(w[n - 1 - i]) for i in range(n))
                        near = all(abs(w[i] - w[n - 1 - i]) < Fraction(9999, 10**8) * abs(w[n - 1 - i]) for i in range(n))
                        if exc is not None:
                            return _val_err(exc) and not near
                        if far:
                            return False
                        mirror = True
                    want = list(e[n // 2:])
                if exc is not None:
                    return A.all([_val_err(exc), z3.Not(mirror)]) if A.exact else False
                cl = [mirror, len(res[ax]) == len(want)] + [A.eq(x, y) for x, y in zip(res[ax], want)]
                for a in range(3):
                    if a != ax:
                        ref = _edges3(ax, e)[a]
                        cl.append(len(res[a]) == len(ref))
                        cl += [A.eq(x, y) for x, y in zip(res[a], ref)]
                return A.all(cl)

            check(c, st, f"reduce_symmetric{sym}", f"RectilinearGrid.reduce_symmetric:{'odd' if n % 2 else 'even'}", dict(e=es), inc, call, oracle, max_paths=20000)
    c.witness("twin: mirror-symmetric widths exist", z3.And(*[es[i + 1].t - es[i].t == es[n - i].t - es[n - 1 - i].t for i in range(n)]), inc)
    c.witness("twin: asymmetric widths exist", es[1].t - es[0].t > 2 * (es[n].t - es[n - 1].t), inc)


# ------------------------------------------------------------------------------------------------ UniformGrid
def _ugrid_inputs(c):
    s, cs = fresh_real("spacing", 0, None, lo_strict=True)
    ctr = [fresh_real(f"c{a}")[0] for a in range(3)]
    c.symvars += 4
    return s, ctr, cs


def _ug(G, v):
    return G.UniformGrid(spacing=v["s"], center=tuple(v["c"]))


def _o_usnap(A, v, ax, coord, snap, res, exc):
    """edge i of the unresolved uniform policy sits at centre + i*spacing."""
    if snap not in ("nearest", "lower", "upper"):
        return _val_err(exc)
    if exc is not None:
        return A.false()
    if A.exact and not (_is_sym(res) and res.is_int) and not isinstance(res, (int, np.integer)):
        return A.false()
    if not A.exact and not isinstance(res, (int, np.integer)):
        return False
    i = A.real(res)
    s, off = v["s"], coord - v["c"][ax]
    if snap == "nearest":
        return A.le(2 * A.abs(i * s - off), s)
    if snap == "lower":
        return A.all([A.le(i * s, off), A.lt(off, (i + 1) * s)])
    return A.all([A.le(off, i * s), A.lt((i - 1) * s, off)])


def _case_usnap(c, st, G, case):
    s, ctr, cs = _ugrid_inputs(c)
    coord, _ = fresh_real("coord")
    c.symvars += 1
    inputs = dict(s=s, c=ctr, coord=coord)
    for ax in range(3):
        for snap in ("nearest", "lower", "upper", "bogus"):
            check(c, st, f"UniformGrid.coord_to_index[{ax},{snap}]", f"UniformGrid.coord_to_index:{snap}", inputs, cs,
                  lambda v, ax=ax, snap=snap: _ug(G, v).coord_to_index(ax, v["coord"], snap=snap),
                  lambda A, v, res, exc, ax=ax, snap=snap: _o_usnap(A, v, ax, v["coord"], snap, res, exc))
            if snap != "bogus":
                check(c, st, f"UniformGrid.length_to_cell_count[{ax},{snap}]", f"UniformGrid.length_to_cell_count:{snap}", inputs, cs,
                      lambda v, ax=ax, snap=snap: _ug(G, v).length_to_cell_count(ax, v["coord"], snap=snap),
                      lambda A, v, res, exc, ax=ax, snap=snap: _o_usnap(A, v, ax, v["c"][ax] + v["coord"], snap, res, exc))
    check(c, st, "UniformGrid rejects spacing <= 0", "UniformGrid.__post_init__", dict(s=fresh_real("s0")[0], c=ctr), [],
          lambda v: _ug(G, v), lambda A, v, res, exc: (A.all([_val_err(exc), A.le(v["s"], 0)]) if exc is not None else A.lt(0, v["s"])))
    c.witness("twin: coordinate off the lattice", z3.And(coord.t - ctr[0].t > s.t / 3, coord.t - ctr[0].t < s.t / 2), cs)


def _case_uint(c, st, G, case):
    s, ctr, cs = _ugrid_inputs(c)
    tgt, _ = fresh_real("target")
    pos, pc = fresh_real("position", -1, 1)
    c.symvars += 2
    inputs = dict(s=s, c=ctr, target=tgt, position=pos)
    ax = 1

    def o_int(A, v, res, exc, size, frac, nearest):
        """size-preserving; anchor of the returned interval is (nearest: a) nearest lattice choice, i.e. within s/2,
        (else) within one spacing of the target."""
        if exc is not None:
            return A.false()
        lo, hi = A.n(res[0]), A.n(res[1])
        sz = A.eq(hi - lo, size)
        a = v["c"][ax] + (A.real(lo) + frac * size) * v["s"]
        d = A.abs(a - v["target"])
        return A.all([sz, A.le(2 * d, v["s"]) if nearest else A.le(d, v["s"])])

    def no_tie(q):
        """q is not within 1e-3 of a rounding tie k + 1/2 (which way a tie goes is float round-off)."""
        f = q - z3.ToReal(z3.ToInt(q))
        return z3.Or(f <= z3.RealVal("0.499"), f >= z3.RealVal("0.501"))

    for size in case["sizes"]:
        for nearest in (True, False):
            sfx = "nearest" if nearest else "within-one-cell"
            nt = [no_tie((tgt.t - ctr[ax].t) / s.t), no_tie((pos.t + 1) / 2 * size)] if nearest else []
            check(c, st, f"UniformGrid.bounds_for_center[size={size},{sfx}]", f"UniformGrid.bounds_for_center:{sfx}:{'odd' if size % 2 else 'even'}-size", inputs, cs + pc + nt[:1],
                  lambda v, size=size: _ug(G, v).bounds_for_center(ax, v["target"], size),
                  lambda A, v, res, exc, size=size, nearest=nearest: o_int(A, v, res, exc, size, A.n(Fraction(1, 2)), nearest))
            check(c, st, f"UniformGrid.bounds_for_anchor[size={size},{sfx}]", f"UniformGrid.bounds_for_anchor:{sfx}", inputs, cs + pc + nt,
                  lambda v, size=size: _ug(G, v).bounds_for_anchor(ax, size, v["target"], v["position"]),
                  lambda A, v, res, exc, size=size, nearest=nearest: o_int(A, v, res, exc, size, (v["position"] + 1) / 2, nearest))
    c.witness("twin", z3.And(pos.t > 0, tgt.t < ctr[1].t), cs + pc)


def _case_umeasure(c, st, G, case):
    s, ctr, cs = _ugrid_inputs(c)
    pos, pc = fresh_real("position", -1, 1)
    c.symvars += 1
    inputs = dict(s=s, c=ctr, position=pos)
    box = ((1, 3), (0, 2), (2, 3))
    for ax in range(3):
        lo, hi = box[ax]
        check(c, st, f"UniformGrid.axis_extent[{ax}]", "UniformGrid.axis_extent", inputs, cs + pc, lambda v, ax=ax, lo=lo, hi=hi: _ug(G, v).axis_extent(ax, (lo, hi)),
              lambda A, v, res, exc, lo=lo, hi=hi: exc is None and A.eq(res, (hi - lo) * v["s"]))
        check(c, st, f"UniformGrid.anchor_coordinate[{ax}]", "UniformGrid.anchor_coordinate", inputs, cs + pc,
              lambda v, ax=ax, lo=lo, hi=hi: _ug(G, v).anchor_coordinate(ax, (lo, hi), v["position"]),
              lambda A, v, res, exc, ax=ax, lo=lo, hi=hi: exc is None and A.eq(res, _anchor_point(A, v["c"][ax] + lo * v["s"], v["c"][ax] + hi * v["s"], v["position"])))

        def o_face(A, v, res, exc, ax=ax):
            if exc is not None:
                return A.false()
            r = np.asarray(res, dtype=object) if _has_sym(res) else np.asarray(res)
            if tuple(r.shape) != tuple(box[a][1] - box[a][0] for a in range(3) if a != ax):
                return A.false()
            return A.all(A.eq(x, v["s"] * v["s"]) for x in r.reshape(-1))

        check(c, st, f"UniformGrid.face_area[{ax}]", "UniformGrid.face_area", inputs, cs + pc, lambda v, ax=ax: _ug(G, v).face_area(ax, box), o_face)

    def o_vol(A, v, res, exc):
        if exc is not None:
            return A.false()
        r = np.asarray(res, dtype=object) if _has_sym(res) else np.asarray(res)
        if tuple(r.shape) != tuple(b[1] - b[0] for b in box):
            return A.false()
        return A.all(A.eq(x, v["s"] * v["s"] * v["s"]) for x in r.reshape(-1))

    check(c, st, "UniformGrid.cell_volume", "UniformGrid.cell_volume", inputs, cs + pc, lambda v: _ug(G, v).cell_volume(box), o_vol)
    check(c, st, "UniformGrid.slice_extent", "UniformGrid.slice_extent", inputs, cs + pc, lambda v: _ug(G, v).slice_extent(box),
          lambda A, v, res, exc: exc is None and A.all(A.eq(res[a], (box[a][1] - box[a][0]) * v["s"]) for a in range(3)))
    c.witness("twin", s.t != 1, cs)


def _case_uresolve(c, st, G, case):
    """UniformGrid.resolve(shape): edges centre - n*s/2 + i*s, detected uniform with that spacing; the CFL step of the
    resolved grid and of the unresolved config agree and satisfy the bound."""
    shape = tuple(case["shape"])
    s, ctr, cs = _ugrid_inputs(c)
    cf, ccf = fresh_real("courant", 0, 1, lo_strict=True)
    c.symvars += 1
    inputs = dict(s=s, c=ctr, cf=cf)

    def call(v):
        from fdtdx.config import SimulationConfig

        ug = _ug(G, v)
        g = ug.resolve(shape)
        out = dict(edges=[list(np.asarray(g.edges(a))) for a in range(3)], is_uniform=g.is_uniform, us=g.uniform_spacing, dt=g.cfl_time_step(v["cf"]), min=g.min_spacing)
        cfgu = SimulationConfig(time=1e-15, grid=ug, courant_factor=v["cf"], backend="cpu")
        cfgr = SimulationConfig(time=1e-15, grid=g, courant_factor=v["cf"], backend="cpu")
        out["dt_cfg"] = [cfgu.time_step_duration, cfgr.time_step_duration]
        out["us_cfg"] = [cfgu.uniform_spacing(), cfgr.uniform_spacing()]
        out["nonuniform_cfg"] = [cfgu.has_nonuniform_grid, cfgr.has_nonuniform_grid]
        return out

    def oracle(A, v, res, exc):
        if exc is not None:
            return A.false()
        cl = []
        for a in range(3):
            n = shape[a]
            cl.append(len(res["edges"][a]) == n + 1)
            cl += [A.eq(2 * A.n(x), 2 * v["c"][a] + (2 * i - n) * v["s"]) for i, x in enumerate(res["edges"][a])]
        cl += [res["is_uniform"], A.eq(res["us"], v["s"]), A.eq(res["min"], v["s"])]
        dt = A.real(res["dt"])
        c0 = A.n(Fraction(C0))
        bound = v["cf"] * (1 + A.n(Fraction(1, 10**9)))
        cl += [A.lt(0, dt), A.le(3 * dt * dt * c0 * c0, bound * bound * v["s"] * v["s"])]
        for x in res["dt_cfg"]:  # SimulationConfig.time_step_duration, unresolved and resolved grid
            x = A.real(x)
            cl += [A.lt(0, x), A.le(3 * x * x * c0 * c0, bound * bound * v["s"] * v["s"])]
        cl += [A.eq(x, v["s"]) for x in res["us_cfg"]]
        cl += [x is False or x == False for x in res["nonuniform_cfg"]]  # noqa: E712
        return A.all(cl)

    check(c, st, f"resolve{shape}", "UniformGrid.resolve", inputs, cs + ccf, call, oracle, max_paths=20000)
    c.witness("twin", z3.And(s.t < 1, ctr[0].t > 0), cs + ccf)
