"""Shared scene for the whole-run properties (C04, C05, C06, C10, C11): a small domain with z-PML (optional), a dipole
and a plane source, and one detector of every linear / quadratic kind."""
from __future__ import annotations

import jax.numpy as jnp
import numpy as np

import fdtdx
from fdtdx import OnOffSwitch

from ..scenes import WAVE, box_detector, build_scene, dipole, plane_source

F64, C128 = jnp.float64, jnp.complex128


def detectors(shape, T, kinds=("field", "energy", "poynting", "phasor", "field_red"), switches=True):
    nx, ny, nz = shape
    zmid = nz // 2
    out = []
    sw = (lambda **k: OnOffSwitch(**k)) if switches else (lambda **k: OnOffSwitch())
    if "field" in kinds:
        out.append(box_detector(fdtdx.FieldDetector, "det_field", (0, 0, zmid), (min(2, nx), min(2, ny), 1), dtype=F64, exact_interpolation=True,
                                switch=sw(interval=2)))
    if "field_red" in kinds:
        out.append(box_detector(fdtdx.FieldDetector, "det_field_red", (nx - 1, 0, zmid - 1), (1, ny, 2), dtype=F64, reduce_volume=True,
                                exact_interpolation=False, components=("Ex", "Hy", "Ez")))
    if "energy" in kinds:
        out.append(box_detector(fdtdx.EnergyDetector, "det_energy", (0, 0, zmid - 1), (nx, ny, 2), dtype=F64, reduce_volume=True,
                                switch=sw(fixed_on_time_steps=sorted({0, T - 1}))))
    if "poynting" in kinds:
        out.append(box_detector(fdtdx.PoyntingFluxDetector, "det_flux", (0, 0, zmid), (nx, ny, 1), dtype=F64, direction="+"))
    if "phasor" in kinds:
        out.append(box_detector(fdtdx.PhasorDetector, "det_phasor", (0, ny - 1, zmid), (nx, 1, 1), dtype=C128, wave_characters=(WAVE,),
                                components=("Ey", "Hx"), exact_interpolation=True))
    if "phasor_apod" in kinds:
        # Gaussian apodization: per-step weights exp(-(t - 1.5 dt)^2 / (2 (1.2 dt)^2)), dt ~ 9.5e-17 s in these scenes
        out.append(box_detector(fdtdx.PhasorDetector, "det_phasor_apod", (0, 0, zmid), (1, ny, 1), dtype=C128, wave_characters=(WAVE,),
                                components=("Ex", "Hz"), exact_interpolation=False,
                                apodization=fdtdx.GaussianWindow(center_time=1.4e-16, sigma_time=1.15e-16)))
    return out


def sources(shape, T, kinds=("dipole", "plane")):
    nx, ny, nz = shape
    out = []
    if "dipole" in kinds:
        out.append(dipole("src_dip", (nx // 2, ny // 2, nz // 2), pol=0, az=15.0))
    if "plane" in kinds:
        out.append(plane_source("src_plane", 2, nz // 2 - 1, "+"))
    if "mdipole" in kinds:
        out.append(dipole("src_mdip", (0, 0, nz // 2), pol=1, kind="magnetic", switch=OnOffSwitch(interval=2)))
    if "gauss" in kinds:
        out.append(plane_source("src_gauss", 2, nz // 2, "-", gaussian=True))
    return out


def scene(shape=(3, 3, 6), T=4, pml=True, gradient_config=None, reversible=False, use_complex=None, det_kinds=None, src_kinds=("dipole", "plane"),
          bounds=None, thickness=2, background=None, widths=None, switches=True, bloch_vector=(0.0, 0.0, 0.0), extra=()):
    b = bounds if bounds is not None else ({"min_z": "pml", "max_z": "pml"} if pml else "periodic")
    dk = det_kinds if det_kinds is not None else ("field", "energy", "poynting", "phasor", "field_red")
    return build_scene(shape, b, thickness=thickness, steps=T, gradient_config=gradient_config, reversible=reversible, use_complex=use_complex,
                       extra_objects=list(extra) + sources(shape, T, src_kinds) + detectors(shape, T, dk, switches), background=background, widths=widths,
                       bloch_vector=bloch_vector)


def flat_states(ds):
    """detector_states dict -> list of (name, key, array) sorted."""
    return [(n, k, ds[n][k]) for n in sorted(ds) for k in sorted(ds[n])]


def mode_source(shape, index=2):
    """a ModePlaneSource normal to z spanning the transverse extent (the mode is solved by tidy3d/scipy at placement,
    concretely; the injection in the time loop is plain JAX and is what the harnesses encode)."""
    o = fdtdx.ModePlaneSource(name="src_mode", partial_grid_shape=(None, None, 1), wave_character=WAVE, direction="+", mode_index=0)
    from ..scenes import GridAt
    return o, [GridAt(o, (2,), (index,))]


def lossy_core(shape):
    from ..scenes import material_box
    return material_box("core", (1, 1, 0), (shape[0] - 2, shape[1] - 2, shape[2]), fdtdx.Material(permittivity=6.0, electric_conductivity=2.0))


def lorentz_slab(shape, z0, nz=1):
    from fdtdx.dispersion import DispersionModel, LorentzPole
    from ..scenes import material_box
    m = fdtdx.Material(permittivity=2.0, dispersion=DispersionModel(poles=(LorentzPole(resonance_frequency=4e14, damping=1e13, delta_epsilon=1.5),)))
    return material_box("slab", (0, 0, z0), (shape[0], shape[1], nz), m)
