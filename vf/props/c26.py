"""C26 -- resolved object placement satisfies every constraint (E2: pysym over the real constraint resolver).

The real ``resolve_object_constraints`` (-> ``_apply_constraints_iteratively`` and every ``_apply_*`` /
``_extend_to_inf_if_possible`` / ``RectilinearGrid.anchor_coordinate / bounds_for_anchor / bounds_for_center /
coord_to_index / axis_extent``) is executed concolically on small constraint-graph *templates*.  The graph shape
(which objects, which constraint kinds, which sides/axes, list order) is enumerated; the numeric content
(margins, offsets, proportions, real coordinates, real positions/shapes, anchor positions, grid coordinates, grid margins)
is symbolic (z3 Real / Int).  Per successful path (no error recorded) the documented meaning of every
specification is re-evaluated on the returned slices by formulas written here from the docstrings:

* inside the volume, positive size
* grid shape == declared; real shape / SizeConstraint == documented length->cells snapping of the target length
* GridCoordinateConstraint: bound == coordinate; RealCoordinateConstraint / extension-to-object: bound is a nearest edge
* PositionConstraint / partial_real_position: among all intervals of the object's size that fit the axis none has its
  anchor strictly closer to the target (DESIGN C26: ``bounds_for_anchor`` clamps to in-grid intervals)
* extension to the volume boundary: bound == volume bound; axes without any specification span the whole volume

This module also hosts the template machinery shared with C27.
"""
from __future__ import annotations

import itertools
from fractions import Fraction

import numpy as np
import z3

from .. import pysym
from ..core import Inconclusive, model_value

META = dict(
    functions=["fdtd.initialization.resolve_object_constraints", "_apply_constraints_iteratively", "_resolve_static_shapes", "_resolve_static_positions_initial/_iterative",
               "_update_grid_slices_from_shapes", "_update_grid_shapes_from_slices", "_apply_grid_coordinate_constraint", "_apply_real_coordinate_constraint",
               "_apply_position_constraint", "_apply_size_constraint", "_apply_size_extension_constraint", "_extend_to_inf_if_possible", "_handle_unresolved_objects",
               "_real_length_to_grid_size", "_real_coord_to_edge_index", "_center_to_bounds_for_grid",
               "core.grid.RectilinearGrid.coord_to_index/length_to_cell_count/bounds_for_center/anchor_coordinate/bounds_for_anchor/axis_extent"],
    assumptions=["reals for floats (float(), int() of the analysed modules rebound to the identity / truncation on symbolic numbers)",
                 "grids with dyadic-rational edges (uniform spacing 0.5; one non-uniform edge set); the grid is an input, not code under test",
                 "'placement succeeds' = resolve_object_constraints returns with no error message for any object (place_objects raises otherwise)",
                 "nearest-edge ties: any minimiser is accepted",
                 "non-uniform length->cells rule (docstring of _real_length_to_grid_size): an edge within 1e-6*min_spacing of the end coordinate, else the first edge at or beyond it, clamped to the axis"],
    outside="constraint graphs other than the listed templates and more than 4 objects; symmetry reduction; random offsets; objects whose "
            "shape is derived from geometry (spheres, cylinders); QuasiUniformGrid policy resolution; float round-off at snapping ties",
    bounds=dict(quick=dict(cells_active_axis=6, other_axes=3, templates="see case names"), thorough=dict(cells_active_axis=[6, 7, 8], other_axes=3, templates="see case names")),
    timeout_ms=dict(quick=30000, thorough=120000),
)

H = Fraction(1, 2)  # uniform spacing
NONUNIFORM_W = [Fraction(1, 2), Fraction(1), Fraction(1, 4), Fraction(3, 4), Fraction(1, 2), Fraction(5, 4), Fraction(1, 2), Fraction(3, 4)]


# ------------------------------------------------------------------------------------------------ template DSL
def R(name, lo, hi):
    return ("sym", name, "real", lo, hi)


def I(name, lo, hi):
    return ("sym", name, "int", lo, hi)


def is_sym(x):
    return isinstance(x, tuple) and len(x) == 5 and x[0] == "sym"


def obj(name, gshape=(None, None, None), rshape=(None, None, None), rpos=(None, None, None), vol=False):
    return dict(name=name, gshape=list(gshape), rshape=list(rshape), rpos=list(rpos), vol=vol)


def c_grid(o, axes, sides, coords):
    return dict(kind="grid", object=o, axes=list(axes), sides=list(sides), coordinates=list(coords))


def c_real(o, axes, sides, coords):
    return dict(kind="real", object=o, axes=list(axes), sides=list(sides), coordinates=list(coords))


def c_pos(o, other, axes, own, oth, margins=None, grid_margins=None):
    n = len(axes)
    return dict(kind="pos", object=o, other=other, axes=list(axes), own=list(own), oth=list(oth),
                margins=list(margins) if margins is not None else [0] * n, grid_margins=list(grid_margins) if grid_margins is not None else [0] * n)


def c_size(o, other, axes, other_axes=None, props=None, offsets=None, grid_offsets=None):
    n = len(axes)
    return dict(kind="size", object=o, other=other, axes=list(axes), other_axes=list(other_axes if other_axes is not None else axes),
                props=list(props) if props is not None else [1.0] * n, offsets=list(offsets) if offsets is not None else [0] * n,
                grid_offsets=list(grid_offsets) if grid_offsets is not None else [0] * n)


def c_ext(o, other, axis, direction, other_position=None, offset=0, grid_offset=0):
    if other_position is None:
        other_position = -1 if direction == "+" else 1
    return dict(kind="ext", object=o, other=other, axis=axis, direction=direction, other_position=other_position, offset=offset, grid_offset=grid_offset)


def pin(spec, names, lo=0, size=1):
    """constrain axes 1 and 2 of the named objects completely (grid shape + both grid coordinates): no axis of the system is
    then left to the extension step and every bound is written during the first pass over the constraints."""
    for o in spec["objects"]:
        if o["name"] in names:
            o["gshape"][1] = o["gshape"][2] = size
    for n in names:
        spec["constraints"].append(c_grid(n, (1, 2, 1, 2), ("-", "-", "+", "+"), (lo, lo, lo + size, lo + size)))
    return spec


def symbols_of(spec):
    out = {}

    def visit(x):
        if is_sym(x):
            out[x[1]] = x
        elif isinstance(x, (list, tuple)):
            for y in x:
                visit(y)
        elif isinstance(x, dict):
            for y in x.values():
                visit(y)

    visit(spec["objects"])
    visit(spec["constraints"])
    return out


def subst(x, env):
    if is_sym(x):
        return env[x[1]]
    if isinstance(x, list):
        return [subst(y, env) for y in x]
    if isinstance(x, tuple):
        return tuple(subst(y, env) for y in x)
    if isinstance(x, dict):
        return {k: subst(v, env) for k, v in x.items()}
    return x


def grid_edges(spec):
    """exact edge coordinates (Fractions) per axis; the domain is centred on 0 like UniformGrid.resolve does."""
    shape = spec["shape"]
    out = []
    for a in range(3):
        if spec.get("grid", "uniform") == "nonuniform" and a == 0:
            w = NONUNIFORM_W[: shape[a]]
        else:
            w = [H] * shape[a]
        tot = sum(w)
        e = [-tot / 2]
        for x in w:
            e.append(e[-1] + x)
        out.append(e)
    return out


def make_config(spec):
    import jax.numpy as jnp

    import fdtdx
    from fdtdx.core.grid import RectilinearGrid

    ed = grid_edges(spec)
    g = RectilinearGrid(x_edges=jnp.asarray([float(v) for v in ed[0]], dtype=jnp.float64), y_edges=jnp.asarray([float(v) for v in ed[1]], dtype=jnp.float64),
                        z_edges=jnp.asarray([float(v) for v in ed[2]], dtype=jnp.float64))
    return fdtdx.SimulationConfig(time=1e-15, grid=g, backend="cpu", dtype=jnp.float64)


def build_real(spec, env):
    """real fdtdx objects / constraint dataclasses with the template's symbols replaced through env."""
    import fdtdx
    from fdtdx.objects.object import GridCoordinateConstraint, PositionConstraint, RealCoordinateConstraint, SizeConstraint, SizeExtensionConstraint

    mat = fdtdx.Material(permittivity=2.0)
    objs = []
    for o in spec["objects"]:
        o = subst(o, env)
        if o["vol"]:
            ob = fdtdx.SimulationVolume(name=o["name"])
        else:
            ob = fdtdx.UniformMaterialObject(name=o["name"], material=mat)
        ob = ob.aset("partial_grid_shape", tuple(o["gshape"])).aset("partial_real_shape", tuple(o["rshape"])).aset("partial_real_position", tuple(o["rpos"]))
        objs.append(ob)
    cons = []
    for k in spec["constraints"]:
        k = subst(k, env)
        if k["kind"] == "grid":
            cons.append(GridCoordinateConstraint(object=k["object"], axes=tuple(k["axes"]), sides=tuple(k["sides"]), coordinates=tuple(k["coordinates"])))
        elif k["kind"] == "real":
            cons.append(RealCoordinateConstraint(object=k["object"], axes=tuple(k["axes"]), sides=tuple(k["sides"]), coordinates=tuple(k["coordinates"])))
        elif k["kind"] == "pos":
            cons.append(PositionConstraint(object=k["object"], other_object=k["other"], axes=tuple(k["axes"]), object_positions=tuple(k["own"]),
                                           other_object_positions=tuple(k["oth"]), margins=tuple(k["margins"]), grid_margins=tuple(k["grid_margins"])))
        elif k["kind"] == "size":
            cons.append(SizeConstraint(object=k["object"], other_object=k["other"], axes=tuple(k["axes"]), other_axes=tuple(k["other_axes"]),
                                       proportions=tuple(k["props"]), offsets=tuple(k["offsets"]), grid_offsets=tuple(k["grid_offsets"])))
        elif k["kind"] == "ext":
            cons.append(SizeExtensionConstraint(object=k["object"], other_object=k["other"], axis=k["axis"], direction=k["direction"],
                                                other_position=k["other_position"], offset=k["offset"], grid_offset=k["grid_offset"]))
        else:
            raise ValueError(k["kind"])
    return objs, cons


def fresh_env(spec):
    """(env of SymNum, env of z3 terms, range constraints)"""
    syms = symbols_of(spec)
    envs, envz, cons = {}, {}, []
    for name, (_, _, kind, lo, hi) in sorted(syms.items()):
        v, cc = (pysym.fresh_real if kind == "real" else pysym.fresh_int)(name, lo, hi)
        envs[name], envz[name] = v, v.t
        cons += cc
    return envs, envz, cons


class Explorer(pysym.Explorer):
    """pysym explorer + a sound shortcut: a branch condition that is literally (same z3 AST) already on the path condition, or
    whose negation is, is decided without a solver call and without consuming a decision (deterministic under re-execution).
    Re-running the resolver on permuted inputs inside one path (C27) repeats the same comparisons many times."""

    def branch(self, cond):
        cond = z3.simplify(cond)
        if z3.is_true(cond):
            return True
        if z3.is_false(cond):
            return False
        ids = {p.get_id() for p in self.pc}
        if cond.get_id() in ids:
            return True
        if z3.Not(cond).get_id() in ids:
            return False
        if z3.is_not(cond) and cond.arg(0).get_id() in ids:
            return False
        return super().branch(cond)


class StopExploration(BaseException):
    """raised from an on_path callback: the case is already decided (a replay-confirmed violation), stop exploring."""


def stubs():
    """context managers rebinding float/int/round in the analysed modules."""
    from contextlib import ExitStack

    from fdtdx.core import grid as gridmod
    from fdtdx.fdtd import initialization as init

    st = ExitStack()
    st.enter_context(pysym.stub_module(init))
    st.enter_context(pysym.stub_module(gridmod))
    return st


def run_resolver(objs, cons, cfg):
    from fdtdx.fdtd.initialization import resolve_object_constraints

    return resolve_object_constraints(objs, cons, cfg)


# ------------------------------------------------------------------------------------------------ oracle
def zt(x):
    """python number / SymNum / z3 term -> z3 term (ints stay Int, everything else Real, exact)."""
    if isinstance(x, (pysym.SymNum, pysym.SymBool)):
        return x.t
    if isinstance(x, z3.ExprRef):
        return x
    if isinstance(x, (bool, np.bool_)):
        return z3.BoolVal(bool(x))
    if isinstance(x, (int, np.integer)):
        return z3.IntVal(int(x))
    if isinstance(x, Fraction):
        return z3.RealVal(x)
    if isinstance(x, (float, np.floating)):
        return z3.RealVal(Fraction(float(x)))
    raise TypeError(type(x))


def zr(x):
    t = zt(x)
    return z3.ToReal(t) if z3.is_int(t) else t


def absz(x):
    return z3.If(x >= 0, x, -x)


class Oracle:
    """documented meaning of every specification of a template, as z3 formulas over the returned slices."""

    def __init__(self, spec, envz, slices, slack=0):
        self.spec, self.env = spec, envz
        self.edges = grid_edges(spec)
        self.shape = spec["shape"]
        self.sl = {n: [(zt(b0), zt(b1)) for b0, b1 in s] for n, s in slices.items()}
        self.slack = z3.RealVal(Fraction(slack))
        self.uniform = spec.get("grid", "uniform") == "uniform"
        self.vol = [o["name"] for o in spec["objects"] if o["vol"]][0]

    def E(self, ax, i):
        es = self.edges[ax]
        i = z3.simplify(i)
        if z3.is_int_value(i):
            k = i.as_long()
            return z3.RealVal(es[min(max(k, 0), len(es) - 1)])
        t = z3.RealVal(es[-1])
        for j in range(len(es) - 2, -1, -1):
            t = z3.If(i == j, z3.RealVal(es[j]), t)
        return t

    def nearest_edge(self, ax, idx, coord):
        d = absz(self.E(ax, idx) - coord)
        return z3.And(*[d <= absz(z3.RealVal(e) - coord) + self.slack for e in self.edges[ax]])

    def anchor(self, ax, b0, b1, p):
        lo, hi = self.E(ax, b0), self.E(ax, b1)
        return lo + (zr(p) + 1) / 2 * (hi - lo)

    def best_interval(self, ax, b0, b1, p, target):
        """no interval of the same cell count that fits the axis has its anchor strictly closer to target."""
        n = self.shape[ax]
        size = z3.simplify(b1 - b0)
        d = absz(self.anchor(ax, b0, b1, p) - target)
        cl = []
        for k in range(n):
            adm = z3.simplify(k + size <= n)
            if z3.is_false(adm):
                continue
            cl.append(z3.Implies(adm, d <= absz(self.anchor(ax, z3.IntVal(k), z3.IntVal(k) + size, p) - target) + self.slack))
        return z3.And(*cl) if cl else z3.BoolVal(True)

    def cells(self, ax, n, length):
        """n is the documented cell count for a physical length measured from the lower domain edge."""
        es = self.edges[ax]
        end = z3.RealVal(es[0]) + length
        if self.uniform:
            return self.nearest_edge(ax, n, end)
        ms = min(b - a for e in self.edges for a, b in zip(e, e[1:]))
        # "exact edge alignment" is implemented with a tolerance of 1e-6 * min spacing (a float constant); inside a sliver of
        # +-0.1% around that tolerance either answer is accepted
        tol_lo, tol_hi = z3.RealVal(Fraction(999, 10**9) * ms), z3.RealVal(Fraction(1001, 10**9) * ms)
        near_hi = [absz(z3.RealVal(e) - end) <= tol_hi for e in es]
        near_lo = [absz(z3.RealVal(e) - end) < tol_lo for e in es]
        opts = []
        for j, e in enumerate(es):
            first_beyond = z3.And(z3.RealVal(e) >= end, *[z3.RealVal(es[i]) < end for i in range(j)])
            if j == len(es) - 1:
                first_beyond = z3.And(*[z3.RealVal(es[i]) < end for i in range(j)])  # clamped to the axis
            opts.append(z3.And(n == j, z3.Or(near_hi[j], z3.And(z3.Not(z3.Or(*near_lo)), first_beyond))))
        return z3.Or(*opts)

    def extent(self, ax, b0, b1):
        return self.E(ax, b1) - self.E(ax, b0)

    def spacing(self):
        return z3.RealVal(H)

    # -- clauses, grouped by kind
    def clauses(self):
        spec, env, sl = self.spec, self.env, self.sl
        out = {}

        def add(kind, f):
            out.setdefault(kind, []).append(f)

        specified = {(o["name"], a): False for o in spec["objects"] for a in range(3)}
        for o in spec["objects"]:
            o = subst(o, env)
            n = o["name"]
            for a in range(3):
                b0, b1 = sl[n][a]
                add("inside-volume", z3.And(b0 >= 0, b0 < b1, b1 <= self.shape[a]))
                if o["vol"]:
                    add("inside-volume", z3.And(b0 == 0, b1 == self.shape[a]))
                if o["gshape"][a] is not None:
                    specified[(n, a)] = True
                    add("grid-shape", b1 - b0 == zt(o["gshape"][a]))
                elif o["rshape"][a] is not None:
                    specified[(n, a)] = True
                    add("real-shape", self.cells(a, b1 - b0, zr(o["rshape"][a])))
                if o["rpos"][a] is not None:
                    specified[(n, a)] = True
                    centre = (z3.RealVal(self.edges[a][0]) + z3.RealVal(self.edges[a][-1])) / 2
                    add("real-position", self.best_interval(a, b0, b1, 0, zr(o["rpos"][a]) + centre))
        for k in spec["constraints"]:
            k = subst(k, env)
            n = k["object"]
            if k["kind"] in ("grid", "real"):
                for i, a in enumerate(k["axes"]):
                    specified[(n, a)] = True
                    b = sl[n][a][0 if k["sides"][i] == "-" else 1]
                    if k["kind"] == "grid":
                        add("grid-coordinate", b == zt(k["coordinates"][i]))
                    else:
                        add("real-coordinate", self.nearest_edge(a, b, zr(k["coordinates"][i])))
            elif k["kind"] == "pos":
                for i, a in enumerate(k["axes"]):
                    specified[(n, a)] = True
                    ob0, ob1 = sl[k["other"]][a]
                    target = self.anchor(a, ob0, ob1, k["oth"][i]) + zr(k["margins"][i]) + zr(k["grid_margins"][i]) * self.spacing()
                    b0, b1 = sl[n][a]
                    add("position-constraint", self.best_interval(a, b0, b1, k["own"][i], target))
            elif k["kind"] == "size":
                for i, a in enumerate(k["axes"]):
                    specified[(n, a)] = True
                    oa = k["other_axes"][i]
                    ob0, ob1 = sl[k["other"]][oa]
                    length = self.extent(oa, ob0, ob1) * zr(k["props"][i]) + zr(k["offsets"][i]) + zr(k["grid_offsets"][i]) * self.spacing()
                    b0, b1 = sl[n][a]
                    add("size-constraint", self.cells(a, b1 - b0, length))
            elif k["kind"] == "ext":
                a = k["axis"]
                specified[(n, a)] = True
                side = 0 if k["direction"] == "-" else 1
                b = sl[n][a][side]
                if k["other"] is None:
                    add("extension-constraint", b == sl[self.vol][a][side])
                else:
                    ob0, ob1 = sl[k["other"]][a]
                    target = self.anchor(a, ob0, ob1, k["other_position"]) + zr(k["offset"]) + zr(k["grid_offset"]) * self.spacing()
                    add("extension-constraint", self.nearest_edge(a, b, target))
        for (n, a), sp in specified.items():
            if not sp:
                b0, b1 = sl[n][a]
                add("unconstrained-axis-spans-volume", z3.And(b0 == 0, b1 == self.shape[a]))
        return {k: z3.And(*v) for k, v in out.items()}


def success(res, exc):
    if exc is not None:
        return False
    slices, errors = res
    if any(v for v in errors.values()):
        return False
    return all(b is not None for s in slices.values() for ax in s for b in ax)


def concrete_env(spec, m, envz):
    env = {}
    for name, (_, _, kind, lo, hi) in symbols_of(spec).items():
        v = model_value(m, envz[name])
        env[name] = int(v) if kind == "int" else float(v)
    return env


def concrete_run(spec, env):
    objs, cons = build_real(spec, env)
    cfg = make_config(spec)
    try:
        return run_resolver(objs, cons, cfg), None
    except Exception as e:  # noqa: BLE001
        return None, e


def concrete_failed_kinds(spec, env, res, slack=Fraction(1, 10**7)):
    """evaluate the oracle on a concrete result with the inputs' exact values; returns the list of clause kinds that fail."""
    slices, _ = res
    envq = {k: (z3.IntVal(v) if isinstance(v, int) else z3.RealVal(Fraction(v))) for k, v in env.items()}
    orc = Oracle(spec, envq, {n: [(int(b0), int(b1)) for b0, b1 in s] for n, s in slices.items()}, slack=slack)
    bad = []
    for kind, f in orc.clauses().items():
        if not z3.is_true(z3.simplify(f)):
            s = z3.Solver()
            s.add(z3.Not(f))
            if s.check() != z3.unsat:
                bad.append(kind)
    return bad


# ------------------------------------------------------------------------------------------------ templates
def _V(spec_shape):
    return obj("V", gshape=spec_shape, vol=True)


def templates(tier):
    """name -> spec.  Active axis 0; axes 1, 2 have 3 cells and are either left to the extension step or pinned."""
    T = {}
    _templates_for(T, 6, "", True)
    if tier != "quick":
        # the same graphs on an 8-cell axis (thorough only): a subset whose numeric ranges scale with N
        T8 = {}
        _templates_for(T8, 8, "-N8", False)
        for k in ("chain-pos", "chain-pos-nonuniform", "fan", "gridcoord-gridmargin", "extend-to-object", "realshape-realpos", "mixed-coords", "symbolic-anchors",
                  "unconstrained", "pos-to-extended", "ext-to-extended", "overdetermined-shape-vs-coords", "overdetermined-shape-vs-coords-pinned"):
            T[k + "-N8"] = T8[k + "-N8"]
    return T


def _templates_for(T, N, suffix, quick_default):
    L = float(N * H)  # physical length of axis 0

    def add(name, objects, constraints, grid="uniform", shape=(N, 3, 3), quick=True, pinned=None):
        name = name + suffix
        spec = dict(name=name, objects=[_V(shape)] + objects, constraints=constraints, grid=grid, shape=shape, quick=quick and quick_default)
        if pinned:
            pin(spec, pinned)
        T[name] = spec

    # 1 chain of position constraints, symbolic margins (the DESIGN probe)
    add("chain-pos", [obj("A", gshape=(2, None, None)), obj("B", gshape=(1, None, None))],
        [c_pos("A", "V", (0,), (-1.0,), (-1.0,), margins=(R("m1", -1.0, L + 1.0),)), c_pos("B", "A", (0,), (-1.0,), (1.0,), margins=(R("m2", -L, L),))])
    add("chain-pos-nonuniform", [obj("A", gshape=(2, None, None)), obj("B", gshape=(1, None, None))],
        [c_pos("A", "V", (0,), (0.0,), (-1.0,), margins=(R("m1", -1.0, 5.0),)), c_pos("B", "A", (0,), (-1.0,), (1.0,), margins=(R("m2", -4.0, 4.0),))], grid="nonuniform")
    # 2 fan: two objects relative to the volume, a third centred on the first
    add("fan", [obj("A", gshape=(2, None, None)), obj("B", gshape=(3, None, None)), obj("C", gshape=(1, None, None))],
        [c_pos("A", "V", (0,), (0.0,), (0.0,), margins=(R("m1", -L, L),)), c_pos("B", "V", (0,), (1.0,), (1.0,), margins=(R("m2", -L, 1.0),)),
         c_pos("C", "A", (0,), (0.0,), (0.0,))])
    # 3 symbolic grid coordinate and grid margin
    add("gridcoord-gridmargin", [obj("A", gshape=(2, None, None)), obj("B", gshape=(1, None, None))],
        [c_grid("A", (0,), ("-",), (I("g", -1, N),)), c_pos("B", "A", (0,), (-1.0,), (1.0,), grid_margins=(I("gm", -N, N),))])
    # 4 two real coordinates define the size; another object copies the size and sits centred on it
    add("realcoords-samesize", [obj("A"), obj("B")],
        [c_real("A", (0,), ("-",), (R("x0", -2.0, 2.0),)), c_real("A", (0,), ("+",), (R("x1", -2.0, 2.0),)), c_size("B", "A", (0,)),
         c_pos("B", "A", (0,), (0.0,), (0.0,), margins=(R("m", -1.0, 1.0),))])
    add("realcoords-nonuniform", [obj("A")], [c_real("A", (0,), ("-",), (R("x0", -3.0, 3.0),)), c_real("A", (0,), ("+",), (R("x1", -3.0, 3.0),))], grid="nonuniform")
    # 5 proportional size with offset
    add("size-proportion", [obj("A", gshape=(3, None, None)), obj("B")],
        [c_grid("A", (0,), ("-",), (1,)), c_size("B", "A", (0,), props=(R("pr", 0.0, 2.0),), offsets=(R("off", -1.0, 1.0),)), c_pos("B", "A", (0,), (0.0,), (0.0,))])
    # 6 extension towards another object and to the volume boundary
    add("extend-to-object", [obj("A", gshape=(2, None, None)), obj("B")],
        [c_pos("A", "V", (0,), (1.0,), (1.0,), margins=(R("m1", -2.0, 0.5),)), c_ext("B", None, 0, "-"), c_ext("B", "A", 0, "+", offset=R("off", -1.0, 1.0))])
    add("extend-grid-offset", [obj("A", gshape=(2, None, None)), obj("B")],
        [c_grid("A", (0,), ("-",), (I("g", 0, N - 2),)), c_ext("B", "A", 0, "-", other_position=R("q", -1.0, 1.0), grid_offset=I("go", -2, 2)), c_ext("B", None, 0, "+")])
    # 7 extension to the volume on one side, real coordinate on the other
    add("extend-to-volume", [obj("B")], [c_ext("B", None, 0, "+"), c_real("B", (0,), ("-",), (R("x", -2.0, 2.0),))])
    # 8 size taken from another axis of the other object
    add("size-other-axis", [obj("A", gshape=(2, 3, 1)), obj("B")],
        [c_grid("A", (0, 1, 2), ("-",) * 3, (1, 0, 1)), c_size("B", "A", (0,), other_axes=(1,), props=(R("pr", 0.0, 2.5),)), c_grid("B", (0,), ("-",), (I("g", 0, N),))])
    # 9 real shape and real (centre) position of the object itself
    add("realshape-realpos", [obj("A", rshape=(R("len", -0.25, L + 0.5), None, None), rpos=(R("x", -2.0, 2.0), None, None)), obj("B", gshape=(1, None, None))],
        [c_pos("B", "A", (0,), (1.0,), (-1.0,))])
    add("realshape-nonuniform", [obj("A", rshape=(R("len", 0.0, 6.0), None, None))], [c_real("A", (0,), ("-",), (R("x", -3.0, 3.0),))], grid="nonuniform", quick=False)
    # 10 mixed grid / real coordinate on the two sides
    add("mixed-coords", [obj("A")], [c_grid("A", (0,), ("-",), (I("g", 0, N),)), c_real("A", (0,), ("+",), (R("x", -2.0, 2.0),))])
    # 11 symbolic anchor positions on both objects
    add("symbolic-anchors", [obj("A", gshape=(2, None, None))], [c_pos("A", "V", (0,), (R("p", -1.0, 1.0),), (R("q", -1.0, 1.0),), margins=(R("m", -1.0, 1.0),))])
    # 12 objects without (or with only partial) specification
    add("unconstrained", [obj("A"), obj("B", gshape=(2, None, None)), obj("C", gshape=(1, None, None))], [c_pos("C", "A", (0,), (0.0,), (0.0,), margins=(R("m", -2.0, 2.0),))])
    # 13 over-determined systems: a position constraint next to two grid coordinates (consistent only for some values)
    add("overdetermined-pos-vs-coords", [obj("A", gshape=(2, None, None)), obj("B", gshape=(2, None, None))],
        [c_pos("A", "B", (0,), (0.0,), (0.0,), margins=(R("m", -1.0, 1.0),)), c_grid("A", (0,), ("-",), (I("ga", 0, 3),)), c_grid("B", (0,), ("-",), (I("gb", 1, 4),))])
    add("overdetermined-pos-vs-2coords", [obj("A", gshape=(2, None, None)), obj("B")],
        [c_pos("A", "B", (0,), (0.0,), (0.0,), margins=(R("m", -1.0, 1.0),)), c_grid("A", (0,), ("-",), (I("ga", 0, 2),)), c_grid("B", (0,), ("-",), (I("gb", 0, 1),)),
         c_grid("B", (0,), ("+",), (I("gb1", 3, 4),))])
    add("overdetermined-pos-vs-coords-pinned", [obj("A", gshape=(2, None, None)), obj("B", gshape=(2, None, None))],
        [c_pos("A", "B", (0,), (0.0,), (0.0,), margins=(R("m", -1.0, 1.0),)), c_grid("A", (0,), ("-",), (I("ga", 0, 1),)), c_grid("A", (0,), ("+",), (I("ga1", 2, 3),)),
         c_grid("B", (0,), ("-",), (I("gb", 1, 2),)), c_grid("B", (0,), ("+",), (I("gb1", 3, 4),))], pinned=["A", "B"])
    # 14 declared grid shape next to both grid coordinates
    add("overdetermined-shape-vs-coords", [obj("A", gshape=(2, None, None))], [c_grid("A", (0,), ("-",), (I("g0", 0, N),)), c_grid("A", (0,), ("+",), (I("g1", 0, N),))])
    add("overdetermined-shape-vs-coords-pinned", [obj("A", gshape=(2, None, None))],
        [c_grid("A", (0,), ("-",), (I("g0", 0, N),)), c_grid("A", (0,), ("+",), (I("g1", 0, N),))], pinned=["A"])
    # 15 size constraint next to a declared shape / to coordinates
    add("overdetermined-size", [obj("A", gshape=(3, None, None)), obj("B", gshape=(I("n", 1, N), None, None))],
        [c_grid("A", (0,), ("-",), (0,)), c_size("B", "A", (0,), props=(R("pr", 0.0, 2.0),)), c_grid("B", (0,), ("-",), (0,))])
    add("overdetermined-size-pinned", [obj("A", gshape=(3, None, None)), obj("B", gshape=(2, None, None))],
        [c_size("B", "A", (0,), props=(R("pr", 0.0, 2.0),)), c_grid("A", (0,), ("-",), (0,)), c_grid("A", (0,), ("+",), (3,)), c_grid("B", (0,), ("-",), (I("g", 0, 2),)),
         c_grid("B", (0,), ("+",), (I("g1", 2, N),))], pinned=["A", "B"])
    # 16 extension next to a position constraint and a declared shape
    add("overdetermined-ext-pos", [obj("A", gshape=(2, None, None)), obj("B", gshape=(2, None, None))],
        [c_grid("A", (0,), ("-",), (I("g", 0, N - 2),)), c_pos("B", "A", (0,), (-1.0,), (1.0,), margins=(R("m", -1.0, 1.0),)), c_ext("B", None, 0, "+")])
    add("overdetermined-ext-pinned", [obj("A", gshape=(2, None, None)), obj("B")],
        [c_ext("B", "A", 0, "+", offset=R("off", -1.0, 1.0)), c_grid("B", (0,), ("-",), (0,)), c_grid("B", (0,), ("+",), (I("g1", 1, 4),)), c_grid("A", (0,), ("-",), (I("g", 2, 4),)),
         c_grid("A", (0,), ("+",), (I("ga1", 4, N),))], pinned=["A", "B"])
    # 17 real position next to coordinates (size only known from the coordinates)
    # (removed) "overdetermined-realpos": a partial_real_position *attribute* next to two explicit coordinates is ignored by the
    # resolver.  The property statement lists the constraint kinds (position, size, extension, grid/real coordinate), not
    # object attributes, so demanding it here asked for more than the statement says (harness correction, see DESIGN.md).
    # 18 position relative to an object that is itself only resolved by the extension step
    add("pos-to-extended", [obj("A"), obj("B", gshape=(2, None, None))], [c_pos("B", "A", (0,), (-1.0,), (-1.0,), margins=(R("m", -1.0, 4.0),))])
    # 18b extension / position relative to an object that is only resolved by the extension step, next to other constraints
    add("ext-to-extended", [obj("A"), obj("B")],
        [c_grid("B", (0,), ("-",), (I("g", 0, 2),)), c_ext("B", "A", 0, "+", other_position=R("q", -1.0, 1.0), offset=R("off", -0.5, 0.5))])
    add("pos-to-extended2", [obj("A"), obj("B", gshape=(2, None, None)), obj("C", gshape=(1, None, None))],
        [c_pos("C", "V", (0,), (-1.0,), (-1.0,), margins=(R("m1", -0.5, 3.0),)), c_pos("B", "A", (0,), (-1.0,), (-1.0,), margins=(R("m", -1.0, 4.0),))])
    # 18c multi-axis constraints whose axes become resolvable in different passes: S is centred on the volume by ONE position constraint
    #     over axes (0, 1); its y size is declared, its x size only follows from a size constraint listed later, so axis 1 of that
    #     constraint resolves one pass before axis 0.  B sits against S along x by a constraint listed before both.
    add("multiaxis-staged", [obj("S", gshape=(None, 2, None)), obj("B", gshape=(1, 1, None))],
        [c_pos("B", "S", (0,), (-1.0,), (1.0,), margins=(R("m", -0.5, 0.5),)), c_pos("S", "V", (0, 1), (0.0, 0.0), (0.0, 0.0), margins=(R("m1", -0.5, 0.5), R("m2", -0.25, 0.25))),
         c_size("S", "V", (0,), props=(R("pr", 0.3, 0.6),))], shape=(N, 4, 3))
    # the same with B also centred on the volume along y (two-axis constraint) and S positioned on all three axes (the usual scene layout)
    add("multiaxis-staged3", [obj("S", gshape=(None, 2, 1)), obj("B", gshape=(1, 1, 1))],
        [c_pos("B", "S", (0,), (-1.0,), (1.0,), margins=(R("m", -0.5, 0.5),)), c_pos("B", "V", (1, 2), (0.0, 0.0), (0.0, 0.0)),
         c_pos("S", "V", (0, 1, 2), (0.0, 0.0, 0.0), (0.0, 0.0, 0.0), margins=(R("m1", -0.5, 0.5), 0, 0)), c_size("S", "V", (0,), props=(R("pr", 0.25, 0.75),))], shape=(N, 4, 3))
    # an object with TWO PositionConstraints on different axes whose reference object gets its lateral bounds only from the
    # extension to infinity (substrate without lateral size): the pending lateral constraint must block B's own extension whatever
    # the order of B's constraints in the list (seeded change C27b)
    add("inf-extension-two-pos", [obj("S", gshape=(None, None, 1)), obj("B", gshape=(1, 2, 1))],
        [c_pos("B", "S", (2,), (-1.0,), (1.0,)), c_pos("B", "S", (0, 1), (0.0, 0.0), (0.0, 0.0), margins=(R("m", -0.5, 0.5), 0)),
         c_pos("S", "V", (2,), (-1.0,), (-1.0,))], shape=(N, 4, 3))
    # 19 longer chain (thorough)
    add("chain3", [obj("A", gshape=(2, None, None)), obj("B", gshape=(1, None, None)), obj("C", gshape=(2, None, None))],
        [c_pos("A", "V", (0,), (-1.0,), (-1.0,), margins=(R("m1", -0.5, 2.0),)), c_pos("B", "A", (0,), (-1.0,), (1.0,), margins=(R("m2", -1.0, 1.0),)),
         c_pos("C", "B", (0,), (-1.0,), (1.0,), margins=(R("m3", -1.0, 1.0),))], quick=False)
    add("chain-pos-7", [obj("A", gshape=(3, None, None)), obj("B", gshape=(2, None, None))],
        [c_pos("A", "V", (0,), (-1.0,), (-1.0,), margins=(R("m1", -1.0, 4.5),)), c_pos("B", "A", (0,), (0.0,), (1.0,), margins=(R("m2", -4.0, 4.0),))], shape=(7, 3, 3), quick=False)
    add("extend-nonuniform", [obj("A", gshape=(2, None, None)), obj("B")],
        [c_real("A", (0,), ("-",), (R("x", -3.0, 2.0),)), c_ext("B", None, 0, "-"), c_ext("B", "A", 0, "+", other_position=R("q", -1.0, 1.0), offset=R("off", -1.0, 1.0))],
        grid="nonuniform", quick=False)
    add("size-nonuniform", [obj("A", gshape=(3, None, None)), obj("B")],
        [c_real("A", (0,), ("-",), (R("x", -3.0, 1.0),)), c_size("B", "A", (0,), props=(R("pr", 0.0, 2.0),), offsets=(R("off", -0.5, 0.5),)), c_real("B", (0,), ("-",), (-3.0,))],
        grid="nonuniform", quick=False)
    return T


def cases(tier, seed):
    out = []
    for name, spec in templates(tier).items():
        if tier == "quick" and not spec["quick"]:
            continue
        out.append(dict(name=name, template=name))
    return out


# ------------------------------------------------------------------------------------------------ run
def explore_template(c, spec, runs, on_path, max_paths=4000):
    """drive the real resolver over every feasible path.  ``runs(objs, cons)`` -> list of (objs, cons) orders to execute inside one
    path; on_path(results, pc, envz) receives [(res, exc)] per order."""
    envs, envz, assume = fresh_env(spec)
    c.symvars += len(envs)
    cfg = make_config(spec)
    objs, cons = build_real(spec, envs)
    orders = runs(objs, cons)

    def fn():
        out = []
        for o, k in orders:
            try:
                out.append((run_resolver(o, k, cfg), None))
            except pysym.PathAbort:
                raise
            except pysym.Budget:
                raise
            except Exception as e:  # noqa: BLE001
                out.append((None, e))
        return out

    ex = Explorer(assume, max_paths=max_paths, timeout_ms=c.timeout_ms, int_range=16)
    with stubs():
        try:
            ex.explore(fn, lambda res, exc, pc: on_path(res, pc, envz))
        except pysym.Budget as b:
            c.inconclusive.append(f"{c.name}: exploration budget: {b}")
        except StopExploration as st:
            pysym._CUR = None
            c.notes.append(f"exploration stopped early: {st}")
    c.paths += ex.paths
    c.queries += ex.queries
    c.solver_s += ex.solver_s
    c.extra["concretisations"] = c.extra.get("concretisations", 0) + ex.concretisations
    if ex.unknown:
        c.notes.append(f"{ex.unknown} feasibility queries were 'unknown' (both sides explored)")
    return ex, envz, assume


def run_case(c, case):
    spec = templates(c.tier)[case["template"]]
    c.functions.update(META["functions"])
    c.bounds.update(shape=spec["shape"], grid=spec.get("grid", "uniform"), symbols=sorted(symbols_of(spec)))
    stats = dict(success_paths=0, failed_paths=0)
    first_success, all_success = [], []
    violated_keys = set()

    def on_path(results, pc, envz):
        (res, exc), = results
        if not success(res, exc):
            stats["failed_paths"] += 1
            return
        stats["success_paths"] += 1
        slices, _ = res
        orc = Oracle(spec, envz, slices)
        cl = orc.clauses()
        if not first_success:
            first_success.append((pc, cl, slices))
        all_success.append((pc, slices))

        def mk_replay(kind):
            def replay(m):
                env = concrete_env(spec, m, envz)
                r, e = concrete_run(spec, env)
                detail = dict(template=spec["name"], inputs=env, constraints=[_describe(k, env) for k in spec["constraints"]], objects=[_describe(o, env) for o in spec["objects"]])
                if not success(r, e):
                    detail.update(outcome="placement fails on the concrete witness", errors={k: str(v)[:120] for k, v in (r[1] if r else {}).items() if v}, raised=repr(e)[:200] if e else None)
                    return False, detail
                bad = concrete_failed_kinds(spec, env, r)
                detail.update(resolved_slices={k: [list(map(int, b)) for b in v] for k, v in r[0].items()}, violated_clauses=bad)
                return kind in bad, detail
            return replay

        for kind, f in cl.items():
            key = f"{kind}:{spec['name']}"
            if key in violated_keys:  # already replay-confirmed for this template: the verdict for this key cannot change any more
                stats["obligations_skipped_after_violation"] = stats.get("obligations_skipped_after_violation", 0) + 1
                continue
            nv = len(c.violations)
            c.prove(f"{kind}#path{stats['success_paths']}", f, pc, mk_replay(kind), key=key)
            if len(c.violations) > nv:
                violated_keys.add(key)

    ex, envz, assume = explore_template(c, spec, lambda o, k: [(o, k)], on_path)
    c.extra.update(stats)
    # vacuity twins: (1) placement can succeed; (2) the resolved slices are not one fixed placement: some successful input gives
    # slices different from those of a first successful input (the resolver's answer really depends on the symbolic inputs)
    if not first_success:
        c.witness("some path succeeds", False)
        return
    pc0, _, slices0 = first_success[0]
    c.witness("a successful placement exists", z3.BoolVal(True), pc0)
    s0 = z3.Solver()
    s0.add(*pc0)
    if s0.check() != z3.sat:
        raise Inconclusive("path condition of a completed path is not sat")
    m0 = s0.model()
    ref = {n: [(int(model_value(m0, zt(b0))), int(model_value(m0, zt(b1)))) for b0, b1 in sl] for n, sl in slices0.items()}
    twin = False
    for pc, slices in all_success:
        diff = [zt(b) != r for n, sl in slices.items() for (b0, b1), (r0, r1) in zip(sl, ref[n]) for b, r in ((b0, r0), (b1, r1))]
        sv = z3.Solver()
        sv.add(*pc, z3.Or(*diff))
        if sv.check() == z3.sat:
            twin = True
            c.witness("resolved slices depend on the symbolic inputs", z3.Or(*diff), pc)
            break
    if not twin:
        c.witness("resolved slices depend on the symbolic inputs", False)


def _describe(x, env):
    y = subst(x, env)
    return {k: v for k, v in y.items() if v not in (None, [None, None, None])}
