"""C07 -- stopping conditions stop exactly where documented (E1 with symbolic Int time).

Two layers, both over the real code:

* **predicate layer**: ``TimeStepCondition`` / ``EnergyThresholdCondition`` / ``DetectorConvergenceCondition.__call__``
  are traced after the real ``setup`` and interpreted with the current time step a z3 ``Int``, the fields (hence the
  energy) / the detector trace symbolic reals, the threshold a symbolic real and ``min_steps`` / ``max_steps`` symbolic
  Ints (injected with ``aset`` after ``setup``; the ``None`` patterns, handled by ``setup``, are enumerated).  Oracle
  (from the docstrings): never continue at ``t >= max_steps`` (default: total steps), always continue below
  ``min(min_steps, max_steps)``, in between continue exactly while the documented convergence test fails.
* **loop layer**: the real ``run_fdtd`` -> ``checkpointed_fdtd`` -> ``eqxi.while_loop`` is traced with a user-defined
  ``StoppingCondition`` whose answer at step t is entry t of a *symbolic Bool table* (any condition is such a table on a
  deterministic run) and interpreted path-sensitively; z3 decides that the run halts at the first step whose entry is
  "stop", never later than the total step count, with the state (fields, detector states) of a plain run of that many
  ``forward`` steps.
"""
from __future__ import annotations

import time
from fractions import Fraction

import jax
import jax.numpy as jnp
import numpy as np
import z3

import fdtdx

from .. import jx2smt as jx
from .. import sc
from ..core import Inconclusive, model_array, model_value
from ..scenes import box_detector, build_scene, dipole

META = dict(
    functions=["fdtd.stop_conditions.TimeStepCondition.__call__", "EnergyThresholdCondition.setup", "EnergyThresholdCondition.__call__",
               "DetectorConvergenceCondition.setup", "DetectorConvergenceCondition._validate", "DetectorConvergenceCondition.__call__",
               "fdtd.wrapper.run_fdtd", "fdtd.fdtd.checkpointed_fdtd", "equinox.internal.while_loop (as lowered into the traced jaxpr)",
               "fdtd.forward.forward (loop body)", "core.physics.metrics.compute_energy (as oracle helper, not under test)"],
    assumptions=[
        "reals instead of floats; sqrt of a symbolic argument is an uninterpreted function with the sound axioms s >= 0, s*s = x",
        "0 <= t (<= total steps for the detector condition, whose window arithmetic the loop never evaluates beyond that)",
        "threshold > 0, min_steps >= 0, and for the detector condition min_steps >= (prev_periods+1)*spp as its _validate demands",
        "min_steps may exceed max_steps (e.g. the default min_steps = 0.1*total with a small explicit max_steps): the statement makes the maximum unconditional, so it wins",
        "detector convergence value (continue <=> spectral distance >= threshold) only for samples-per-period 2 (DFT twiddles exact, all bins real; with spp = 4 the nested sqrt terms leave z3 'unknown'); the distance oracle is compared in squared form",
        "DetectorConvergenceCondition is traced with an int64 time step: under jax_enable_x64 its dynamic_slice call rejects the int32 step the real loop carries (TypeError), so its end-to-end run through run_fdtd is not exercised here",
        "loop layer: the stop predicate is an arbitrary function of the time step only (a symbolic table); gradient_config=None as run_fdtd requires for custom conditions",
    ],
    outside="total steps beyond the bounds; vmapped/batched runs of the while loop; reversible_fdtd (ignores stopping conditions); float round-off in the energy / spectral distance at the threshold; progress-bar callbacks (off)",
    bounds=dict(quick=dict(T_predicate=[12, 24], T_loop=[3], spp_prev=[(2, 1), (2, 2)]),
                thorough=dict(T_predicate=[12, 24, 40], T_loop=[3, 5], spp_prev=[(2, 1), (2, 2), (4, 1), (3, 2), (2, 4)])),
    timeout_ms=dict(quick=60000, thorough=180000),
)


def cases(tier, seed):
    out = [dict(name="timestep-T12", kind="timestep", T=12)]
    Ts = [12, 24] if tier == "quick" else [12, 24, 40]
    for T in Ts:
        for mn in ("none", "given"):
            for mx in ("none", "given"):
                if tier == "quick" and T == 24 and mn != mx:
                    continue
                out.append(dict(name=f"energy-T{T}-min_{mn}-max_{mx}", kind="energy", T=T, mn=mn, mx=mx))
    sp = [(2, 1), (2, 2)] if tier == "quick" else [(2, 1), (2, 2), (4, 1), (3, 2), (2, 4)]
    for spp, P in sp:
        for T in Ts:
            if (P + 1) * spp + 2 > T or (tier == "quick" and T != 12) or (T == 40 and (spp, P) != (2, 2)) or (spp == 3 and T != 12):
                continue
            for mn in ("none", "given"):
                for mx in ("none", "given"):
                    if tier == "quick" and (spp, P) == (2, 2) and mn != mx:
                        continue
                    out.append(dict(name=f"detector-T{T}-spp{spp}-prev{P}-min_{mn}-max_{mx}", kind="detector", T=T, spp=spp, P=P, mn=mn, mx=mx))
    out.append(dict(name="loop-T3-periodic", kind="loop", T=3, scene="periodic"))
    # the real EnergyThresholdCondition inside the real loop, with max_steps beyond the configured total (seeded change C07b)
    out.append(dict(name="loop-energy-T3-max6", kind="loop_energy", T=3, mx=6, mn=2))
    if tier != "quick":
        out.append(dict(name="loop-energy-T4-max4", kind="loop_energy", T=4, mx=4, mn=2))
        out.append(dict(name="loop-energy-T4-max9-min6", kind="loop_energy", T=4, mx=9, mn=6))
    if tier != "quick":
        out.append(dict(name="loop-T5-periodic", kind="loop", T=5, scene="periodic"))
        out.append(dict(name="loop-T3-pml", kind="loop", T=3, scene="pml"))
    return out


def run_case(c, case):
    c.functions.update(META["functions"])
    {"timestep": _timestep, "energy": _energy, "detector": _detector, "loop": _loop, "loop_energy": _loop_energy}[case["kind"]](c, case)


def _scene(T, detector=False, kind="periodic"):
    extra = [dipole("src", (0, 0, 0))]
    shape = (2, 2, 2)
    if kind == "pml":
        shape = (5, 3, 2)
        extra = [dipole("src", (2, 1, 0))]
    if detector:
        extra.append(box_detector(fdtdx.EnergyDetector, "det", (0, 0, 0), shape, reduce_volume=True))
    bounds = "periodic" if kind == "periodic" else {"min_x": "pml", "max_x": "pml"}
    S = build_scene(shape, bounds, thickness=1, steps=T, extra_objects=extra, background=fdtdx.Material(permittivity=(2.0, 3.0, 1.5), permeability=(1.0, 1.2, 1.0)))
    if S["config"].time_steps_total != T:
        raise Inconclusive(f"scene has {S['config'].time_steps_total} steps, wanted {T}")
    return S


def _zbool(x):
    x = x.reshape(-1)[0] if isinstance(x, np.ndarray) else x
    return x if sc.isz(x) else z3.BoolVal(bool(x))


# ------------------------------------------------------------------------------------------------------ TimeStepCondition
def _timestep(c, case):
    from fdtdx.fdtd.stop_conditions import TimeStepCondition

    T = case["T"]
    S = _scene(T)
    arr, oc, cfg = S["arrays"], S["objects"], S["config"]
    cond = TimeStepCondition().setup((jnp.asarray(0, dtype=jnp.int32), arr), cfg, oc)
    t = z3.Int("t")
    c.symvars += 1
    out, tr = jx.call(lambda t: cond((t, arr), cfg, oc), jx.obj0(t))
    cont = _zbool(out)
    c.validate(np.asarray([bool(jx.to_numeric(tr(np.asarray(3, dtype=np.int32))))], dtype=float), np.asarray([float(bool(cond((jnp.asarray(3, dtype=jnp.int32), arr), cfg, oc)))]), "TimeStepCondition")

    def replay(m):
        tt = model_value(m, t)
        got = bool(cond((jnp.asarray(tt, dtype=jnp.int32), arr), cfg, oc))
        return got != (tt < T), dict(t=tt, total_steps=T, continues=got)

    c.prove("continue <=> t < total steps", cont == (t < T), [t >= 0, t <= 2**31 - 1], replay, key="timestep:bound")
    c.witness("twin: can continue", cont, [t >= 0])
    c.witness("twin: can stop", z3.Not(cont), [t >= 0])


# ------------------------------------------------------------------------------------------------------ EnergyThresholdCondition
def _energy(c, case):
    from fdtdx.core.physics.metrics import compute_energy
    from fdtdx.fdtd.stop_conditions import EnergyThresholdCondition

    T = case["T"]
    S = _scene(T)
    arr, oc, cfg = S["arrays"], S["objects"], S["config"]
    state0 = (jnp.asarray(0, dtype=jnp.int32), arr)
    mn_given, mx_given = case["mn"] == "given", case["mx"] == "given"
    kw = {}
    if mn_given:
        kw["min_steps"] = 3
    if mx_given:
        kw["max_steps"] = T - 2
    cond = EnergyThresholdCondition(threshold=1e-6, **kw).setup(state0, cfg, oc)
    # documented defaults established by the real setup
    c.prove("setup: max_steps default is the total step count", bool(cond.max_steps == (T - 2 if mx_given else T)))
    dflt_min = int(Fraction(T, 10) + Fraction(1, 2))  # nearest integer to 0.1*T (T chosen so that no tie occurs)
    if not mn_given and cond.min_steps != dflt_min:
        c.fail_concrete("setup: min_steps default is not round(0.1 * total steps)", dict(T=T, min_steps=cond.min_steps, expected=dflt_min), key="energy:setup-default-min")
    else:
        c.prove("setup: min_steps default is round(0.1 * total steps)", True)

    fsh = arr.fields.E.shape
    E, H = jx.symarr("E", fsh), jx.symarr("H", fsh)
    t, thr = z3.Int("t"), z3.Real("thr")
    mn, mx = z3.Int("min_steps"), z3.Int("max_steps")
    c.symvars += E.size + H.size + 2 + int(mn_given) + int(mx_given)
    names = ["t", "E", "H", "thr"] + (["mn"] if mn_given else []) + (["mx"] if mx_given else [])

    def pred(t, E, H, thr, *mm):
        cd = cond.aset("threshold", thr)
        mm = list(mm)
        if mn_given:
            cd = cd.aset("min_steps", mm.pop(0))
        if mx_given:
            cd = cd.aset("max_steps", mm.pop(0))
        return cd((t, arr.aset("fields->E", E).aset("fields->H", H)), cfg, oc)

    def energy(E, H):
        return jnp.sum(compute_energy(E, H, arr.inv_permittivities, arr.inv_permeabilities))

    extra = ([jx.obj0(mn)] if mn_given else []) + ([jx.obj0(mx)] if mx_given else [])
    t0 = time.time()
    it = jx.Interp()
    out, tr = jx.call(pred, jx.obj0(t), E, H, jx.obj0(thr), *extra, interp=it)
    en, _ = jx.call(energy, E, H)
    c.interp_s += time.time() - t0
    cont, en = _zbool(out), en.reshape(-1)[0]
    # the total energy enters the predicate only as one term: abstract it by a single non-negative Real (DESIGN C07) when
    # the predicate's energy term is syntactically the oracle helper's term; otherwise the field-level formula is kept
    en_var = z3.Real("total_energy")
    cont_abs = z3.substitute(cont, (en, en_var))
    fieldvars = set(jx.variables_of([E, H]))
    abstracted = sc.isz(en) and not (set(jx.variables_of([jx.obj0(cont_abs)])) & fieldvars)
    if abstracted:
        cont, en_t = cont_abs, en_var
    else:
        en_t = en
        c.notes.append("energy term not abstracted (predicate's energy term differs syntactically from compute_energy's)")
    mn_eff = mn if mn_given else z3.IntVal(dflt_min)
    mx_eff = mx if mx_given else z3.IntVal(T)
    assume = [t >= 0, t <= 2**31 - 1, thr > 0, mn_eff >= 0, mx_eff >= 0, mx_eff <= 2**31 - 1]  # min_steps may exceed max_steps: the maximum wins + [cnd for (_, cnd, _) in it.side]
    if abstracted:
        assume.append(en_var >= 0)

    # translator validation on one concrete input
    rng = np.random.default_rng(c.seed + 7)
    cE, cH = rng.normal(size=fsh), rng.normal(size=fsh)
    cen = float(energy(jnp.asarray(cE), jnp.asarray(cH)))
    for tt in (1, T - 3, T + 1):
        cargs = [np.asarray(tt, dtype=np.int32), jx.fracarr(cE), jx.fracarr(cH), jx.fracarr(np.asarray(cen * 0.5))] + ([np.asarray(4, dtype=np.int32)] if mn_given else []) + ([np.asarray(T - 2, dtype=np.int32)] if mx_given else [])
        want = pred(jnp.asarray(tt, dtype=jnp.int32), jnp.asarray(cE), jnp.asarray(cH), jnp.asarray(cen * 0.5), *([jnp.asarray(4, dtype=jnp.int32)] if mn_given else []), *([jnp.asarray(T - 2, dtype=jnp.int32)] if mx_given else []))
        c.validate(np.asarray([float(bool(jx.to_numeric(tr(*cargs))))]), np.asarray([float(bool(want))]), "EnergyThresholdCondition")

    ie, im = np.asarray(arr.inv_permittivities, dtype=np.float64), np.asarray(arr.inv_permeabilities, dtype=np.float64)

    def replay(m):
        tt, th = model_value(m, t), model_value(m, thr)
        mnv = model_value(m, mn) if mn_given else None
        mxv = model_value(m, mx) if mx_given else None
        cE, cH = model_array(m, E).astype(np.float64), model_array(m, H).astype(np.float64)
        if abstracted:
            # realise the abstract energy value by a single non-zero field entry: 0.5 * x^2 / inv_eps = e
            e = model_value(m, en_var)
            cE, cH = np.zeros(fsh), np.zeros(fsh)
            cE.reshape(-1)[0] = np.sqrt(2.0 * e * np.broadcast_to(ie, fsh).reshape(-1)[0])
        cd = EnergyThresholdCondition(threshold=th, min_steps=mnv, max_steps=mxv).setup(state0, cfg, oc)
        got = bool(cd((jnp.asarray(tt, dtype=jnp.int32), arr.aset("fields->E", jnp.asarray(cE)).aset("fields->H", jnp.asarray(cH))), cfg, oc))
        e_or = float(np.sum(0.5 * cE**2 / np.broadcast_to(ie, cE.shape) + 0.5 * cH**2 / np.broadcast_to(im, cH.shape)))  # documented energy, written independently
        mne, mxe = (mnv if mn_given else dflt_min), (mxv if mx_given else T)
        if tt >= mxe:
            want = False
        elif tt < mne:
            want = True
        else:
            if abs(e_or - th) <= 1e-9 * (abs(th) + abs(e_or)):
                raise Inconclusive("witness sits on the energy threshold where float round-off decides")
            want = not (e_or < th)
        return got != want, dict(t=tt, threshold=th, min_steps=mnv, max_steps=mxv, total_steps=T, energy=e_or, continues=got, documented=want, E=cE, H=cH)

    tag = f"min_{case['mn']}-max_{case['mx']}"
    c.prove("t >= max_steps => stop", z3.Implies(t >= mx_eff, z3.Not(cont)), assume, replay, key=f"energy:max_steps:{tag}")
    c.prove("t < min_steps (and < max_steps) => continue", z3.Implies(z3.And(t < mn_eff, t < mx_eff), cont), assume, replay, key=f"energy:min_steps:{tag}")
    c.prove("min_steps <= t < max_steps => (continue <=> energy >= threshold)", z3.Implies(z3.And(t >= mn_eff, t < mx_eff), cont == z3.Not(en_t < thr)), assume, replay, key=f"energy:threshold:{tag}")
    c.witness("twin: continues between min and max", z3.And(t >= mn_eff, t < mx_eff, cont), assume)
    c.witness("twin: stops between min and max (energy below threshold)", z3.And(t >= mn_eff, t < mx_eff, z3.Not(cont)), assume)


# ------------------------------------------------------------------------------------------------------ DetectorConvergenceCondition
def _dist2_oracle(win_ref, win_last, spp, P):
    """squared spectral distance of the docstring for spp in {2, 4}: |DFT(mean of the P reference periods)| vs |DFT(last
    period)|, one-sided spectrum (rfft bins 0..spp/2).  Entries are scalars of vf.sc; returns (dist^2, uses_sqrt)."""
    mean = [sc.div(sum_(win_ref[p * spp + j] for p in range(P)), P) for j in range(spp)]

    def bins(x):
        if spp == 2:
            return [(sc.add(x[0], x[1]), 0), (sc.sub(x[0], x[1]), 0)]
        if spp == 4:
            return [(sc.add(sc.add(x[0], x[1]), sc.add(x[2], x[3])), 0), (sc.sub(x[0], x[2]), sc.sub(x[3], x[1])),
                    (sc.add(sc.sub(x[0], x[1]), sc.sub(x[2], x[3])), 0)]
        raise ValueError(spp)

    def mag(b):
        re, im = b
        if sc.iszero(im):
            return sc.abs_(re)
        return sc.sqrt(sc.add(sc.mul(re, re), sc.mul(im, im)))

    d2 = 0
    for br, bl in zip(bins(mean), bins(win_last)):
        d = sc.sub(mag(br), mag(bl))
        d2 = sc.add(d2, sc.mul(d, d))
    return d2


def sum_(it):
    acc = 0
    for v in it:
        acc = sc.add(acc, v)
    return acc


def _detector(c, case):
    from fdtdx.fdtd.stop_conditions import DetectorConvergenceCondition

    T, spp, P = case["T"], case["spp"], case["P"]
    S = _scene(T, detector=True)
    arr, oc, cfg = S["arrays"], S["objects"], S["config"]
    dt = cfg.time_step_duration
    state0 = (jnp.asarray(0, dtype=jnp.int32), arr)
    mn_given, mx_given = case["mn"] == "given", case["mx"] == "given"
    need = (P + 1) * spp
    wave = fdtdx.WaveCharacter(period=spp * dt)
    kw = {}
    if mn_given:
        kw["min_steps"] = need + 1
    if mx_given:
        kw["max_steps"] = T - 2
    cond = DetectorConvergenceCondition(detector_name="det", wave_character=wave, prev_periods=P, threshold=1e-3, **kw).setup(state0, cfg, oc)
    c.prove("setup: samples per period = round(period / dt)", bool(cond._spp == spp))
    c.prove("setup: max_steps default is the total step count", bool(cond.max_steps == (T - 2 if mx_given else T)))
    c.prove("setup: min_steps default is (prev_periods + 1) * spp", bool(cond.min_steps == (need + 1 if mn_given else need)))

    rkey = next(iter(arr.detector_states["det"].keys()))
    rshape = arr.detector_states["det"][rkey].shape
    if tuple(rshape) != (T, 1):
        raise Inconclusive(f"detector readings have shape {rshape}")
    R = jx.symarr("r", rshape)
    t, thr = z3.Int("t"), z3.Real("thr")
    mn, mx = z3.Int("min_steps"), z3.Int("max_steps")
    c.symvars += R.size + 2 + int(mn_given) + int(mx_given)

    def pred(t, R, thr, *mm):
        cd = cond.aset("threshold", thr)
        mm = list(mm)
        if mn_given:
            cd = cd.aset("min_steps", mm.pop(0))
        if mx_given:
            cd = cd.aset("max_steps", mm.pop(0))
        return cd((t, arr.aset("detector_states", {"det": {rkey: R}})), cfg, oc)

    extra = ([jx.obj0(mn)] if mn_given else []) + ([jx.obj0(mx)] if mx_given else [])
    dts = {0: jnp.int64}
    for i in range(len(extra)):
        dts[3 + i] = jnp.int64
    t0 = time.time()
    it = jx.Interp()
    out, tr = jx.call(pred, jx.obj0(t), R, jx.obj0(thr), *extra, interp=it, dtypes=dts)
    c.interp_s += time.time() - t0
    cont = _zbool(out)
    mn_eff = mn if mn_given else z3.IntVal(need)
    mx_eff = mx if mx_given else z3.IntVal(T)
    assume = [t >= 0, t <= T, thr > 0, mn_eff >= need, mx_eff >= 0, mx_eff <= 2**31 - 1]  # min_steps may exceed max_steps: the maximum wins
    assume += [a for a in sc.UF.axioms()]

    rng = np.random.default_rng(c.seed + 11)
    cR = rng.normal(size=rshape)
    for tt, th in ((1, 0.5), (need, 0.5), (T - 3, 1e3), (T - 3, 1e-3), (T, 0.5)):
        ci = [jnp.asarray(need + 1, dtype=jnp.int64)] * int(mn_given) + [jnp.asarray(T - 2, dtype=jnp.int64)] * int(mx_given)
        want = pred(jnp.asarray(tt, dtype=jnp.int64), jnp.asarray(cR), jnp.asarray(th), *ci)
        got = tr(np.asarray(tt, dtype=np.int64), jx.fracarr(cR), jx.fracarr(np.asarray(th)), *[np.asarray(v) for v in ci])
        c.validate(np.asarray([float(bool(jx.to_numeric(got)))]), np.asarray([float(bool(want))]), "DetectorConvergenceCondition")

    def dist_concrete(r, tt):
        """documented spectral distance on a concrete trace (numpy, written independently)."""
        ref = r[tt - (P + 1) * spp: tt - spp].reshape(P, spp).mean(axis=0)
        last = r[tt - spp: tt]
        return float(np.linalg.norm(np.abs(np.fft.rfft(ref)) - np.abs(np.fft.rfft(last))))

    def replay(m):
        tt, th = model_value(m, t), model_value(m, thr)
        mnv = model_value(m, mn) if mn_given else None
        mxv = model_value(m, mx) if mx_given else None
        cR = model_array(m, R).astype(np.float64)
        cd = DetectorConvergenceCondition(detector_name="det", wave_character=wave, prev_periods=P, threshold=th, min_steps=mnv, max_steps=mxv).setup(state0, cfg, oc)
        got = bool(cd((jnp.asarray(tt, dtype=jnp.int64), arr.aset("detector_states", {"det": {rkey: jnp.asarray(cR)}})), cfg, oc))
        mne, mxe = (mnv if mn_given else need), (mxv if mx_given else T)
        d = None
        if tt >= mxe:
            want = False
        elif tt < mne:
            want = True
        else:
            d = dist_concrete(cR[:, 0], tt)
            if abs(d - th) <= 1e-9 * (abs(th) + abs(d)):
                raise Inconclusive("witness sits on the convergence threshold where float round-off decides")
            want = not (d < th)
        return got != want, dict(t=tt, threshold=th, min_steps=mnv, max_steps=mxv, total_steps=T, samples_per_period=spp, prev_periods=P,
                                 spectral_distance=d, continues=got, documented=want, readings=cR[:, 0])

    tag = f"min_{case['mn']}-max_{case['mx']}"
    kmax = f"detector:max_steps-{'given-but-ignored' if mx_given else 'default'}:{tag}"
    # guided witness search first (a sub-domain: fixed non-periodic trace, threshold 1e-3): finding a non-converged trace
    # under the sqrt axioms can exhaust z3 on the full domain; an unsat answer here is just an obligation on the sub-domain
    guide = [thr == Fraction(1, 1000)] + [R[i, 0] == Fraction((i * i) % 5 + i % 3, 4) for i in range(T)]
    pin = [t == T - 1] + ([mx == T - 2] if mx_given else [])  # one concrete window: z3 only has to evaluate the sqrt terms
    ok = c.prove("t >= max_steps => stop (fixed non-periodic trace, t = T-1, max_steps = T-2)", z3.Implies(t >= mx_eff, z3.Not(cont)), assume + guide + pin, replay, key=kmax)
    if ok:
        c.prove("t >= max_steps => stop", z3.Implies(t >= mx_eff, z3.Not(cont)), assume, replay, key=kmax)
    c.prove("t >= total steps (>= min_steps) => stop", z3.Implies(z3.And(t >= T, mn_eff <= T), z3.Not(cont)), assume, replay, key=f"detector:total-steps:{tag}")
    c.prove("t < min_steps (and < max_steps, < total steps) => continue", z3.Implies(z3.And(t < mn_eff, t < mx_eff, t < T), cont), assume, replay, key=f"detector:min_steps:{tag}")
    # vacuity twins on guided sub-domains (existence claims: restricting the trace is sound and keeps z3 away from a
    # free search through the sqrt terms): a non-periodic trace keeps running, an exactly periodic one has converged
    periodic = [thr == 1] + [R[i, 0] == Fraction((i % spp) * (i % spp) + 1, 4) for i in range(T)]
    c.witness("twin: continues between min and max (non-periodic trace)", z3.And(t >= mn_eff, t < mx_eff, t < T, cont), assume + guide + [t == need + 1])
    c.witness("twin: stops between min and max (periodic trace has converged)", z3.And(t >= mn_eff, t < mx_eff, t < T, z3.Not(cont)), assume + periodic + [t == need + 1])
    if spp == 2:
        # value of the convergence test (spp = 2: every rfft bin is real, the distance has no inner sqrt; spp = 4 was tried: z3 'unknown'), per query time (t substituted into the one symbolic-time interpretation)
        Rf = R[:, 0]
        for tt in range(need, T):
            ct = z3.simplify(z3.substitute(cont, (t, z3.IntVal(tt))))
            d2 = _dist2_oracle([Rf[i] for i in range(tt - (P + 1) * spp, tt - spp)], [Rf[i] for i in range(tt - spp, tt)], spp, P)
            conv = sc.lt(d2, sc.mul(thr, thr))
            ax = [z3.substitute(a, (t, z3.IntVal(tt))) for a in sc.UF.axioms()]  # the sqrt argument mentions t
            a2 = [thr > 0, mn_eff >= need, mn_eff <= mx_eff, mn_eff <= tt, mx_eff > tt, mx_eff <= 2**31 - 1] + ax
            c.prove(f"t={tt}: min_steps <= t < max_steps => (continue <=> spectral distance >= threshold)", ct == sc.not_(conv), a2,
                    lambda m, tt=tt: replay(_with(m, t, tt)), key=f"detector:convergence-value:{tag}")


class _with:
    """model view in which the Int term ``var`` evaluates to ``val`` (for obligations where t was substituted)."""

    def __init__(self, m, var, val):
        self.m, self.var, self.val = m, var, val

    def eval(self, term, model_completion=True):
        if sc.isz(term) and term.eq(self.var):
            return z3.IntVal(self.val)
        return self.m.eval(term, model_completion=model_completion)


# ------------------------------------------------------------------------------------------------------ loop contract
def _loop(c, case):
    from fdtdx.fdtd.forward import forward
    from fdtdx.fdtd.stop_conditions import StoppingCondition
    from fdtdx.fdtd.wrapper import run_fdtd

    T = case["T"]
    S = _scene(T, detector=True, kind=case["scene"])
    arr, oc, cfg, key = S["arrays"], S["objects"], S["config"], S["key"]
    rkey = next(iter(arr.detector_states["det"].keys()))

    def run(table):
        class TableCondition(StoppingCondition):
            """a user-defined condition: continue at step t iff table[t]"""

            def setup(self, state, config, objects):
                return self

            def _validate(self, state, config, objects):
                pass

            def __call__(self, state, config, objects):
                return table[state[0]]

        st = run_fdtd(arr, oc, cfg, key, stopping_condition=TableCondition(), show_progress=False)
        return st[0], st[1].fields.E, st[1].fields.H, st[1].detector_states["det"][rkey]

    tab = jx.symarr("cont", (T + 1,), sort="bool")
    c.symvars += tab.size
    it = jx.Interp(unroll_bound=T + 2)
    it.while_exit_chain = True
    t0 = time.time()
    (tf, Ef, Hf, Df), tr = jx.call(run, tab, interp=it)
    c.interp_s += time.time() - t0
    for u in it.unwinding:
        c.prove("unwinding: the loop has ended after T+2 unrollings", u, [], None, key="loop:unwinding")
    # plain run: the real forward step iterated from the reset state
    plain = []
    st = (jnp.asarray(0, dtype=jnp.int32), arr.reset())
    for i in range(T + 1):
        plain.append((np.asarray(st[1].fields.E), np.asarray(st[1].fields.H), np.asarray(st[1].detector_states["det"][rkey])))
        if i < T:
            st = forward(st, cfg, oc, key, True, False, True)
    cont = [tab[i] for i in range(T + 1)]
    # oracle: s* = first step whose table entry says stop, at most T
    def pick(vals):
        acc = vals[T]
        for i in range(T - 1, -1, -1):
            acc = jx.ew(lambda a, b, i=i: sc.ite(z3.Not(cont[i]), a, b), vals[i], acc)
        return acc

    s_star = pick([np.asarray(i) for i in range(T + 1)])
    scale = 1.0 + max(float(np.max(np.abs(p[k]))) for p in plain for k in range(3))

    def replay(m):
        tb = np.array([bool(model_value(m, v)) for v in tab.reshape(-1)])
        got = run(jnp.asarray(tb))
        s = next((i for i in range(T) if not tb[i]), T)
        dev = max(float(np.max(np.abs(np.asarray(got[1 + k]) - plain[s][k]))) for k in range(3)) / scale
        return int(got[0]) != s or dev > 1e-7, dict(table=tb, stopped_at=int(got[0]), first_stop_entry=s, total_steps=T, state_deviation=dev)

    # translator validation on one concrete table
    tb = np.array([True] * (T - 1) + [False, True])
    want = run(jnp.asarray(tb))
    got = tr(tb)
    c.validate(np.concatenate([np.asarray(jx.to_numeric(jx.lift(g)), dtype=float).reshape(-1) for g in got]), np.concatenate([np.asarray(w, dtype=float).reshape(-1) for w in want]), "run_fdtd with a table condition")

    c.prove_eq("final time step == first step reporting stop (<= total steps)", tf, s_star, [], replay, key="loop:stop-step")
    tol = 1e-9 * scale
    for nm, got, k in (("E", Ef, 0), ("H", Hf, 1), ("detector", Df, 2)):
        c.prove_eq(f"state at stop == plain run of that many steps ({nm})", got, pick([p[k] for p in plain]), [], replay, key=f"loop:state:{nm}", tol=tol)
    c.witness("twin: the run can stop after exactly one step", z3.And(cont[0], z3.Not(cont[1]), sc.eq(jx.lift(tf).reshape(-1)[0], 1)), [])
    c.witness("twin: the run can reach the total step count", sc.eq(jx.lift(tf).reshape(-1)[0], T), [])
    nz = [i for i in range(Ef.size) if abs(plain[T][0].reshape(-1)[i] - plain[1][0].reshape(-1)[i]) > 1e-12 * scale]
    if not nz:
        raise Inconclusive("plain-run states do not differ between steps: the state obligations would be vacuous")


def _loop_energy(c, case):
    """run_fdtd with the real EnergyThresholdCondition (threshold symbolic, min/max concrete, max possibly beyond the
    configured total): the run stops at the first step t >= min_steps whose total energy is below the threshold, never
    later than min(max_steps, total steps), and the state is that of the plain run of that many steps."""
    from fdtdx.core.physics.metrics import compute_energy
    from fdtdx.fdtd.forward import forward
    from fdtdx.fdtd.stop_conditions import EnergyThresholdCondition
    from fdtdx.fdtd.wrapper import run_fdtd

    T, mx, mn = case["T"], case["mx"], case["mn"]
    S = _scene(T, detector=True, kind="periodic")
    arr, oc, cfg, key = S["arrays"], S["objects"], S["config"], S["key"]
    rkey = next(iter(arr.detector_states["det"].keys()))
    c.functions.add("fdtd.fdtd.checkpointed_fdtd loop bound with EnergyThresholdCondition(max_steps > time_steps_total)")
    c.bounds.update(T=T, max_steps=mx, min_steps=mn)
    orig_validate = EnergyThresholdCondition._validate

    def run(thr):
        # stub: _validate compares the threshold with 0 in Python, which a traced threshold cannot answer; thr > 0 is assumed instead
        EnergyThresholdCondition._validate = lambda self, state, config, objects: None
        try:
            cd = EnergyThresholdCondition(threshold=thr, min_steps=mn, max_steps=mx)
            st = run_fdtd(arr, oc, cfg, key, stopping_condition=cd, show_progress=False)
        finally:
            EnergyThresholdCondition._validate = orig_validate
        return st[0], st[1].fields.E, st[1].fields.H, st[1].detector_states["det"][rkey]

    thr = z3.Real("thr")
    c.symvars += 1
    it = jx.Interp(unroll_bound=max(T, mx) + 3)
    it.while_exit_chain = True
    t0 = time.time()
    (tf, Ef, Hf, Df), tr = jx.call(run, jx.obj0(thr), interp=it)
    c.interp_s += time.time() - t0
    for u in it.unwinding:
        c.prove("unwinding: the loop has ended within the unrolling bound", u, [thr > 0], None, key="loop-energy:unwinding")
    plain, en = [], []
    st = (jnp.asarray(0, dtype=jnp.int32), arr.reset())
    for i in range(T + 1):
        plain.append((np.asarray(st[1].fields.E), np.asarray(st[1].fields.H), np.asarray(st[1].detector_states["det"][rkey])))
        en.append(float(jnp.sum(compute_energy(st[1].fields.E, st[1].fields.H, st[1].inv_permittivities, st[1].inv_permeabilities))))
        if i < T:
            st = forward(st, cfg, oc, key, True, False, True)
    cap = min(T, mx)
    # continue at step t  <=>  t < cap and (t < min_steps or not energy_t < thr)
    cont = [z3.BoolVal(True) if i < mn else z3.Not(z3.RealVal(Fraction(en[i])) < thr) for i in range(cap)]

    def pick(vals):
        acc = vals[cap]
        for i in range(cap - 1, -1, -1):
            acc = jx.ew(lambda a, b, i=i: sc.ite(z3.Not(cont[i]), a, b), vals[i], acc)
        return acc

    s_star = pick([np.asarray(i) for i in range(cap + 1)])
    scale = 1.0 + max(float(np.max(np.abs(p[k]))) for p in plain for k in range(3))

    def replay(m):
        v = float(model_value(m, thr))
        got = run(jnp.asarray(v))
        s = next((i for i in range(cap) if i >= mn and en[i] < v), cap)
        ok_state = int(got[0]) <= T and max(float(np.max(np.abs(np.asarray(got[1 + k]) - plain[min(int(got[0]), T)][k]))) for k in range(3)) / scale <= 1e-7
        return int(got[0]) != s or not ok_state, dict(threshold=v, stopped_at=int(got[0]), expected_stop=s, total_steps=T, max_steps=mx, min_steps=mn, energies=en)

    want = run(jnp.asarray(en[min(2, T)] * 1.5 + 1e-30))
    got = tr(jx.fracarr(np.asarray(en[min(2, T)] * 1.5 + 1e-30)))
    c.validate(np.asarray([float(jx.to_numeric(jx.lift(got[0])).reshape(-1)[0])]), np.asarray([float(want[0])]), "run_fdtd with EnergyThresholdCondition: final step")
    assume = [thr > 0]
    c.prove_eq("final time step == first step >= min_steps below the threshold, at most min(max_steps, total steps)", tf, s_star, assume, replay, key="loop-energy:stop-step")
    tol = 1e-9 * scale
    for nm, g, k in (("E", Ef, 0), ("H", Hf, 1), ("detector", Df, 2)):
        c.prove_eq(f"state at stop == plain run of that many steps ({nm})", g, pick([p[k] for p in plain[:cap + 1]]), assume, replay, key=f"loop-energy:state:{nm}", tol=tol)
    c.witness("twin: the threshold can let the run go to the cap", z3.And(thr > 0, sc.eq(jx.lift(tf).reshape(-1)[0], cap)), [])
    if mn < cap:
        c.witness("twin: the threshold can stop the run early", z3.And(thr > 0, sc.lt(jx.lift(tf).reshape(-1)[0], cap)), [])
