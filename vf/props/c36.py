"""C36 (clause 1) -- dispersive cells follow their recurrence; zero-coefficient cells evolve like non-dispersive ones (E1).

A dispersive scene (Lorentz / Drude poles in a box, isotropic or per-axis) is placed; one forward step is interpreted
with E, H, P_curr, P_prev symbolic and the coefficient arrays c1, c2, c3 symbolic on the dispersive cells and zero
elsewhere (the placed zero pattern).  (a) The stored polarisation after the step equals c1 P + c2 P_prev + c3 E (the
documented recurrence) on every cell.  (b) On cells whose coefficients are all zero and whose polarisation history is
zero, E and H after the step equal the step of the same scene without dispersion.  (c) With all coefficients and P
zero the whole step equals the non-dispersive step.
Clause 2 of the property (energy bounded for 10^4 steps) is a long-horizon numerical statement and is NOT covered.
"""
from __future__ import annotations

import time

import jax
import jax.numpy as jnp
import numpy as np
import z3

import fdtdx
from fdtdx.dispersion import CCPRPole, DispersionModel, DrudePole, LorentzPole
from fdtdx.fdtd.forward import forward

from .. import jx2smt as jx
from .. import sc
from ..core import Inconclusive, model_array
from ..scenes import build_scene, dipole, material_box

META = dict(
    functions=["fdtd.update.update_E (dispersive ADE branch, diagonal case)", "fdtd.update.update_H", "fdtd.forward.forward", "fdtd.initialization._init_arrays (dispersive coefficient allocation)"],
    assumptions=["reals for floats", "coefficient arrays symbolic on the cells where placement made them non-zero, zero elsewhere; P_curr, P_prev, E, H symbolic",
                 "E-field part of the oracle for clause (b): the non-dispersive placement of the same scene"],
    outside="clause 2 (passive media stay bounded for 1e4 steps) beyond its necessary condition 'accepted => omega_0*dt < 2' (accepted-implies-stable-* cases): long-horizon float stability is not encodable; oriented (off-diagonal) poles; full-tensor permittivity branch",
    bounds=dict(quick=dict(shape=(3, 3, 3)), thorough=dict(shapes=[(3, 3, 3), (4, 3, 2)])),
)


def cases(tier, seed):
    out = [dict(name="lorentz-iso", poles="lorentz", shape=(3, 3, 3), bounds="periodic"),
           dict(name="drude+lorentz-peraxis", poles="mixed", shape=(3, 3, 3), bounds="pec"),
           # a CCPR pole (dE/dt coupling c4, implicit divide) together with electric conductivity (second implicit divide)
           dict(name="ccpr-lossy", poles="ccpr_lossy", shape=(3, 3, 3), bounds="periodic")]
    # necessary condition of clause 2: what the coefficient builders ACCEPT has omega_0*dt < 2 (the stability range of the
    # polarization recurrence); an accepted pole outside it is replayed and its recurrence roots are computed (seeded change C36b)
    out += [dict(name=f"accepted-implies-stable-{fam}-{fn}", kind="accept", fam=fam, fn=fn)
            for fam, fn in ([("lorentz_o", "tensor"), ("lorentz3", "per_axis")] if tier == "quick" else
                            [("lorentz_o", "tensor"), ("lorentz3", "per_axis"), ("lorentz", "tensor"), ("lorentz3", "tensor"), ("lorentz", "scalar")])]
    if tier != "quick":
        out += [dict(name="lorentz-iso-4x3x2-lossy", poles="lorentz_lossy", shape=(4, 3, 2), bounds="periodic"),
                dict(name="drude-iso-pmc", poles="drude", shape=(3, 3, 3), bounds="pmc")]
    return out


def _material(kind):
    if kind == "lorentz":
        return fdtdx.Material(permittivity=2.0, dispersion=DispersionModel(poles=(LorentzPole(resonance_frequency=4e14, damping=1e13, delta_epsilon=1.5),)))
    if kind == "lorentz_lossy":
        return fdtdx.Material(permittivity=2.0, electric_conductivity=0.5, dispersion=DispersionModel(poles=(LorentzPole(resonance_frequency=4e14, damping=1e13, delta_epsilon=1.5),)))
    if kind == "drude":
        return fdtdx.Material(permittivity=1.5, dispersion=DispersionModel(poles=(DrudePole(plasma_frequency=6e14, damping=2e13),)))
    if kind == "ccpr_lossy":
        return fdtdx.Material(permittivity=2.0, electric_conductivity=0.5, dispersion=DispersionModel(poles=(CCPRPole(pole=complex(-2e13, 4e14), residue=complex(1e14, -3e14)),)))
    if kind == "mixed":
        return fdtdx.Material(permittivity=(2.0, 2.5, 3.0), dispersion=DispersionModel(poles=(
            DrudePole(plasma_frequency=(5e14, 6e14, 7e14), damping=(1e13, 2e13, 3e13)),
            LorentzPole(resonance_frequency=(4e14, 4.5e14, 5e14), damping=(1e13, 1e13, 2e13), delta_epsilon=(1.0, 1.5, 0.5)))))
    raise ValueError(kind)


def _accept(c, case):
    """every non-raising path of the real coefficient builder, with all pole parameters and dt symbolic: accepted => omega_0*dt < 2."""
    import fdtdx.dispersion as dp
    from ..pysym import fresh_real
    from . import c35

    P, dom, build, declared, box, orient, fam, seeds = c35._family(case["fam"])
    dt, cdt = fresh_real("dt", 0, None, lo_strict=True)
    real_fn = dict(per_axis=dp.compute_pole_coefficients_per_axis, tensor=dp.compute_pole_coefficients_tensor, scalar=dp.compute_pole_coefficients)[case["fn"]]
    c.functions.add("dispersion." + real_fn.__name__ + (" (oriented pole)" if orient else ""))
    c.symvars += len(P) + 1
    paths = c35._explore(c, lambda: real_fn(build(P), dt), dom + cdt, [dp])
    tv = {k: v.t for k, v in P.items()}
    axes3 = case["fam"].endswith("3")
    w0s = [tv["w0" + sfx] for sfx in (["_x", "_y", "_z"] if axes3 else [""])]

    def replay(m):
        v, dtv = c35._conc(m, P, dt)
        try:
            res = real_fn(build(v), dtv)
        except Exception as ex:  # noqa: BLE001
            return False, dict(params=v, dt=dtv, raised=repr(ex)[:200])
        c1, c2 = np.asarray(res[0], dtype=float).reshape(-1), np.asarray(res[1], dtype=float).reshape(-1)
        worst = 0.0
        for a, b in zip(c1, c2):
            if a == 0 and b == 0:
                continue
            worst = max(worst, float(np.max(np.abs(np.roots([1.0, -a, -b])))))  # P_new = c1 P + c2 P_prev + ...
        w0dt = max(float(v[k]) for k in v if k.startswith("w0")) * dtv
        return worst > 1.0 + 1e-9, dict(params=v, dt=dtv, omega0_dt=w0dt, largest_recurrence_root_modulus=worst,
                                        note="accepted without error; the polarization recurrence has a root outside the unit circle")

    accepted = 0
    for pi, (res, exc, pc) in enumerate(paths):
        if exc is not None:
            continue
        accepted += 1
        for ax, w0 in enumerate(w0s):
            c.prove(f"path{pi}: accepted => omega_0*dt < 2 (axis {ax})", w0 * w0 * dt.t * dt.t < 4, list(pc) + list(dom) + list(cdt), replay, key=f"accepted-unstable:{case['fam']}:{case['fn']}")
    if not accepted:
        raise Inconclusive("no accepting path")
    c.witness("twin: a pole with omega_0*dt < 2 is accepted on some path", z3.Or(*[z3.And(*pc) if pc else z3.BoolVal(True) for (r, e, pc) in paths if e is None]), list(dom) + list(cdt) + [w0s[0] * dt.t < 1])
    rej = [pc for (r, e, pc) in paths if e is not None]
    if not rej:
        c.fail_concrete("the coefficient builder has no rejecting path at all (omega_0*dt >= 2 is never refused)", dict(family=case["fam"], fn=case["fn"]), key=f"accepted-unstable:{case['fam']}:{case['fn']}:no-reject-path")


def run_case(c, case):
    if case.get("kind") == "accept":
        return _accept(c, case)
    shape = tuple(case["shape"])
    mat = _material(case["poles"])
    plain = fdtdx.Material(permittivity=mat.permittivity, electric_conductivity=mat.electric_conductivity)
    box = ((0, 0, 0), (2, shape[1], 2))
    S = build_scene(shape, case["bounds"], steps=3, extra_objects=[material_box("mb", box[0], box[1], mat)], thickness=1)
    S0 = build_scene(shape, case["bounds"], steps=3, extra_objects=[material_box("mb", box[0], box[1], plain)], thickness=1)
    arr, oc, cfg, key = S["arrays"], S["objects"], S["config"], S["key"]
    arr0, oc0, cfg0 = S0["arrays"], S0["objects"], S0["config"]
    c.functions.update(META["functions"])
    c.bounds.update(shape=list(shape))
    if arr.dispersive_c1 is None or arr.fields.dispersive_P_curr is None:
        raise Inconclusive("scene has no dispersive arrays")
    has_c4 = arr.dispersive_c4 is not None
    if has_c4 != (case["poles"] == "ccpr_lossy"):
        raise Inconclusive("c4 array presence does not match the pole kind")
    if not np.allclose(np.asarray(arr.inv_permittivities), np.asarray(arr0.inv_permittivities)):
        raise Inconclusive("dispersive and plain placements disagree on inverse permittivity")
    from ..scenes import wall_masks
    zE, zH = wall_masks(oc, shape)
    fsh = arr.fields.E.shape
    E, H = jx.symarr("E", fsh), jx.symarr("H", fsh)
    E[zE] = 0
    H[zH] = 0
    psh = arr.fields.dispersive_P_curr.shape
    Pc, Pp = jx.symarr("Pc", psh), jx.symarr("Pp", psh)
    csh = arr.dispersive_c1.shape
    nz = (np.asarray(arr.dispersive_c1) != 0) | (np.asarray(arr.dispersive_c2) != 0) | (np.asarray(arr.dispersive_c3) != 0)
    if has_c4:
        nz = nz | (np.asarray(arr.dispersive_c4) != 0)
    if nz.all() or not nz.any():
        raise Inconclusive("need both dispersive and non-dispersive cells")
    cs = []
    cnames = ("c1", "c2", "c3") + (("c4",) if has_c4 else ())
    for nm in cnames:
        a = jx.symarr(nm, csh)
        a[~nz] = 0
        cs.append(a)
    zero_cells = ~np.broadcast_to(nz.any(axis=(0, 1)), shape)   # cells where every pole/component coefficient is zero
    # polarisation history zero on the zero-coefficient cells (they never accumulate any)
    zc = np.broadcast_to(zero_cells, psh)
    Pc[zc] = 0
    Pp[zc] = 0
    c.symvars += E.size + H.size + Pc.size + Pp.size + len(cnames) * int(nz.sum())

    def step(E, H, Pc, Pp, c1, c2, c3, *c4):
        a = (arr.aset("fields->E", E).aset("fields->H", H).aset("fields->dispersive_P_curr", Pc).aset("fields->dispersive_P_prev", Pp)
             .aset("dispersive_c1", c1).aset("dispersive_c2", c2).aset("dispersive_c3", c3))
        if c4:
            a = a.aset("dispersive_c4", c4[0])
        st = forward((jnp.asarray(0, dtype=jnp.int32), a), cfg, oc, key, False, False, False)
        f = st[1].fields
        return f.E, f.H, f.dispersive_P_curr, f.dispersive_P_prev

    def step0(E, H):
        a = arr0.aset("fields->E", E).aset("fields->H", H)
        st = forward((jnp.asarray(0, dtype=jnp.int32), a), cfg0, oc0, key, False, False, False)
        return st[1].fields.E, st[1].fields.H

    t0 = time.time()
    (E1, H1, P1, P1prev), tr = jx.call(step, E, H, Pc, Pp, *cs)
    (E0, H0), tr0 = jx.call(step0, E, H)
    c.interp_s += time.time() - t0
    sj, s0j = jax.jit(step), jax.jit(step0)
    rng = np.random.default_rng(c.seed)
    conc = [rng.normal(size=fsh) * (~zE), rng.normal(size=fsh) * (~zH), rng.normal(size=psh) * (~zc), rng.normal(size=psh) * (~zc)] + [np.asarray(getattr(arr, "dispersive_" + n)) for n in cnames]
    want = sj(*[jnp.asarray(x) for x in conc])
    got = tr(*[jx.lift(x) for x in conc])
    c.validate(jx.to_numeric(got[0]), np.asarray(want[0]), "dispersive step E")
    c.validate(jx.to_numeric(got[2]), np.asarray(want[2]), "dispersive step P")

    def conc_of(m):
        return [model_array(m, x) for x in (E, H, Pc, Pp, *cs)]

    # (a) recurrence: P_new = c1 P + c2 P_prev + c3 E (+ c4 E_new for CCPR poles; E broadcast over the pole axis), P_prev_new = P
    Eb = np.broadcast_to(jx.lift(E)[None], psh)
    c1b, c2b, c3b = [np.broadcast_to(x, psh) for x in cs[:3]]
    rec = jx.ew(lambda a, p, b, q, d, e: sc.add(sc.add(sc.mul(a, p), sc.mul(b, q)), sc.mul(d, e)), c1b, Pc, c2b, Pp, c3b, Eb)
    if has_c4:
        E1b = np.broadcast_to(jx.lift(E1)[None], psh)
        rec = jx.ew(lambda r, d, e: sc.add(r, sc.mul(d, e)), rec, np.broadcast_to(cs[3], psh), E1b)

    def replay_a(m):
        ci = conc_of(m)
        o = sj(*[jnp.asarray(x) for x in ci])
        ref = np.broadcast_to(ci[4], psh) * ci[2] + np.broadcast_to(ci[5], psh) * ci[3] + np.broadcast_to(ci[6], psh) * np.broadcast_to(ci[0][None], psh)
        if has_c4:
            ref = ref + np.broadcast_to(ci[7], psh) * np.broadcast_to(np.asarray(o[0])[None], psh)
        r = float(np.max(np.abs(np.asarray(o[2]) - ref))) / (1.0 + float(np.max(np.abs(ref))))
        r2 = float(np.max(np.abs(np.asarray(o[3]) - ci[2])))
        return max(r, r2) > 1e-7, dict(residual_P=r, residual_Pprev=r2)
    c.prove_eq("P_new == c1 P + c2 P_prev + c3 E", P1, rec, [], replay_a, key=f"recurrence:{case['poles']}")
    c.prove_eq("P_prev_new == P", P1prev, Pc, [], replay_a, key=f"recurrence-shift:{case['poles']}")

    # (b) zero-coefficient cells with zero history evolve like the non-dispersive scene
    zc3 = np.broadcast_to(zero_cells, fsh)

    def replay_b(m):
        ci = conc_of(m)
        o = sj(*[jnp.asarray(x) for x in ci])
        o0 = s0j(jnp.asarray(ci[0]), jnp.asarray(ci[1]))
        r = float(np.max(np.abs((np.asarray(o[0]) - np.asarray(o0[0]))[zc3]))) / (1.0 + float(np.max(np.abs(np.asarray(o0[0])))))
        return r > 1e-7, dict(residual_E_on_zero_cells=r)
    c.prove_eq("E on zero-coefficient cells == non-dispersive step", jx.lift(E1)[zc3], jx.lift(E0)[zc3], [], replay_b, key=f"zero-cells:{case['poles']}")
    # (c) all coefficients and polarisations zero: the whole step equals the non-dispersive one
    zer = lambda a: np.zeros(a.shape)
    (E1z, H1z, P1z, _) = tr(E, H, zer(Pc), zer(Pp), *[zer(x) for x in cs])
    c.prove_eq("all-zero coefficients: E == non-dispersive step", E1z, E0, [], None, key="zero-all:E")
    c.prove_eq("all-zero coefficients: H == non-dispersive step", H1z, H0, [], None, key="zero-all:H")
    c.prove_eq("all-zero coefficients: P stays 0", P1z, np.zeros(psh), [], None, key="zero-all:P")
    # twin: on a dispersive cell the polarisation really changes E
    d = [(x, y) for x, y, z in zip(jx.lift(E1).reshape(-1), jx.lift(E0).reshape(-1), (~zc3).reshape(-1)) if z and sc.is_symbolic_scalar(x)]
    ok = False
    for x, y in d[:5]:
        ok = c.witness("dispersion changes E on a dispersive cell", sc.ne(x, y), [])
        if ok:
            break
        c.inconclusive.pop()
    if not ok:
        raise Inconclusive("vacuity twin failed: dispersion never changes E")
