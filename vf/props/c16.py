"""C16 -- detector reductions are consistent with their spatial records (E1: jaxpr -> SMT, "drive the unit").

Per case a tiny real scene is placed (public API, ``place_objects``) that holds a *family* of detectors over the same
region (reduced / spatial, "+" / "-", single / all components, closed surface / six faces, forward / inverse).  The real
``Detector.update`` methods are traced with ``jax.make_jaxpr`` and interpreted with every E/H entry (and, where
used, every inverse-material entry and every accumulated phasor entry) symbolic; z3 decides, entry by entry, the
relations the property states.  The weights of the oracle (cell volumes, face areas) are computed in the harness
from the cell widths the harness chose -- not read back from the code under test.

Grids are *dyadic* (spacing 2^-24 m, widths multiples of 1/8 of it) so that the float arithmetic the placement code
performs on widths (products, sums) is exact and the identities can be asserted with ``==`` over the rationals.
"""
from __future__ import annotations

import time
from fractions import Fraction

import jax
import jax.numpy as jnp
import numpy as np
import z3

import fdtdx
from fdtdx.config import SimulationConfig
from fdtdx.core.grid import RectilinearGrid, UniformGrid
from fdtdx.objects.object import RealCoordinateConstraint

from .. import jx2smt as jx
from .. import sc
from ..core import Inconclusive, model_array

META = dict(
    functions=["FieldDetector.update", "PhasorDetector.update", "EnergyDetector.update", "PoyntingFluxDetector.update",
               "PoyntingFluxDetector.place_on_grid", "ClosedSurfacePoyntingFluxDetector.update",
               "ClosedSurfacePhasorPoyntingFluxDetector.update", "PhasorPoyntingFluxDetector.place_on_grid",
               "Detector._volume_weighted_spatial_mean", "Detector.place_on_grid (cell volume weights)",
               "poynting_flux._resolve_face_area_weights", "RectilinearGrid.cell_volume/face_area",
               "core.physics.metrics.compute_energy", "compute_poynting_flux", "net_poynting_flux_through_box"],
    assumptions=[
        "reals instead of floats (round-off outside the claim)",
        "dyadic grids: spacing 2^-24 m, non-uniform widths are multiples of 1/8 spacing in [0.5, 2] (seeded), so the placement-time weight arithmetic is exact",
        "inverse permittivity / permeability entries > 0 (diagonal materials)",
        "detectors are driven directly through Detector.update with fields already restricted to the region (as update_detector_states does)",
        "real-valued fields",
    ],
    outside="regions/grids larger than listed; full 3x3 tensor materials in EnergyDetector; EnergyDetector.as_slices; mode / diffractive / "
            "field-projection detectors; the co-location interpolation in front of update (C15); on/off gating (C14); float round-off and "
            "non-dyadic grids except for the linear Field/Phasor reductions (one tolerance-mode case: weights there differ from the exact ones by round-off)",
    bounds=dict(quick=dict(domain=[(4, 3, 3)], regions="one box per family", grids=["uniform", "nonuniform(seed)"], t=[1]),
                thorough=dict(domain=[(4, 3, 3), (5, 4, 3)], regions="three boxes per family", grids=["uniform", "nonuniform(2 seeds)"], t=[0, 1, 3])),
    timeout_ms=dict(quick=60000, thorough=300000),
)

SP = 2.0 ** -24
C0 = 299792458.0
_FACES = ("min_x", "max_x", "min_y", "max_y", "min_z", "max_z")
_ALL = ("Ex", "Ey", "Ez", "Hx", "Hy", "Hz")
FAMILIES = ("field", "phasor", "energy", "poynting", "closed")


# --------------------------------------------------------------------------- scene


def dyadic_widths(shape, seed):
    rng = np.random.default_rng(1600 + seed)
    return [[int(v) / 8.0 for v in rng.integers(4, 17, size=n)] for n in shape]


def mini_scene(shape, widths, dets, steps=4, spacing=SP, courant=0.99):
    """volume + periodic faces + the given detectors [(obj, lo)] placed by the real place_objects.
    Returns dict(det={name: placed detector}, states={name: state}, config)."""
    if widths is None:
        grid = UniformGrid(spacing=spacing)
        ed = None
    else:
        ed = [np.concatenate([[0.0], np.cumsum(np.asarray(w, dtype=np.float64) * spacing)]) for w in widths]
        grid = RectilinearGrid(x_edges=jnp.asarray(ed[0]), y_edges=jnp.asarray(ed[1]), z_edges=jnp.asarray(ed[2]))
    vol = fdtdx.SimulationVolume(partial_grid_shape=tuple(shape))
    cfg0 = SimulationConfig(time=1e-15, grid=grid, backend="cpu", dtype=jnp.float64, courant_factor=courant)
    dt = cfg0.aset("grid", cfg0.resolve_grid(tuple(shape))).time_step_duration
    cfg = SimulationConfig(time=dt * (steps + 0.01), grid=grid, backend="cpu", dtype=jnp.float64, courant_factor=courant)
    bcfg = fdtdx.BoundaryConfig.from_uniform_bound(thickness=1, override_types={f: "periodic" for f in _FACES})
    bd, bc = fdtdx.boundary_objects_from_config(bcfg, vol)
    objs, cons = [vol] + list(bd.values()), list(bc)
    for d, lo in dets:
        objs.append(d)
        if widths is None:
            cons.append(d.set_grid_coordinates(axes=(0, 1, 2), sides=("-", "-", "-"), coordinates=tuple(int(v) for v in lo)))
        else:
            cons.append(RealCoordinateConstraint(object=d.name, axes=(0, 1, 2), sides=("-",) * 3,
                                                 coordinates=tuple(float(ed[a][lo[a]]) for a in range(3))))
    key = jax.random.PRNGKey(0)
    oc, arrays, params, cfg, info = fdtdx.place_objects(object_list=objs, config=cfg, constraints=cons, key=key)
    placed = {d.name: d for d in oc.detectors}
    for d, lo in dets:
        want = tuple((int(l), int(l) + int(s)) for l, s in zip(lo, d.partial_grid_shape))
        if tuple(tuple(int(v) for v in p) for p in placed[d.name].grid_slice_tuple) != want:
            raise Inconclusive(f"detector {d.name} was placed at {placed[d.name].grid_slice_tuple}, harness intended {want}")
    return dict(det=placed, states=dict(arrays.detector_states), config=cfg, dt=float(cfg.time_step_duration))


# --------------------------------------------------------------------------- oracle helpers (object arrays, exact)


def axis_widths(widths, shape, a, spacing=SP):
    w = [1.0] * shape[a] if widths is None else widths[a]
    return [Fraction(float(x)) * Fraction(float(spacing)) for x in w]


def vol_weights(widths, shape, lo, rs, spacing=SP):
    ax = [axis_widths(widths, shape, a, spacing)[lo[a]:lo[a] + rs[a]] for a in range(3)]
    out = np.empty(tuple(rs), dtype=object)
    for i, j, k in np.ndindex(*rs):
        out[i, j, k] = ax[0][i] * ax[1][j] * ax[2][k]
    return out


def area_weights(widths, shape, lo, rs, axis):
    """transverse face area of every cell of the region for a face normal to ``axis`` (full region shape)."""
    ax = [axis_widths(widths, shape, a)[lo[a]:lo[a] + rs[a]] for a in range(3)]
    out = np.empty(tuple(rs), dtype=object)
    for idx in np.ndindex(*rs):
        v = Fraction(1)
        for a in range(3):
            if a != axis:
                v *= ax[a][idx[a]]
        out[idx] = v
    return out


def o_add(a, b):
    return jx.ew(sc.add, a, b)


def o_sub(a, b):
    return jx.ew(sc.sub, a, b)


def o_mul(a, b):
    return jx.ew(sc.mul, a, b)


def o_div(a, b):
    return jx.ew(sc.div, a, b)


def o_neg(a):
    return jx.ew(sc.neg, a)


def o_ssum(a, nd=3):
    """sum over the last ``nd`` axes of an object array."""
    a = jx.lift(a)
    lead = a.shape[:a.ndim - nd]
    flat = a.reshape(lead + (-1,))
    out = np.empty(lead, dtype=object)
    for idx in np.ndindex(*lead):
        acc = 0
        for v in flat[idx]:
            acc = sc.add(acc, v)
        out[idx] = acc
    return out


def o_total(a):
    acc = 0
    for v in jx.lift(a).reshape(-1):
        acc = sc.add(acc, v)
    return acc


def o_cross(E, H):
    """(E x H) for real object arrays of shape (3, ...)."""
    E, H = jx.lift(E), jx.lift(H)
    out = np.empty(E.shape, dtype=object)
    for a in range(3):
        b, cc = (a + 1) % 3, (a + 2) % 3
        out[a] = o_sub(o_mul(E[b], H[cc]), o_mul(E[cc], H[b]))
    return out


def canon_components(E, H, comps):
    """stack of the requested components in the documented canonical order Ex,Ey,Ez,Hx,Hy,Hz."""
    E, H = jx.lift(E), jx.lift(H)
    rows = [(E if n[0] == "E" else H)["xyz".index(n[1])] for n in _ALL if n in comps]
    return np.stack(rows, axis=0)


# --------------------------------------------------------------------------- generic driver


def _tree_np(o):
    return jax.tree_util.tree_map(lambda x: np.asarray(x), o)


def drive(c, tag, real, syms, pairs_fn, assume, twin, rng, conc_inputs=None):
    """trace+interpret ``real`` on ``syms``; prove every (name, key, lhs, rhs) of ``pairs_fn(out, ins)``; replay on the real code."""
    t0 = time.time()
    it = jx.Interp()
    out, tr = jx.call(real, *syms, interp=it)
    c.interp_s += time.time() - t0
    c.symvars += sum(int(s.size) * (2 if any(isinstance(v, sc.Cx) for v in s.reshape(-1)[:1]) else 1) for s in syms)
    # translator validation on one random concrete input
    conc = conc_inputs(rng) if conc_inputs else [(_rand(rng, s)) for s in syms]
    want = _tree_np(real(*[jnp.asarray(x) for x in conc]))
    got = tr(*[jx.fracarr(x) for x in conc])
    for g, w in zip(jax.tree_util.tree_leaves(got, is_leaf=jx.is_obj), jax.tree_util.tree_leaves(want)):
        c.validate(jx.to_numeric(g), np.asarray(w), tag)
    side = [cond for (_, cond, _) in it.side]
    for k, cond in enumerate(side):
        c.prove(f"{tag}: definedness[{k}]", cond, assume, None, key=f"{tag}:definedness")
    pairs = pairs_fn(out, list(syms))

    def mk_replay(i):
        def replay(m):
            ci = [model_array(m, s) for s in syms]
            o = _tree_np(real(*[jnp.asarray(x) for x in ci]))
            p = pairs_fn(jax.tree_util.tree_map(jx.lift, o), [jx.lift(x) for x in ci])
            nm, key, l, r = p[i]
            l, r = np.asarray(jx.to_numeric(jx.lift(l))), np.asarray(jx.to_numeric(jx.lift(r)))
            err = float(np.max(np.abs(l - r))) if l.size else 0.0
            # relative threshold: weights are physical volumes / areas (~1e-22 / ~1e-15), so records are tiny in absolute terms
            scale = max(float(np.max(np.abs(l))) if l.size else 0.0, float(np.max(np.abs(r))) if r.size else 0.0)
            return err > 1e-9 * scale and err > 0.0, dict(obligation=nm, err=err, scale=scale, code=l, oracle=r, inputs=ci)
        return replay

    bad = set()
    for i, (nm, key, l, r) in enumerate(pairs):
        if key in bad:  # one confirmed witness per violation class and drive is enough
            c.notes.append(f"{tag}: {nm}: not examined (class {key} already violated in this drive)")
            continue
        if not prove_entries(c, f"{tag}: {nm}", l, r, assume, mk_replay(i), key):
            bad.add(key)
    # vacuity twin: a designated output can be non-zero under the assumptions
    tw = twin(out, list(syms))
    tw = [v for v in jx.lift(tw).reshape(-1) if sc.is_symbolic_scalar(v)]
    if not tw:
        raise Inconclusive(f"{tag}: vacuity twin has no symbolic output entry")
    v = tw[0]
    c.witness(f"{tag}: twin (record can be non-zero)", sc.ne(sc.real(v), 0) if isinstance(v, sc.Cx) else sc.ne(v, 0), assume)
    return out


def prove_entries(c, name, l, r, assume, replay, key, tol=None):
    """entrywise c.prove_eq, one query per entry; stops at the first replay-confirmed violation of this pair (one witness
    per obligation class is enough, the remaining entries are then left unproved and the case is red anyway)."""
    a, b = jx.lift(l), jx.lift(r)
    if a.shape != b.shape:
        a, b = np.broadcast_arrays(a, b)
    af, bf = a.reshape(-1), b.reshape(-1)
    for i in range(af.size):
        nv = len(c.violations)
        c.prove_eq(f"{name}[{i}]", af[i:i + 1], bf[i:i + 1], assume, replay, key=key, tol=tol)
        if len(c.violations) > nv:
            c.notes.append(f"{name}: stopped after the first confirmed violation ({af.size - i - 1} entries not examined)")
            return False
    return True


def _rand(rng, s):
    cplx = any(isinstance(v, sc.Cx) for v in s.reshape(-1)[:1])
    x = np.round(rng.uniform(0.25, 1.5, size=s.shape), 3)
    if cplx:
        x = x + 1j * np.round(rng.uniform(-1, 1, size=s.shape), 3)
    return x


def _signed(rng, shape):
    return np.round(rng.uniform(-1.5, 1.5, size=shape), 3)


# --------------------------------------------------------------------------- cases


def cases(tier, seed):
    out = []
    if tier == "quick":
        cfgs = [((4, 3, 3), (1, 0, 1), (2, 3, 2))]
        grids = [("uniform", 0), ("nonuniform", 0)]
        ts = [1]
    else:
        cfgs = [((4, 3, 3), (1, 0, 1), (2, 3, 2)), ((5, 4, 3), (2, 1, 0), (3, 2, 3)), ((4, 3, 3), (0, 1, 0), (4, 1, 2))]
        grids = [("uniform", 0), ("nonuniform", 0), ("nonuniform", 1)]
        ts = [0, 1, 3]
    for ci, (shape, lo, rs) in enumerate(cfgs):
        for g, gs in grids:
            for fam in FAMILIES:
                out.append(dict(name=f"{fam}-{'x'.join(map(str, shape))}-r{ci}-{g}{gs}", family=fam, shape=list(shape), lo=list(lo), rs=list(rs),
                                grid=g, gseed=gs, ts=ts if fam == "phasor" else ts[:1] if tier == "quick" else ts[1:2]))
    # non-dyadic grid, tolerance mode (linear detectors only)
    out.append(dict(name="fieldtol-4x3x3-nondyadic", family="fieldtol", shape=[4, 3, 3], lo=[1, 0, 1], rs=[2, 3, 2], grid="nondyadic", gseed=0, ts=[1]))
    # legal configurations that are suspected to fail at placement (DESIGN section 5)
    for g in ("uniform", "nonuniform"):
        out.append(dict(name=f"keepall-placement-{g}", family="keepall", shape=[4, 3, 3], lo=[1, 0, 1], rs=[2, 3, 2], grid=g, gseed=0, ts=[1]))
    return out


def run_case(c, case):
    c.functions.update(META["functions"])
    shape, lo, rs = tuple(case["shape"]), tuple(case["lo"]), tuple(case["rs"])
    widths = None if case["grid"] != "nonuniform" else dyadic_widths(shape, c.seed + 17 * case["gseed"])
    c.bounds.update(shape=list(shape), region=[list(lo), list(rs)], grid=case["grid"])
    rng = np.random.default_rng(c.seed + 160)
    fam = case["family"]
    G = dict(shape=shape, lo=lo, rs=rs, widths=widths, ts=case["ts"], grid=case["grid"])
    {"field": _field, "phasor": _phasor, "energy": _energy, "poynting": _poynting, "closed": _closed, "keepall": _keepall, "fieldtol": _fieldtol}[fam](c, G, rng)


def _t32(t):
    return jnp.asarray(t, dtype=jnp.int32)


# --------------------------------------------------------------------------- field


def _field(c, G, rng):
    shape, lo, rs, widths = G["shape"], G["lo"], G["rs"], G["widths"]
    subsets = [_ALL, ("Ex", "Hz"), ("Hy",), ("Ez", "Ey", "Hx")]
    dets = []
    for k, s in enumerate(subsets):
        for red in (True, False):
            dets.append((fdtdx.FieldDetector(name=f"f{k}{'r' if red else 's'}", partial_grid_shape=rs, reduce_volume=red, components=s, dtype=jnp.float64), lo))
    S = mini_scene(shape, widths, dets)
    D, ST = S["det"], S["states"]
    vol = vol_weights(widths, shape, lo, rs)
    vtot = o_total(vol)
    E, H = jx.symarr("E", (3, *rs)), jx.symarr("H", (3, *rs))
    for t in G["ts"]:
        def real(E, H, t=t):
            return {n: D[n].update(_t32(t), E, H, ST[n], None, None)["fields"][t] for n in D}

        def pairs(out, ins, t=t):
            E, H = ins
            p = []
            full = jx.lift(out["f0s"])
            for k, s in enumerate(subsets):
                sp, rd = jx.lift(out[f"f{k}s"]), jx.lift(out[f"f{k}r"])
                p.append((f"t{t} spatial record {s} == requested components", "field:spatial", sp, canon_components(E, H, s)))
                p.append((f"t{t} reduced {s} == volume-weighted mean of spatial record", f"field:reduce:{G['grid']}", rd, o_div(o_ssum(o_mul(sp, vol[None])), vtot)))
                if k:
                    rows = [i for i, n in enumerate(_ALL) if n in s]
                    p.append((f"t{t} subset {s} == rows of the all-component record", "field:subset", sp, full[rows]))
            return p

        drive(c, f"field t{t}", real, [E, H], pairs, [], lambda out, ins: out["f0r"], rng, lambda r: [_signed(r, E.shape), _signed(r, H.shape)])


def _fieldtol(c, G, rng):
    """the same reduction on a *non-dyadic* grid (50 nm spacing, widths with 3 decimals): the placement's float weights differ from
    the exact ones by round-off, so the claim is a tolerance query (fields boxed to [-1, 1]; linear, QF_LRA)."""
    shape, lo, rs = G["shape"], G["lo"], G["rs"]
    sp = 50e-9
    r2 = np.random.default_rng(1700 + c.seed)
    widths = [list(np.round(r2.uniform(0.6, 1.6, size=n), 3)) for n in shape]
    from fdtdx.objects.detectors.phasor import PhasorDetector

    dets = [(fdtdx.FieldDetector(name="fr", partial_grid_shape=rs, reduce_volume=True, dtype=jnp.float64), lo),
            (fdtdx.FieldDetector(name="fs", partial_grid_shape=rs, reduce_volume=False, dtype=jnp.float64), lo),
            (PhasorDetector(name="pr", partial_grid_shape=rs, reduce_volume=True, wave_characters=[fdtdx.WaveCharacter(wavelength=13 * sp)], dtype=jnp.complex128), lo),
            (PhasorDetector(name="ps", partial_grid_shape=rs, reduce_volume=False, wave_characters=[fdtdx.WaveCharacter(wavelength=13 * sp)], dtype=jnp.complex128), lo)]
    S = mini_scene(shape, widths, dets, spacing=sp)
    D, ST = S["det"], S["states"]
    vol = vol_weights(widths, shape, lo, rs, spacing=sp)
    vtot = o_total(vol)
    E, H = jx.symarr("E", (3, *rs)), jx.symarr("H", (3, *rs))
    box = [z3.And(v >= -1, v <= 1) for v in list(E.reshape(-1)) + list(H.reshape(-1))]
    t = G["ts"][0]
    tol = 1e-9

    def real(E, H):
        o = {n: D[n].update(_t32(t), E, H, ST[n], None, None) for n in D}
        return {"fr": o["fr"]["fields"][t], "fs": o["fs"]["fields"][t], "pr": o["pr"]["phasor"][0], "ps": o["ps"]["phasor"][0]}

    def pairs(out, ins):
        return [("reduced field == volume-weighted mean of spatial record (tolerance 1e-9)", "field:reduce:nondyadic", jx.lift(out["fr"]),
                 o_div(o_ssum(o_mul(jx.lift(out["fs"]), vol[None])), vtot)),
                ("reduced phasor == volume-weighted mean of spatial phasor (tolerance 1e-9)", "phasor:reduce:nondyadic", jx.lift(out["pr"]),
                 o_div(o_ssum(o_mul(jx.lift(out["ps"]), vol[None, None])), vtot))]

    t0 = time.time()
    out, tr = jx.call(real, E, H)
    c.interp_s += time.time() - t0
    c.symvars += E.size + H.size
    conc = [_signed(rng, E.shape) / 1.5, _signed(rng, H.shape) / 1.5]
    want = _tree_np(real(*[jnp.asarray(x) for x in conc]))
    got = tr(*[jx.fracarr(x) for x in conc])
    for g, w in zip(jax.tree_util.tree_leaves(got, is_leaf=jx.is_obj), jax.tree_util.tree_leaves(want)):
        c.validate(jx.to_numeric(g), np.asarray(w), "fieldtol")
    P = pairs(out, [E, H])

    def mk_replay(i):
        def replay(m):
            ci = [model_array(m, E), model_array(m, H)]
            o = _tree_np(real(*[jnp.asarray(x) for x in ci]))
            nm, key, l, r = pairs(jax.tree_util.tree_map(jx.lift, o), [jx.lift(x) for x in ci])[i]
            l, r = np.asarray(jx.to_numeric(jx.lift(l))), np.asarray(jx.to_numeric(jx.lift(r)))
            err = float(np.max(np.abs(l - r)))
            return err > 0.5 * tol, dict(obligation=nm, err=err, tol=tol, code=l, oracle=r, inputs=ci)
        return replay

    for i, (nm, key, l, r) in enumerate(P):
        prove_entries(c, f"fieldtol t{t}: {nm}", l, r, box, mk_replay(i), key, tol=tol)
    c.witness("fieldtol: twin (reduced record can be non-zero)", sc.ne(jx.lift(out["fr"]).reshape(-1)[0], 0), box)


# --------------------------------------------------------------------------- phasor


def _waves():
    return [fdtdx.WaveCharacter(wavelength=13.0 * SP), fdtdx.WaveCharacter(wavelength=22.5 * SP)]


def _phasor(c, G, rng):
    shape, lo, rs, widths = G["shape"], G["lo"], G["rs"], G["widths"]
    from fdtdx.core.window import GaussianWindow
    from fdtdx.objects.detectors.phasor import PhasorDetector
    from fdtdx.objects.detectors.poynting_flux import ClosedSurfacePhasorPoyntingFluxDetector, PhasorPoyntingFluxDetector

    variants = [dict(components=_ALL, scaling_mode="continuous"), dict(components=("Ey", "Hx", "Hz"), scaling_mode="pulse", dft_subsample=1),
                dict(components=("Ez",), scaling_mode="continuous", apodization="gauss")]
    dets = []
    dtw = None
    for k, v in enumerate(variants):
        for red in (True, False):
            for inv in (False, True):
                kw = dict(v)
                if kw.get("apodization") == "gauss":
                    kw["apodization"] = GaussianWindow(center_time=2.0e-16, sigma_time=3.0e-16)
                dets.append((PhasorDetector(name=f"p{k}{'r' if red else 's'}{'i' if inv else 'f'}", partial_grid_shape=rs, reduce_volume=red, inverse=inv,
                                            wave_characters=_waves() if k != 1 else _waves()[:1], dtype=jnp.complex128, **kw), lo))
    prs = tuple(1 if a == 0 else rs[a] for a in range(3))
    for inv in (False, True):
        dets.append((ClosedSurfacePhasorPoyntingFluxDetector(name=f"cs{'i' if inv else 'f'}", partial_grid_shape=rs, inverse=inv, wave_characters=_waves()[:1], dtype=jnp.complex128), lo))
        dets.append((PhasorPoyntingFluxDetector(name=f"pp{'i' if inv else 'f'}", partial_grid_shape=prs, direction="+", inverse=inv,
                                                fixed_propagation_axis=None if sum(v == 1 for v in prs) == 1 else 0, wave_characters=_waves()[:1], dtype=jnp.complex128), lo))
    S = mini_scene(shape, widths, dets)
    D, ST = S["det"], S["states"]
    vol = vol_weights(widths, shape, lo, rs)
    vtot = o_total(vol)
    E, H = jx.symarr("E", (3, *rs)), jx.symarr("H", (3, *rs))
    # accumulated phasor states: one symbolic state per shape class, shared by the forward and the inverse twin
    st_names = sorted({(n[:-1]) for n in D})
    states = {b: {k: jx.symarr(f"S_{b}_{k}", np.shape(v), cplx=True) for k, v in ST[b + "f"].items()} for b in st_names}

    def sub_region(x, n):
        return x[:, :1] if n.startswith("pp") else x

    for t in G["ts"]:
        def real(E, H, states, t=t):
            o = {}
            for n in D:
                o[n] = D[n].update(_t32(t), sub_region(E, n), sub_region(H, n), states[n[:-1]], None, None)
            return o

        def pairs(out, ins, t=t):
            E, H, states = ins
            p = []
            for b in st_names:
                for k in sorted(states[b]):
                    s0 = jx.lift(states[b][k])
                    df = o_sub(jx.lift(out[b + "f"][k]), s0)
                    di = o_sub(jx.lift(out[b + "i"][k]), s0)
                    cls = "closed_phasor" if b == "cs" else ("phasor_poynting" if b == "pp" else "phasor")
                    p.append((f"t{t} {b}/{k}: inverse subtracts what forward adds", f"{cls}:inverse", di, o_neg(df)))
            for k in range(len(variants)):
                for d in ("f", "i"):
                    inc_s = o_sub(jx.lift(out[f"p{k}s{d}"]["phasor"]), jx.lift(states[f"p{k}s"]["phasor"]))
                    inc_r = o_sub(jx.lift(out[f"p{k}r{d}"]["phasor"]), jx.lift(states[f"p{k}r"]["phasor"]))
                    p.append((f"t{t} p{k}{d}: reduced increment == volume-weighted mean of spatial increment", f"phasor:reduce:{G['grid']}",
                              inc_r, o_div(o_ssum(o_mul(inc_s, vol[None, None, None])), vtot)))
            return p

        flat_states, tree = jax.tree_util.tree_flatten(states, is_leaf=jx.is_obj)

        def real_flat(E, H, *fs, real=real):
            return real(E, H, jax.tree_util.tree_unflatten(tree, list(fs)))

        def pairs_flat(out, ins, pairs=pairs):
            return pairs(out, [ins[0], ins[1], jax.tree_util.tree_unflatten(tree, list(ins[2:]))])

        drive(c, f"phasor t{t}", real_flat, [E, H] + flat_states, pairs_flat, [],
              lambda out, ins: o_sub(jx.lift(out["p0rf"]["phasor"]), jx.lift(jax.tree_util.tree_unflatten(tree, list(ins[2:]))["p0r"]["phasor"])), rng,
              lambda r: [_signed(r, E.shape), _signed(r, H.shape)] + [_signed(r, s.shape) + 1j * _signed(r, s.shape) for s in flat_states])


# --------------------------------------------------------------------------- energy


def _energy(c, G, rng):
    shape, lo, rs, widths = G["shape"], G["lo"], G["rs"], G["widths"]
    dets = [(fdtdx.EnergyDetector(name="er", partial_grid_shape=rs, reduce_volume=True, dtype=jnp.float64), lo),
            (fdtdx.EnergyDetector(name="es", partial_grid_shape=rs, reduce_volume=False, dtype=jnp.float64), lo)]
    S = mini_scene(shape, widths, dets)
    D, ST = S["det"], S["states"]
    vol = vol_weights(widths, shape, lo, rs)
    E, H = jx.symarr("E", (3, *rs)), jx.symarr("H", (3, *rs))
    ie, im = jx.symarr("ie", (3, *rs)), jx.symarr("im", (3, *rs))
    half = Fraction(1, 2)
    for t in G["ts"]:
        for magnetic in (False, True):
            def real(E, H, ie, *rest, t=t, magnetic=magnetic):
                mu = rest[0] if magnetic else 1.0
                return {n: D[n].update(_t32(t), E, H, ST[n], ie, mu)["energy"][t] for n in D}

            def pairs(out, ins, t=t, magnetic=magnetic):
                E, H, ie = ins[:3]
                mu = ins[3] if magnetic else jx.lift(np.ones(np.shape(E)))
                dens = o_add(o_ssum(o_div(o_mul(E, E), ie).transpose(1, 2, 3, 0), 1), o_ssum(o_div(o_mul(H, H), mu).transpose(1, 2, 3, 0), 1))
                dens = o_mul(dens, jx.lift(np.array(0.5)))
                sp, rd = jx.lift(out["es"]), jx.lift(out["er"])
                return [(f"t{t} mu={'array' if magnetic else 'scalar'}: spatial record == (E.eps.E + H.mu.H)/2", "energy:formula", sp, dens),
                        (f"t{t} mu={'array' if magnetic else 'scalar'}: reduced == volume-weighted sum of spatial record", f"energy:reduce:{G['grid']}",
                         rd.reshape(()), o_ssum(o_mul(sp, vol)))]

            syms = [E, H, ie] + ([im] if magnetic else [])
            assume = [v > 0 for v in ie.reshape(-1)] + ([v > 0 for v in im.reshape(-1)] if magnetic else [])
            drive(c, f"energy t{t} mu{int(magnetic)}", real, syms, pairs, assume, lambda out, ins: out["er"], rng,
                  lambda r, n=len(syms): [_signed(r, E.shape), _signed(r, H.shape)] + [np.round(r.uniform(0.2, 1.0, size=ie.shape), 3) for _ in range(n - 2)])


# --------------------------------------------------------------------------- poynting


def _plane(rs, a):
    return tuple(1 if i == a else rs[i] for i in range(3))


def _poynting(c, G, rng):
    shape, lo, rs, widths = G["shape"], G["lo"], G["rs"], G["widths"]
    P = fdtdx.PoyntingFluxDetector
    # (tag, region shape, propagation axis, fixed_propagation_axis)
    regions = [(f"plane{a}", _plane(rs, a), a, None if sum(v == 1 for v in _plane(rs, a)) == 1 else a) for a in range(3)] + [("thick", rs, 1, 1), ("line", (1, 1, rs[2]), 0, 0), ("cell", (1, 1, 1), 2, 2)]
    dets = []
    for tag, prs, a, fixed in regions:
        for dr in ("+", "-"):
            for red in (True, False):
                dets.append((P(name=f"{tag}{'p' if dr == '+' else 'm'}{'r' if red else 's'}", partial_grid_shape=prs, direction=dr, reduce_volume=red,
                               fixed_propagation_axis=fixed, dtype=jnp.float64), lo))
    # all-component variants on the single cell (the only region class on which placement succeeds, see _keepall)
    for red in (True, False):
        dets.append((P(name=f"cellall{'r' if red else 's'}", partial_grid_shape=(1, 1, 1), direction="+", reduce_volume=red, keep_all_components=True, dtype=jnp.float64), lo))
    S = mini_scene(shape, widths, dets)
    D, ST = S["det"], S["states"]
    E, H = jx.symarr("E", (3, *rs)), jx.symarr("H", (3, *rs))
    shp = {tag: prs for tag, prs, _, _ in regions}
    shp["cellall"] = (1, 1, 1)

    def cut(x, prs):
        return x[:, :prs[0], :prs[1], :prs[2]]

    for t in G["ts"]:
        def real(E, H, t=t):
            o = {}
            for n in D:
                prs = shp[n[:-2]] if not n.startswith("cellall") else (1, 1, 1)
                o[n] = D[n].update(_t32(t), cut(E, prs), cut(H, prs), ST[n], None, None)["poynting_flux"][t]
            return o

        def pairs(out, ins, t=t):
            E, H = ins
            p = []
            for tag, prs, a, fixed in regions:
                S_ = o_cross(cut(E, prs), cut(H, prs))
                area = area_weights(widths, shape, lo, prs, a)
                ps, pr, ms, mr = (jx.lift(out[f"{tag}{x}"]) for x in ("ps", "pr", "ms", "mr"))
                p.append((f"t{t} {tag}: spatial flux == (E x H)[axis {a}]", "poynting:formula", ps, S_[a]))
                p.append((f"t{t} {tag}: reduced flux == area-weighted sum of spatial flux", f"poynting:reduce:{G['grid']}", pr.reshape(()), o_ssum(o_mul(ps, area))))
                p.append((f"t{t} {tag}: minus direction negates (spatial)", "poynting:minus", ms, o_neg(ps)))
                p.append((f"t{t} {tag}: minus direction negates (reduced)", "poynting:minus", mr, o_neg(pr)))
            als, alr = jx.lift(out["cellalls"]), jx.lift(out["cellallr"])
            p.append((f"t{t} cell: single component == component 2 of all-component record (spatial)", "poynting:single-vs-all", jx.lift(out["cellps"]), als[2]))
            p.append((f"t{t} cell: single component == component 2 of all-component record (reduced)", "poynting:single-vs-all", jx.lift(out["cellpr"]).reshape(()), alr[2]))
            p.append((f"t{t} cell: all-component spatial record == E x H", "poynting:formula", als, o_cross(cut(E, (1, 1, 1)), cut(H, (1, 1, 1)))))
            for a in range(3):
                p.append((f"t{t} cell: all-component reduced[{a}] == area-weighted spatial[{a}]", f"poynting:reduce:{G['grid']}", alr[a],
                          o_ssum(o_mul(als[a], area_weights(widths, shape, lo, (1, 1, 1), a)))))
            return p

        drive(c, f"poynting t{t}", real, [E, H], pairs, [], lambda out, ins: out["plane0pr"], rng, lambda r: [_signed(r, E.shape), _signed(r, H.shape)])


def _keepall(c, G, rng):
    """keep_all_components=True on plane regions larger than one cell: legal per the field documentation, so the real
    placement must succeed.  Where it does, single == propagation component of the all-component output is proved."""
    shape, lo, rs, widths = G["shape"], G["lo"], G["rs"], G["widths"]
    from fdtdx.objects.detectors.poynting_flux import PhasorPoyntingFluxDetector

    P = fdtdx.PoyntingFluxDetector
    t = G["ts"][0]
    E, H = jx.symarr("E", (3, *rs)), jx.symarr("H", (3, *rs))
    did = 0
    failed = {"poynting": [], "phasor_poynting": []}
    for a in range(3):
        prs = _plane(rs, a)
        for red in (True, False):
            mk = lambda keep, nm: P(name=nm, partial_grid_shape=prs, direction="+", reduce_volume=red, keep_all_components=keep, dtype=jnp.float64)
            mini_scene(shape, widths, [(mk(False, "one"), lo)])  # control: the same detector without the flag places fine
            try:
                S = mini_scene(shape, widths, [(mk(False, "one"), lo), (mk(True, "all"), lo)])
            except Inconclusive:
                raise
            except Exception as ex:  # noqa: BLE001
                failed["poynting"].append(dict(region=list(prs), reduce_volume=red, error=f"{type(ex).__name__}: {str(ex)[:200]}"))
                continue
            D, ST = S["det"], S["states"]
            did += 1

            def real(E, H):
                return {n: D[n].update(_t32(t), E[:, :prs[0], :prs[1], :prs[2]], H[:, :prs[0], :prs[1], :prs[2]], ST[n], None, None)["poynting_flux"][t] for n in D}

            def pairs(out, ins):
                one, al = jx.lift(out["one"]), jx.lift(out["all"])
                tgt = al[a] if isinstance(al[a], np.ndarray) else jx.obj0(al[a])
                return [(f"plane{a} red={red}: single component == component {a} of all-component record", "poynting:single-vs-all", one.reshape(tgt.shape), tgt)]

            drive(c, f"keepall plane{a} red{int(red)}", real, [E, H], pairs, [], lambda out, ins: out["one"], rng, lambda r: [_signed(r, E.shape), _signed(r, H.shape)])
    # frequency-domain sibling (compute_poynting_flux on a symbolic accumulated phasor state)
    for a in range(3):
        prs = _plane(rs, a)
        mk = lambda keep, nm: PhasorPoyntingFluxDetector(name=nm, partial_grid_shape=prs, direction="+", keep_all_components=keep,
                                                         wave_characters=_waves(), dtype=jnp.complex128)
        mini_scene(shape, widths, [(mk(False, "one"), lo)])
        try:
            S = mini_scene(shape, widths, [(mk(False, "one"), lo), (mk(True, "all"), lo)])
        except Inconclusive:
            raise
        except Exception as ex:  # noqa: BLE001
            failed["phasor_poynting"].append(dict(region=list(prs), error=f"{type(ex).__name__}: {str(ex)[:200]}"))
            continue
        D, ST = S["det"], S["states"]
        did += 1
        st = jx.symarr("S", np.shape(ST["one"]["phasor"]), cplx=True)

        def real(st):
            return {n: D[n].compute_poynting_flux({"phasor": st}) for n in D}

        def pairs(out, ins):
            return [(f"plane{a}: phasor flux == component {a} of all-component phasor flux", "phasor_poynting:single-vs-all", jx.lift(out["one"]), jx.lift(out["all"])[:, a])]

        drive(c, f"keepall phasor plane{a}", real, [st], pairs, [], lambda out, ins: out["one"], rng)
    for cls, lst in failed.items():
        if lst:
            name = "PoyntingFluxDetector" if cls == "poynting" else "PhasorPoyntingFluxDetector"
            c.fail_concrete(f"{name}(keep_all_components=True) raises at placement on {len(lst)} legal plane region(s) (same detector without the flag places)",
                            dict(grid=G["grid"], lo=list(lo), domain=list(shape), failures=lst), key=f"{cls}:keep_all_components:placement")
    if not did:
        # nothing symbolic could be set up in this case: the twin is the control placement itself
        c.witness("twin: control detectors (flag off) place", True, [])


# --------------------------------------------------------------------------- closed surface


def _closed(c, G, rng):
    shape, lo, rs, widths = G["shape"], G["lo"], G["rs"], G["widths"]
    P, CS = fdtdx.PoyntingFluxDetector, fdtdx.ClosedSurfacePoyntingFluxDetector
    thin = tuple(1 if a == 2 else rs[a] for a in range(3))  # quasi-2D box: default axes drop the size-one axis
    boxes = [("box", rs, None), ("boxax", rs, (0, 2)), ("thin", thin, None), ("thinax", thin, (2, 1))]
    dets = []
    for tag, brs, axes in boxes:
        for orient in ("outward", "inward"):
            dets.append((CS(name=f"{tag}_{orient[:2]}", partial_grid_shape=brs, orientation=orient, axes=axes, dtype=jnp.float64), lo))
    for tag, brs in (("box", rs), ("thin", thin)):
        for a in range(3):
            for side in ("min", "max"):
                flo = tuple(lo[i] + (brs[i] - 1 if (i == a and side == "max") else 0) for i in range(3))
                # min faces look along -a (outward normal), max faces along +a
                dets.append((P(name=f"{tag}_f{a}{side}", partial_grid_shape=_plane(brs, a), direction="+" if side == "max" else "-", reduce_volume=True,
                               fixed_propagation_axis=a if sum(v == 1 for v in _plane(brs, a)) != 1 else None, dtype=jnp.float64), flo))
    S = mini_scene(shape, widths, dets)
    D, ST = S["det"], S["states"]
    E, H = jx.symarr("E", (3, *rs)), jx.symarr("H", (3, *rs))
    brs_of = {"box": rs, "boxax": rs, "thin": thin, "thinax": thin}

    def face(x, brs, a, side):
        x = x[:, :brs[0], :brs[1], :brs[2]]
        idx = [slice(None)] * 4
        idx[a + 1] = slice(0, 1) if side == "min" else slice(brs[a] - 1, brs[a])
        return x[tuple(idx)]

    for t in G["ts"]:
        def real(E, H, t=t):
            o = {}
            for n in D:
                tag, rest = n.split("_")
                brs = brs_of[tag]
                if rest.startswith("f"):
                    a, side = int(rest[1]), rest[2:]
                    o[n] = D[n].update(_t32(t), face(E, brs, a, side), face(H, brs, a, side), ST[n], None, None)["poynting_flux"][t]
                else:
                    o[n] = D[n].update(_t32(t), E[:, :brs[0], :brs[1], :brs[2]], H[:, :brs[0], :brs[1], :brs[2]], ST[n], None, None)["poynting_flux"][t]
            return o

        def pairs(out, ins, t=t):
            p = []
            for tag, brs, axes in boxes:
                base = "box" if tag.startswith("box") else "thin"
                use = range(3) if axes is None else axes  # default: all six faces (a size-one axis pair cancels by itself)
                tot = 0
                for a in use:
                    for side in ("min", "max"):
                        tot = sc.add(tot, jx.lift(out[f"{base}_f{a}{side}"]).reshape(-1)[0])
                co, ci = jx.lift(out[f"{tag}_ou"]).reshape(()), jx.lift(out[f"{tag}_in"]).reshape(())
                p.append((f"t{t} {tag} axes={axes}: closed surface == signed sum of its face fluxes", f"closed:faces:{G['grid']}", co, jx.obj0(tot)))
                p.append((f"t{t} {tag} axes={axes}: inward orientation negates", "closed:inward", ci, o_neg(co)))
            return p

        drive(c, f"closed t{t}", real, [E, H], pairs, [], lambda out, ins: out["box_ou"], rng, lambda r: [_signed(r, E.shape), _signed(r, H.shape)])
    _closed_phasor(c, G, rng)


def _closed_phasor(c, G, rng):
    """frequency-domain twin of the clause: ClosedSurfacePhasorPoyntingFluxDetector.compute_net_flux equals the signed sum
    of PhasorPoyntingFluxDetector.compute_poynting_flux over its faces, in both scaling modes (face phasor states symbolic)."""
    from fdtdx.objects.detectors.poynting_flux import ClosedSurfacePhasorPoyntingFluxDetector as CSP, PhasorPoyntingFluxDetector as PP
    shape, lo, rs, widths = G["shape"], G["lo"], G["rs"], G["widths"]
    waves = _waves()[:1]
    dets = []
    for sm in ("continuous", "pulse"):
        for orient in ("outward", "inward"):
            dets.append((CSP(name=f"cs_{sm[:1]}{orient[:2]}", partial_grid_shape=rs, orientation=orient, scaling_mode=sm, wave_characters=waves, dtype=jnp.complex128), lo))
        for a in range(3):
            for side in ("min", "max"):
                flo = tuple(lo[i] + (rs[i] - 1 if (i == a and side == "max") else 0) for i in range(3))
                dets.append((PP(name=f"pf_{sm[:1]}{a}{side}", partial_grid_shape=_plane(rs, a), direction="+" if side == "max" else "-", scaling_mode=sm,
                                fixed_propagation_axis=a if sum(v == 1 for v in _plane(rs, a)) != 1 else None, wave_characters=waves, dtype=jnp.complex128), flo))
    S = mini_scene(shape, widths, dets)
    D, ST = S["det"], S["states"]
    keys = sorted(ST["cs_cou"])
    faces = [jx.symarr(f"F_{k}", np.shape(ST["cs_cou"][k]), cplx=True) for k in keys]

    def real(*fs):
        st = dict(zip(keys, fs))
        o = {}
        for sm in ("c", "p"):
            for orient in ("ou", "in"):
                o[f"cs_{sm}{orient}"] = D[f"cs_{sm}{orient}"].compute_net_flux(st)
            for a in range(3):
                for side in ("min", "max"):
                    k = f"phasor_axis{a}_{side}"
                    if k in st:
                        o[f"pf_{sm}{a}{side}"] = D[f"pf_{sm}{a}{side}"].compute_poynting_flux({"phasor": st[k]})
        return o

    def pairs(out, ins):
        p = []
        for sm, nm in (("c", "continuous"), ("p", "pulse")):
            tot = 0
            for a in range(3):
                for side in ("min", "max"):
                    if f"pf_{sm}{a}{side}" in out:
                        tot = sc.add(tot, jx.lift(out[f"pf_{sm}{a}{side}"]).reshape(-1)[0])
            co, ci = jx.lift(out[f"cs_{sm}ou"]).reshape(()), jx.lift(out[f"cs_{sm}in"]).reshape(())
            p.append((f"phasor closed surface ({nm}) == signed sum of its phasor face fluxes", f"closed-phasor:faces:{nm}", co, jx.obj0(tot)))
            p.append((f"phasor closed surface ({nm}): inward orientation negates", "closed-phasor:inward", ci, o_neg(co)))
        return p

    def conc(r):
        return [r.normal(size=f.shape) + 1j * r.normal(size=f.shape) for f in faces]

    drive(c, "closed phasor", real, faces, pairs, [], lambda out, ins: out["cs_pou"], rng, conc)

