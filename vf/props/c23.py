"""C23 -- fabrication clean-up keeps exactly the connected material (E1 over Bool voxels).

Every voxel of the design is a z3 Bool.  The real ``remove_floating_polymer`` / ``compute_polymer_connection`` /
``compute_air_connection`` / ``connect_holes_and_structures`` (and the two transform modules that wrap them) are traced
to a jaxpr and interpreted; the flood fill (``fori_loop`` -> scan with a concrete trip count) is fully unrolled, the
``convolve2d`` dilations go through the interpreter's linear rule.  The oracle is written here from the property text:
face-adjacent reachability as a fixpoint iteration unrolled ``#cells - 1`` times (the longest possible shortest path),
in z3 for the obligations and as an independent numpy BFS for the float64/bool replay.

Obligation classes (each with its own key):
  * kept  =>  material and connected to the bottom layer                    (``...:keeps_unconnected``)
  * material connected within 1.5*max(shape) face steps  =>  kept           (``...:drops_connected_within_n_steps``)
  * material connected at all  =>  kept                                     (``...:too_few_sweeps`` / ``...:one_layer``)
    (for compute_air_connection only the first two classes are obligations; its exactness is recorded as a note)
  * connect_holes_and_structures: no floating material / no enclosed background in the output
  * a legal design shape on which the real code raises                      (``...:raises:<shape class>``)
The second class is implied by the third; it is kept separate so that a regression in the dilation itself is not hidden
behind the (suspected, DESIGN 5) iteration-count defect.
"""
from __future__ import annotations

import time
from fractions import Fraction

import jax
import jax.numpy as jnp
import numpy as np
import z3

import fdtdx
from fdtdx.objects.device.parameters import binary_transform as bt
from fdtdx.objects.device.parameters.discrete import ConnectHolesAndStructures, RemoveFloatingMaterial
from fdtdx.typing import ParameterType

from .. import jx2smt as jx
from .. import sc
from ..core import Inconclusive, model_array

META = dict(
    functions=["binary_transform.remove_floating_polymer", "binary_transform.compute_polymer_connection",
               "binary_transform.compute_air_connection", "binary_transform.connect_holes_and_structures",
               "binary_transform.connect_slice", "binary_transform.dilate_jax", "binary_transform.seperated_3d_dilation",
               "discrete.RemoveFloatingMaterial.__call__", "discrete.ConnectHolesAndStructures.__call__"],
    assumptions=[
        "every voxel is a free Bool (all 2^N designs of the listed shapes are quantified by the solver)",
        "bottom layer = z index 0, top = last z index, sides = first/last x and y index (as documented in discrete.py)",
        "module level: two materials, parameters are the material indices 0/1 (the documented BINARY/DISCRETE input)",
    ],
    outside="design shapes other than the listed ones; more than two materials / fill_material; gradients (straight-through "
            "estimator only checked in the forward direction); remove_polymer_non_connected_to_x_max_middle; what "
            "connect_holes_and_structures keeps beyond feasibility (the statement only demands a feasible output, e.g. the "
            "empty design it returns for every one-layer input satisfies it)",
    bounds=dict(quick=dict(shapes="remove: 3x3x3 4x4x3 3x3x1 3x3x2 (+ raising 4x4x2, 2x4x3); air: 3x3x3 4x4x3 3x3x1; "
                                  "connect: 3x3x2 3x3x3 (+ raising 4x4x2, 4x4x1); modules 3x3x3", oracle_iterations="#cells - 1"),
                thorough=dict(shapes="quick + remove 3x3x4 5x5x3 4x4x4 5x3x3 7x7x1 7x7x3; air 5x5x3 4x4x4; connect 2x2x3 3x3x4 4x3x3 4x4x3 "
                                     "(connect 4x4x4 needs 20 min, 5x5x3 > 50 min: not listed)", oracle_iterations="#cells - 1")),
    timeout_ms=dict(quick=60000, thorough=400000),
)

K_RM, K_AIR, K_CON = "remove_floating_polymer", "compute_air_connection", "connect_holes_and_structures"


def cases(tier, seed):
    q = [
        dict(name="remove-3x3x3", kind="remove", shape=(3, 3, 3)),
        dict(name="remove-4x4x3", kind="remove", shape=(4, 4, 3)),
        dict(name="remove-3x3x1-one-layer", kind="remove", shape=(3, 3, 1)),
        dict(name="remove-3x3x2-two-layer", kind="remove", shape=(3, 3, 2)),
        dict(name="remove-4x4x2-two-layer", kind="remove", shape=(4, 4, 2)),
        dict(name="remove-2x4x3-thin", kind="remove", shape=(2, 4, 3)),
        dict(name="air-3x3x3", kind="air", shape=(3, 3, 3)),
        dict(name="air-4x4x3", kind="air", shape=(4, 4, 3)),
        dict(name="air-3x3x1-one-layer", kind="air", shape=(3, 3, 1)),
        dict(name="connect-3x3x2", kind="connect", shape=(3, 3, 2)),
        dict(name="connect-3x3x3", kind="connect", shape=(3, 3, 3)),
        dict(name="connect-4x4x2-two-layer", kind="connect", shape=(4, 4, 2)),
        dict(name="connect-4x4x1-one-layer", kind="connect", shape=(4, 4, 1)),
        dict(name="module-remove-3x3x3-bg1", kind="mod_remove", shape=(3, 3, 3), bg=1),
        dict(name="module-connect-3x3x3-bg0", kind="mod_connect", shape=(3, 3, 3), bg=0),
    ]
    if tier == "quick":
        return q
    return q + [
        dict(name="module-remove-3x3x3-bg0", kind="mod_remove", shape=(3, 3, 3), bg=0),
        dict(name="connect-2x2x3", kind="connect", shape=(2, 2, 3)),
        dict(name="remove-3x3x4", kind="remove", shape=(3, 3, 4)),
        dict(name="remove-5x5x3", kind="remove", shape=(5, 5, 3)),
        dict(name="remove-4x4x4", kind="remove", shape=(4, 4, 4)),
        dict(name="remove-5x3x3", kind="remove", shape=(5, 3, 3)),
        dict(name="remove-7x7x1-one-layer", kind="remove", shape=(7, 7, 1)),
        dict(name="remove-7x7x3", kind="remove", shape=(7, 7, 3)),
        dict(name="air-5x5x3", kind="air", shape=(5, 5, 3)),
        dict(name="air-4x4x4", kind="air", shape=(4, 4, 4)),
        dict(name="connect-3x3x4", kind="connect", shape=(3, 3, 4)),
        dict(name="connect-4x3x3", kind="connect", shape=(4, 3, 3)),
        dict(name="connect-4x4x3", kind="connect", shape=(4, 4, 3)),
        dict(name="module-connect-3x3x3-bg1", kind="mod_connect", shape=(3, 3, 3), bg=1),
    ]


# ------------------------------------------------------------------------------------------------ Bool-level view of "count != 0"
def _numval(t):
    if z3.is_int_value(t):
        return Fraction(t.as_long())
    if z3.is_rational_value(t):
        return Fraction(t.numerator_as_long(), t.denominator_as_long())
    return None


def _indicator_sum(t, acc):
    """t == const + sum_i coef_i * If(b_i, 1, 0) with const >= 0 and every coef_i > 0: append the b_i to ``acc`` and return
    const, else return None (no rewrite).  Pure pattern match on the z3 term the interpreter built for a dilation count."""
    v = _numval(t)
    if v is not None:
        return v if v >= 0 else None
    k = t.decl().kind()
    if k == z3.Z3_OP_ITE:
        cnd, a, b = t.children()
        va, vb = _numval(a), _numval(b)
        if va is not None and vb is not None and va > 0 and vb == 0:
            acc.append(cnd)
            return Fraction(0)
        return None
    if k == z3.Z3_OP_ADD:
        tot = Fraction(0)
        for ch in t.children():
            r = _indicator_sum(ch, acc)
            if r is None:
                return None
            tot += r
        return tot
    if k == z3.Z3_OP_MUL and len(t.children()) == 2:
        a, b = t.children()
        if _numval(b) is not None:
            a, b = b, a
        va = _numval(a)
        if va is not None and va > 0:
            sub = []
            r = _indicator_sum(b, sub)
            if r is None:
                return None
            acc.extend(sub)
            return r * va
        return None
    if k == z3.Z3_OP_TO_REAL:
        return _indicator_sum(t.children()[0], acc)
    return None


class BoolInterp(jx.Interp):
    """jx.Interp whose float/int -> bool conversion recognises a non-negative combination of 0/1 indicators (the
    neighbour count a binary dilation produces) and returns the equivalent disjunction instead of ``count != 0``.  The
    rewrite is an equivalence (all coefficients positive, constant non-negative); anything else is left untouched."""

    def p_convert_element_type(self, e, ins):
        out = jx.Interp.p_convert_element_type(self, e, ins)
        if not np.issubdtype(np.dtype(e.params["new_dtype"]), np.bool_) or np.issubdtype(np.dtype(e.invars[0].aval.dtype), np.bool_):
            return out
        src = jx.lift(ins[0])
        res = np.empty(src.shape, dtype=object)
        for idx in np.ndindex(*src.shape):
            v = src[idx]
            res[idx] = out[idx]
            if sc.isz(v) and not z3.is_bool(v):
                acc = []
                const = _indicator_sum(v, acc)
                if const is not None:
                    res[idx] = True if const > 0 else (z3.Or(*acc) if len(acc) > 1 else (acc[0] if acc else False))
        return res


class CutInterp(BoolInterp):
    """additionally records every Bool array produced by an ``and`` equation (the masked dilation stages): candidate
    cut points for the lemma chain of :func:`_cut_lemmas`."""

    def __init__(self, *a, **k):
        super().__init__(*a, **k)
        self.cuts = []

    def p_and(self, e, ins):
        out = jx.Interp.p_and(self, e, ins)
        if jx.is_obj(out):
            self.cuts.append(out)
        return out


# ------------------------------------------------------------------------------------------------ oracle (independent)
_NB = [(1, 0, 0), (-1, 0, 0), (0, 1, 0), (0, -1, 0), (0, 0, 1), (0, 0, -1)]


def _neighbours(idx, shape):
    for d in _NB:
        j = tuple(i + k for i, k in zip(idx, d))
        if all(0 <= a < s for a, s in zip(j, shape)):
            yield j


def _seed_bottom(shape):
    s = np.zeros(shape, dtype=bool)
    s[:, :, 0] = True
    return s


def _seed_sides_top(shape):
    s = np.zeros(shape, dtype=bool)
    s[:, :, -1] = True
    s[0, :, :] = True
    s[-1, :, :] = True
    s[:, 0, :] = True
    s[:, -1, :] = True
    return s


def reach_sym(mask, seed, iters):
    """cells of ``mask`` (object array of Bool terms / bools) joined to a ``seed`` cell (concrete bool array) of the mask
    through at most ``iters`` face steps inside the mask.  Returns the list of iterates R_0 .. R_iters."""
    shape = mask.shape
    R = np.empty(shape, dtype=object)
    for idx in np.ndindex(*shape):
        R[idx] = mask[idx] if seed[idx] else False
    hist = [R]
    for _ in range(iters):
        N = np.empty(shape, dtype=object)
        for idx in np.ndindex(*shape):
            acc = False
            for j in _neighbours(idx, shape):
                acc = sc.or_(acc, R[j])
            N[idx] = sc.or_(R[idx], sc.and_(mask[idx], acc))
        R = N
        hist.append(R)
    return hist


def reach_np(mask, seed):
    """independent concrete oracle: breadth-first search over face neighbours."""
    mask = np.asarray(mask, dtype=bool)
    out = np.zeros(mask.shape, dtype=bool)
    todo = [idx for idx in np.ndindex(*mask.shape) if seed[idx] and mask[idx]]
    for idx in todo:
        out[idx] = True
    while todo:
        idx = todo.pop()
        for j in _neighbours(idx, mask.shape):
            if mask[j] and not out[j]:
                out[j] = True
                todo.append(j)
    return out


def _tob(a):
    """interpreter output (object array of Bool terms / numeric array) -> object array of Bool scalars."""
    a = jx.lift(a)
    out = np.empty(a.shape, dtype=object)
    for idx in np.ndindex(*a.shape):
        v = a[idx]
        if sc.isz(v):
            out[idx] = v if z3.is_bool(v) else (v != 0)
        else:
            out[idx] = bool(v)
    return out


def _all(xs):
    xs = list(xs)
    if any((not sc.isz(x)) and not x for x in xs):
        return False
    zs = [x for x in xs if sc.isz(x)]
    return z3.And(*zs) if zs else True


def _any(xs):
    xs = list(xs)
    if any((not sc.isz(x)) and bool(x) for x in xs):
        return True
    zs = [x for x in xs if sc.isz(x)]
    return z3.Or(*zs) if zs else False


def _simp(t):
    """z3's own equivalence-preserving simplifier (removes the 0/1 index arithmetic of the module wrappers)."""
    return z3.simplify(t) if sc.isz(t) else t


def _shape_class(shape):
    x, y, z = shape
    if z == 1:
        return "one_layer"
    if z == 2:
        return "two_layer"
    if min(x, y) < 3 <= max(x, y):
        return "thin_lateral_axis"
    return "bulk"


def _try_concrete(c, fn, shape, what):
    """a legal design on which the real code raises is a violation by itself (the clean-up is not even computed)."""
    try:
        for fill in (False, True):
            np.asarray(fn(jnp.full(shape, fill, dtype=bool)))
        return True
    except Exception as ex:  # noqa: BLE001
        c.witness("design shape is legal (3d boolean array)", True)
        c.fail_concrete(f"{what} raises on a {'x'.join(map(str, shape))} design",
                        dict(shape=list(shape), design="all background / all material", exception=f"{type(ex).__name__}: {ex}"[:300]),
                        key=f"{what}:raises:{_shape_class(shape)}")
        return False


def _validate(c, tr, fn, shape, rng, post=lambda o: o):
    for p in (0.35, 0.7):
        x = rng.random(shape) < p
        got = post(tr(jx.lift(x)))
        want = post(fn(jnp.asarray(x)))
        for g, w in zip(jax.tree_util.tree_leaves(got, is_leaf=jx.is_obj), jax.tree_util.tree_leaves(want)):
            c.validate(jx.to_numeric(g).astype(np.float64), np.asarray(w).astype(np.float64), "clean-up on a random design")


def closed_set(mask, seed, name):
    """"connected to a seed cell through face-adjacent mask cells" = member of EVERY set C that contains the seed cells of
    the mask and is closed under stepping to a face-adjacent mask cell (the least such set is the connected region).
    Returns fresh Bool cells C and the assumptions saying that C is such a set; an obligation  x => C[idx]  proved under
    them for arbitrary C says "x only if idx is connected"."""
    shape = mask.shape
    C = jx.symarr(name, shape, sort="bool")
    assume = []
    for idx in np.ndindex(*shape):
        if seed[idx]:
            assume.append(z3.Implies(sc.toz(mask[idx]), C[idx]))
        for j in _neighbours(idx, shape):
            assume.append(z3.Implies(z3.And(C[idx], sc.toz(mask[j])), C[j]))
    return C, assume


def _cut_lemmas(c, cuts, C, assume, budget_ms=20000):
    """proof decomposition for the "only connected cells" direction: for every recorded intermediate Bool array S of the
    design shape, in program order, ask the solver whether  S subset-of C  follows from the closed-set assumptions and the
    lemmas established so far; if (and only if) it answers unsat the lemma joins the list.  Every lemma is a solver
    verdict about the real code's own intermediate value, none is assumed; arrays that are not subsets are skipped."""
    lem, ok = [], 0
    for S in cuts:
        if S.shape != C.shape:
            continue
        cl = [z3.Implies(sc.toz(S[idx]), C[idx]) for idx in np.ndindex(*C.shape) if not (isinstance(S[idx], (bool, np.bool_)) and not S[idx])]
        if not cl:
            continue
        s = z3.Solver()
        s.set("timeout", budget_ms)
        s.add(*assume)
        s.add(*lem)
        s.add(z3.Not(z3.And(*cl)))
        t0 = time.time()
        r = s.check()
        c.solver_s += time.time() - t0
        c.queries += 1
        if r == z3.unsat:
            lem += cl
            ok += 1
    c.extra["cutpoint_lemmas"] = c.extra.get("cutpoint_lemmas", 0) + ok
    return lem


def _near_depth(shape):
    """depth of the "connected within d face steps => kept" obligation class.  It is a sub-claim of the completeness
    obligation, split off so that a regression of the dilation itself shows up under its own key and not under the
    iteration-count key: d = 1.5 * max(shape) is what max(shape) sweeps of three plane-wise dilations reach on any path
    (every two consecutive sweeps advance at least three steps); on designs of more than 80 cells the solver does not
    decide that depth within the budget and d = max(shape) (one step per sweep) is used."""
    return (3 * max(shape)) // 2 if int(np.prod(shape)) <= 80 else max(shape)


def _chunks(shape):
    """cells grouped into obligations: one per cell on small designs, ~16 groups on large ones."""
    cells = list(np.ndindex(*shape))
    k = 1 if len(cells) <= 48 else -(-len(cells) // 16)
    return [cells[i:i + k] for i in range(0, len(cells), k)]


def _gname(g):
    return str(list(g[0])) if len(g) == 1 else f"{list(g[0])}..{list(g[-1])}"


def _prove_complete(c, name, hist, o, n_sweeps, replay, key):
    """obligation  "every connected cell is kept":  R_{#cells-1} subset-of o  (one query over all cells).  The iterates
    R_k of the oracle grow with k, so a witness of  R_k[c] and not o[c]  for a small k is a witness for the obligation
    as well: the query is asked with increasing depth and the first replay-confirmed witness is reported; the obligation
    only counts as discharged by the unsat verdict at full depth."""
    last = len(hist) - 1
    depths = sorted({min(d, last) for d in (2 * n_sweeps, 3 * n_sweeps + 1, 4 * n_sweeps + 2)} | {last})
    for d in depths:
        snap = (c.obligations, c.discharged, c.trivial, len(c.samples))
        R = hist[d]
        ok = c.prove(name if d == last else f"{name}(oracle depth {d})", _all(z3.Implies(sc.toz(R[idx]), sc.toz(o[idx])) for idx in np.ndindex(*o.shape)), (), replay, key)
        if not ok or d == last:
            return ok
        c.obligations, c.discharged, c.trivial = snap[0], snap[1], snap[2]
        del c.samples[snap[3]:]
    return True


def _prove_upper(c, name, cell, hint_cell, full_cell, replay, key):
    """obligation  cell => full_cell  ("only connected cells").  ``full_cell`` is the (#cells-1)-step iterate of the oracle;
    ``hint_cell`` is an earlier iterate of the same monotone chain (R_k => R_{k+1} holds by construction of reach_sym), so
    discharging the much shallower  cell => hint_cell  discharges the obligation.  Only if that fails is the full query
    asked (and only its witness is ever replayed / reported)."""
    snap = (c.obligations, c.discharged, c.trivial, len(c.inconclusive), len(c.violations), len(c.samples))
    if hint_cell is not full_cell and c.prove(name, z3.Implies(sc.toz(cell), sc.toz(hint_cell)), (), None, key):
        return True
    c.obligations, c.discharged, c.trivial = snap[0], snap[1], snap[2]
    del c.inconclusive[snap[3]:], c.violations[snap[4]:], c.samples[snap[5]:]
    return c.prove(name, z3.Implies(sc.toz(cell), sc.toz(full_cell)), (), replay, key)


# ------------------------------------------------------------------------------------------------ flood-fill cases
def _flood_case(c, case, what, fn, seed, invert):
    """fn(m) -> boolean mask that must equal the cells of (m or not m) connected to ``seed``."""
    shape = tuple(case["shape"])
    N = int(np.prod(shape))
    n_sweeps = max(shape)
    if not _try_concrete(c, fn, shape, what):
        return
    m = jx.symarr("m", shape, sort="bool")
    c.symvars += N
    t0 = time.time()
    it = CutInterp()
    out, tr = jx.call(fn, m, interp=it)
    c.interp_s += time.time() - t0
    rng = np.random.default_rng(c.seed + 23)
    _validate(c, tr, fn, shape, rng)
    outs = [_tob(o) for o in (out if isinstance(out, (tuple, list)) else [out])]
    mask = np.empty(shape, dtype=object)
    for idx in np.ndindex(*shape):
        mask[idx] = z3.Not(m[idx]) if invert else m[idx]
    hist = reach_sym(mask, seed, N - 1)
    full, near = hist[-1], hist[min(_near_depth(shape), N - 1)]
    cls = _shape_class(shape)

    def replay_for(k):
        def replay(model):
            d = model_array(model, m).astype(bool)
            got = fn(jnp.asarray(d))
            got = np.asarray(got[k] if isinstance(got, (tuple, list)) else got).astype(bool)
            want = reach_np(~d if invert else d, seed)
            bad = got != want
            return bool(bad.any()), dict(shape=list(shape), design=d.astype(int), got=got.astype(int), oracle=want.astype(int),
                                         wrongly_kept=int((got & ~want).sum()), wrongly_dropped=int((~got & want).sum()))
        return replay

    o, rp = outs[0], replay_for(0)
    C, closed = closed_set(mask, seed, "C")
    lem = _cut_lemmas(c, it.cuts, C, closed)
    # two conjunctions instead of thousands of single assumptions (keeps the per-query bookkeeping of Case.prove cheap)
    closed = [z3.And(*closed)] + ([z3.And(*lem)] if lem else [])
    groups = _chunks(shape)
    for g in groups:
        c.prove(f"{what}:sound{_gname(g)}", _all(z3.Implies(sc.toz(o[idx]), C[idx]) for idx in g), closed, rp, key=f"{what}:keeps_unconnected")
    kdef = f"{what}:one_layer_all_removed" if (cls == "one_layer" and not invert) else None
    for g in (groups if kdef is None else [list(np.ndindex(*shape))]):  # one-layer designs: one obligation over all cells
        c.prove(f"{what}:near{_gname(g)}", _all(z3.Implies(sc.toz(near[idx]), sc.toz(o[idx])) for idx in g), (), rp,
                key=kdef or f"{what}:drops_connected_within_n_steps")
    if kdef is None and not invert:
        _prove_complete(c, f"{what}:complete", hist, o, n_sweeps, rp, f"{what}:too_few_sweeps")
    elif kdef is None:
        # exactness of the air flood fill is not demanded by the statement (only the feasibility of what
        # connect_holes_and_structures returns is): whether it also misses long air channels is recorded, not judged
        v = c._check([z3.Not(sc.toz(_all(z3.Implies(sc.toz(full[idx]), sc.toz(o[idx])) for idx in np.ndindex(*shape))))])[0]
        c.extra["air_fill_marks_every_connected_air_cell"] = {"unsat": True, "sat": False}.get(v, v)
        if v == "sat":
            c.notes.append(f"compute_air_connection misses connected air cells on some {'x'.join(map(str, shape))} design (same max(shape)-sweep bound as the material fill); informational")
    for k in range(1, len(outs)):
        # compute_polymer_connection itself (second output of the traced function) marks exactly the kept cells
        for g in groups:
            c.prove(f"compute_polymer_connection==kept{_gname(g)}", _all(sc.toz(outs[k][idx]) == sc.toz(o[idx]) for idx in g), (), replay_for(k),
                    key="compute_polymer_connection:differs_from_kept_material")
    o = outs[0]
    # vacuity twins: the operation can remove something and can keep something away from the seed cells
    c.witness("some candidate cell is dropped", _any(z3.And(sc.toz(mask[idx]), z3.Not(sc.toz(full[idx]))) for idx in np.ndindex(*shape))
              if N > 1 and not seed.all() else True)
    far = [idx for idx in np.ndindex(*shape) if not seed[idx]]
    if far and not (cls == "one_layer" and not invert):
        c.witness("a cell away from the seed cells is kept (closed-set assumptions and lemmas satisfiable)", _any(sc.toz(o[idx]) for idx in far), closed)
    c.extra["eqns"] = tr.n_eqns
    c.bounds.update(shape=list(shape), sweeps=n_sweeps, oracle_iterations=N - 1)


def _rm_both(m):
    return bt.remove_floating_polymer(m), bt.compute_polymer_connection(m)


# ------------------------------------------------------------------------------------------------ connect cases
def _feasibility(c, case, what, fn, to_material, make_input, m, replay_design, dtypes=None):
    """output design O = to_material(fn(input)): no floating material, no enclosed background."""
    shape = tuple(case["shape"])
    N = int(np.prod(shape))
    t0 = time.time()
    it = BoolInterp()
    inp = make_input(m)
    out, tr = jx.call(fn, inp, interp=it, dtypes=dtypes)
    c.interp_s += time.time() - t0
    O = to_material(out)
    matO = np.empty(shape, dtype=object)
    airO = np.empty(shape, dtype=object)
    for idx in np.ndindex(*shape):
        matO[idx] = O[idx]
        airO[idx] = sc.not_(O[idx])
    hR = reach_sym(matO, _seed_bottom(shape), N - 1)
    hA = reach_sym(airO, _seed_sides_top(shape), N - 1)
    RO, AO = hR[-1], hA[-1]
    kh = min(3 * max(shape), N - 1)

    def replay(model):
        d = model_array(model, m).astype(bool)
        got = replay_design(d)
        r = reach_np(got, _seed_bottom(shape))
        a = reach_np(~got, _seed_sides_top(shape))
        floating, enclosed = got & ~r, ~got & ~a
        return bool(floating.any() or enclosed.any()), dict(shape=list(shape), design=d.astype(int), output=got.astype(int),
                                                            floating_material=int(floating.sum()), enclosed_background=int(enclosed.sum()))

    for idx in np.ndindex(*shape):
        _prove_upper(c, f"{what}:no_floating{list(idx)}", matO[idx], hR[kh][idx], RO[idx], replay, f"{what}:floating_material")
    for idx in np.ndindex(*shape):
        _prove_upper(c, f"{what}:no_enclosed{list(idx)}", airO[idx], hA[kh][idx], AO[idx], replay, f"{what}:enclosed_background")
    c.extra["eqns"] = tr.n_eqns
    c.bounds.update(shape=list(shape), oracle_iterations=N - 1)
    return O, tr


def _connect_case(c, case):
    shape = tuple(case["shape"])
    fn = bt.connect_holes_and_structures
    if not _try_concrete(c, fn, shape, K_CON):
        return
    m = jx.symarr("m", shape, sort="bool")
    c.symvars += m.size
    O, tr = _feasibility(c, case, K_CON, fn, _tob, lambda m: m, m, lambda d: np.asarray(fn(jnp.asarray(d))).astype(bool))
    _validate(c, tr, fn, shape, np.random.default_rng(c.seed + 5))
    # vacuity twins: the operation changes designs in both directions and can output material above the bottom layer
    c.witness("material is added somewhere", _any(z3.And(sc.toz(O[idx]), z3.Not(m[idx])) for idx in np.ndindex(*shape)))
    c.witness("material is removed somewhere", _any(z3.And(z3.Not(sc.toz(O[idx])), m[idx]) for idx in np.ndindex(*shape)))
    c.witness("output has material in the top layer and background below it",
              z3.And(_any(sc.toz(O[idx]) for idx in np.ndindex(*shape) if idx[2] == shape[2] - 1),
                     _any(z3.Not(sc.toz(O[idx])) for idx in np.ndindex(*shape) if idx[2] < shape[2] - 1)))


# ------------------------------------------------------------------------------------------------ module level
def _module(cls, shape, bg, **kw):
    mats = {"Air": fdtdx.Material(permittivity=1.0), "Silicon": fdtdx.Material(permittivity=11.7)}
    t = cls(background_material=None if bg == 0 else "Silicon", **kw)
    cfg = fdtdx.SimulationConfig(time=100e-15, grid=fdtdx.UniformGrid(spacing=500e-9), backend="cpu")
    t = t.init_module(config=cfg, materials=mats, matrix_voxel_grid_shape=shape, single_voxel_size=(1e-6, 1e-6, 1e-6), output_shape={"params": shape})
    return t.init_type({"params": ParameterType.BINARY})


def _idx_input(m, bg):
    p = np.empty(m.shape, dtype=object)
    for idx in np.ndindex(*m.shape):
        p[idx] = z3.If(m[idx], z3.RealVal(1 - bg), z3.RealVal(bg))  # Real-sorted like every interpreter constant (no to_real noise)
    return p


def _module_remove(c, case):
    shape, bg = tuple(case["shape"]), case["bg"]
    N = int(np.prod(shape))
    tform = _module(RemoveFloatingMaterial, shape, bg)
    fn = lambda p: tform({"params": p})["params"]
    m = jx.symarr("m", shape, sort="bool")
    c.symvars += N
    p = _idx_input(m, bg)
    t0 = time.time()
    out, tr = jx.call(fn, p, interp=BoolInterp(), dtypes={0: np.int32})
    c.interp_s += time.time() - t0
    rng = np.random.default_rng(c.seed + 3)
    d0 = rng.random(shape) < 0.6
    p0 = np.where(d0, 1 - bg, bg).astype(np.int32)
    c.validate(jx.to_numeric(tr(jx.lift(p0))).astype(np.float64), np.asarray(fn(jnp.asarray(p0))).astype(np.float64), "RemoveFloatingMaterial")
    hist = reach_sym(m, _seed_bottom(shape), N - 1)
    full, near = hist[-1], hist[min(_near_depth(shape), N - 1)]
    out = jx.lift(out)

    def replay(model):
        d = model_array(model, m).astype(bool)
        got = np.asarray(fn(jnp.asarray(np.where(d, 1 - bg, bg).astype(np.int32))))
        want = np.where(reach_np(d, _seed_bottom(shape)), 1 - bg, bg)
        return bool((got != want).any()), dict(shape=list(shape), background_index=bg, design=d.astype(int), got=got, oracle=want)

    what = "RemoveFloatingMaterial"
    for idx in np.ndindex(*shape):
        o = out[idx]
        is_mat, is_bg = _simp(sc.eq(o, 1 - bg)), _simp(sc.eq(o, bg))
        c.prove(f"{what}:index{list(idx)}", sc.or_(is_mat, is_bg), (), replay, key=f"{what}:output_not_a_material_index")
        c.prove(f"{what}:sound{list(idx)}", z3.Implies(sc.toz(is_mat), sc.toz(full[idx])), (), replay, key=f"{what}:keeps_unconnected")
        c.prove(f"{what}:near{list(idx)}", z3.Implies(sc.toz(near[idx]), sc.toz(is_mat)), (), replay, key=f"{what}:drops_connected_within_n_steps")
    c.prove(f"{what}:complete", _all(z3.Implies(sc.toz(full[idx]), sc.toz(_simp(sc.eq(out[idx], 1 - bg)))) for idx in np.ndindex(*shape)), (), replay,
            key=f"{what}:too_few_sweeps")
    c.witness("some material is dropped", _any(z3.And(m[idx], sc.toz(sc.eq(out[idx], bg))) for idx in np.ndindex(*shape)))
    c.witness("material above the bottom layer is kept", _any(sc.toz(sc.eq(out[idx], 1 - bg)) for idx in np.ndindex(*shape) if idx[2] > 0))
    c.bounds.update(shape=list(shape), background_index=bg)


def _module_connect(c, case):
    shape, bg = tuple(case["shape"]), case["bg"]
    tform = _module(ConnectHolesAndStructures, shape, bg)
    fn = lambda p: tform({"params": p})["params"]
    m = jx.symarr("m", shape, sort="bool")
    c.symvars += m.size
    what = "ConnectHolesAndStructures"

    def to_material(out):
        out = jx.lift(out)
        O = np.empty(shape, dtype=object)
        for idx in np.ndindex(*shape):
            O[idx] = _simp(sc.ne(out[idx], bg))
        to_material.raw = out
        return O

    def run(d):
        return np.asarray(fn(jnp.asarray(np.where(d, 1 - bg, bg).astype(np.int32))))

    O, tr = _feasibility(c, case, what, fn, to_material, lambda m: _idx_input(m, bg), m, lambda d: run(d) != bg, dtypes={0: np.int32})
    raw = to_material.raw
    rng = np.random.default_rng(c.seed + 4)
    d0 = rng.random(shape) < 0.6
    p0 = np.where(d0, 1 - bg, bg).astype(np.int32)
    c.validate(jx.to_numeric(tr(jx.lift(p0))).astype(np.float64), run(d0).astype(np.float64), what)

    def replay_idx(model):
        d = model_array(model, m).astype(bool)
        got = run(d)
        return bool((~np.isin(got, [0, 1])).any()), dict(design=d.astype(int), got=got)

    for idx in np.ndindex(*shape):
        c.prove(f"{what}:index{list(idx)}", sc.or_(sc.eq(raw[idx], 0), sc.eq(raw[idx], 1)), (), replay_idx, key=f"{what}:output_not_a_material_index")
    c.witness("material is added somewhere", _any(z3.And(sc.toz(O[idx]), z3.Not(m[idx])) for idx in np.ndindex(*shape)))
    c.witness("material is removed somewhere", _any(z3.And(z3.Not(sc.toz(O[idx])), m[idx]) for idx in np.ndindex(*shape)))
    c.bounds.update(background_index=bg)


def run_case(c, case):
    c.functions.update(META["functions"])
    kind, shape = case["kind"], tuple(case["shape"])
    if kind == "remove":
        _flood_case(c, case, K_RM, _rm_both, _seed_bottom(shape), invert=False)
    elif kind == "air":
        _flood_case(c, case, K_AIR, bt.compute_air_connection, _seed_sides_top(shape), invert=True)
    elif kind == "connect":
        _connect_case(c, case)
    elif kind == "mod_remove":
        _module_remove(c, case)
    elif kind == "mod_connect":
        _module_connect(c, case)
    else:
        raise Inconclusive(f"unknown case kind {kind}")
