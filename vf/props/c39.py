"""C39 -- material descriptions are normalised and classified consistently (E2: pysym over materials.py).

The real functions of fdtdx/materials.py run concolically on symbolic tensor entries.  Per check the oracle gives the
expected outputs as z3 terms over the inputs (and the condition under which a ValueError is demanded); the solver
decides equality per path, the replay re-runs the un-stubbed code on the model's float / int / complex values.

Stubs (namespace of fdtdx.materials only): ``isinstance`` sees a symbolic real as ``float``, a symbolic int as
``int`` and a symbolic complex pair as ``complex``; ``float``/``complex`` keep symbolic numbers (complex numbers are
pairs of real terms, class ``SymComplex`` below); ``math.isclose`` is its documented formula; ``np.array`` keeps
object arrays, ``np.linalg.det`` of a 3x3 object array is the cofactor expansion, ``np.abs(m).max()`` an if-chain.
"""
from __future__ import annotations

import math
from fractions import Fraction

import numpy as np
import z3

from .. import pysym
from ..core import model_value
from ..pysym import SymBool, SymNum, fresh_int, fresh_real

META = dict(
    functions=["materials._normalize_material_property", "Material.__init__", "materials._is_property_isotropic", "materials._is_property_diagonally_anisotropic",
               "Material.is_all_isotropic / is_all_diagonally_anisotropic / is_isotropic_* / is_diagonally_anisotropic_*", "Material.is_magnetic",
               "Material.is_electrically_conductive", "Material.is_magnetically_conductive", "materials.compute_ordered_material_name_tuples",
               "materials.compute_ordered_names", "materials.compute_ordered_materials", "materials.compute_allowed_permittivities",
               "materials.compute_allowed_permeabilities", "materials.compute_allowed_electric_conductivities", "materials.compute_allowed_magnetic_conductivities",
               "materials._split_complex_property", "materials._resolve_reference_omega", "Material.from_complex_permittivity",
               "Material.from_refractive_index", "Material.from_loss_tangent"],
    assumptions=["reals instead of floats; float constants of the source (eps0, mu0, c, pi, the 1e-9 tolerances) are their exact rational values",
                 "predicates: pinned down as (exactly isotropic / diagonal => True) and (True => off-diagonals exactly 0 and diagonal entries within the relative 1e-9 of math.isclose)",
                 "reference wavelength / frequency / period > 0",
                 "singular-real-part rejection: demanded when det = 0 exactly, allowed only when |det| < 1e-9*max(1, max|entry|^3)"],
    outside="dispersive coefficients (C35/C36), isotropic_property_value, validate_dispersive_divisor_stability; more than 4 materials; float round-off",
    bounds=dict(quick=dict(materials="2..3", tensors="all 9 entries symbolic"), thorough=dict(materials="2..4", tensors="all 9 entries symbolic")),
    timeout_ms=dict(quick=30000, thorough=120000),
)


def cases(tier, seed):
    out = [dict(name="normalize-forms", kind="forms"), dict(name="normalize-malformed", kind="malformed"), dict(name="material-fields", kind="fields"),
           dict(name="predicates", kind="predicates")]
    for k in ([2, 3] if tier == "quick" else [2, 3, 4]):
        out.append(dict(name=f"ordering-k{k}", kind="ordering", k=k))
    for form in ("scalar", "diag", "flat9", "nested"):
        out.append(dict(name=f"complex-{form}", kind="complex", form=form))
    out.append(dict(name="complex-reference", kind="reference"))
    out.append(dict(name="index-and-loss-tangent", kind="derived"))
    return out


# ------------------------------------------------------------------------------------------------ symbolic complex + stubs
class SymComplex:
    """a complex number as a pair of real parts (SymNum or float)."""

    __slots__ = ("real", "imag")

    def __init__(self, re, im=0.0):
        self.real, self.imag = re, im

    @staticmethod
    def of(x):
        if isinstance(x, SymComplex):
            return x
        if isinstance(x, complex):
            return SymComplex(x.real, x.imag)
        return SymComplex(x, 0.0)

    def __add__(self, o):
        o = SymComplex.of(o)
        return SymComplex(self.real + o.real, self.imag + o.imag)

    __radd__ = __add__

    def __neg__(self):
        return SymComplex(-self.real, -self.imag)

    def __sub__(self, o):
        return self + (-SymComplex.of(o))

    def __rsub__(self, o):
        return SymComplex.of(o) + (-self)

    def __mul__(self, o):
        o = SymComplex.of(o)
        return SymComplex(self.real * o.real - self.imag * o.imag, self.real * o.imag + self.imag * o.real)

    __rmul__ = __mul__

    def __pow__(self, n):
        if n != 2:
            raise NotImplementedError
        return self * self


class CNum(SymNum):
    """SymNum that also combines with Python complex numbers (``1j * float(t)`` in from_loss_tangent)."""

    __slots__ = ()

    def _c(self, o, f):
        if isinstance(o, (complex, SymComplex)):
            return f(SymComplex.of(SymNum(self.t)), SymComplex.of(o))
        return None

    def __mul__(self, o):
        r = self._c(o, lambda a, b: a * b)
        return r if r is not None else SymNum.__mul__(self, o)

    __rmul__ = __mul__

    def __add__(self, o):
        r = self._c(o, lambda a, b: a + b)
        return r if r is not None else SymNum.__add__(self, o)

    __radd__ = __add__


def _sfloat(x=0.0):
    if isinstance(x, SymNum):
        return CNum(z3.ToReal(x.t) if x.is_int else x.t)
    return float(x)


def _scomplex(x=0.0, im=None):
    if isinstance(x, SymComplex):
        return x
    if isinstance(x, SymNum):
        return SymComplex(x, 0.0)
    return complex(x) if im is None else complex(x, im)


def _sisinstance(o, t):
    ts = t if isinstance(t, tuple) else (t,)
    ts = tuple(float if x is _sfloat else complex if x is _scomplex else x for x in ts)  # the rebound names still denote the types
    t = ts if isinstance(t, tuple) else ts[0]
    if isinstance(o, SymComplex):
        return any(x is complex for x in ts)
    if isinstance(o, SymNum):
        return any(x is (int if o.is_int else float) or x is object for x in ts)
    if isinstance(o, SymBool):
        return any(x in (bool, int) for x in ts)
    return isinstance(o, t)


def _is_sym(x):
    return isinstance(x, (SymNum, SymBool, SymComplex))


class _MathShim:
    def __getattr__(self, k):
        return getattr(math, k)

    @staticmethod
    def isclose(a, b, rel_tol=1e-9, abs_tol=0.0):
        return pysym.isclose(a, b, rel_tol=rel_tol, abs_tol=abs_tol)


class _AbsArr:
    def __init__(self, vals):
        self.vals = vals

    def max(self):
        r = self.vals[0]
        for v in self.vals[1:]:
            r = pysym.ite(v > r, v, r) if (_is_sym(v) or _is_sym(r)) else max(v, r)
        return r


class _Linalg:
    @staticmethod
    def det(m):
        if isinstance(m, np.ndarray) and m.dtype == object:
            return (m[0, 0] * (m[1, 1] * m[2, 2] - m[1, 2] * m[2, 1]) - m[0, 1] * (m[1, 0] * m[2, 2] - m[1, 2] * m[2, 0])
                    + m[0, 2] * (m[1, 0] * m[2, 1] - m[1, 1] * m[2, 0]))
        return np.linalg.det(m)


class _NpShim:
    linalg = _Linalg()

    def __getattr__(self, k):
        return getattr(np, k)

    @staticmethod
    def array(x, dtype=None, **k):
        if any(_is_sym(v) for v in (x if isinstance(x, (tuple, list)) else [x])):
            a = np.empty(len(x), dtype=object)
            for i, v in enumerate(x):
                a[i] = v
            return a
        return np.array(x, dtype=dtype, **k)

    @staticmethod
    def abs(x):
        if isinstance(x, np.ndarray) and x.dtype == object:
            return _AbsArr([abs(v) for v in x.reshape(-1)])
        return np.abs(x)


class _Stubs:
    def __init__(self):
        import fdtdx.materials as M

        self.M = M
        self.cm = pysym.stub_module(M, float=_sfloat, complex=_scomplex, isinstance=_sisinstance, math=_MathShim(), np=_NpShim())
        self.on = False

    def __enter__(self):
        self.cm.__enter__()
        self.on = True
        return self

    def __exit__(self, *a):
        self.cm.__exit__(*a)
        self.on = False

    def real(self, f):
        was = self.on
        if was:
            self.__exit__()
        try:
            return f()
        finally:
            if was:
                self.__enter__()


# ------------------------------------------------------------------------------------------------ helpers
def zt(x):
    """number -> z3 Real term."""
    if isinstance(x, SymNum):
        return z3.ToReal(x.t) if x.is_int else x.t
    if isinstance(x, z3.ExprRef):
        return z3.ToReal(x) if z3.is_int(x) else x
    if isinstance(x, bool):
        raise TypeError("bool where a number was expected")
    if isinstance(x, (int, np.integer)):
        return z3.RealVal(int(x))
    return z3.RealVal(Fraction(float(x)))


def conc(m, x):
    """symbolic input structure -> concrete python values under model m."""
    if isinstance(x, SymComplex):
        return complex(conc(m, x.real), conc(m, x.imag))
    if isinstance(x, SymNum):
        return model_value(m, x.t)
    if isinstance(x, tuple):
        return tuple(conc(m, v) for v in x)
    if isinstance(x, list):
        return [conc(m, v) for v in x]
    if isinstance(x, dict):
        return {k: conc(m, v) for k, v in x.items()}
    return x


def flat(x):
    """flatten nested tuples / lists of numbers."""
    if isinstance(x, (tuple, list)):
        return [y for v in x for y in flat(v)]
    return [x]


def check(c, st, name, key, inputs, assume, call, expected, raise_cond=None, rel=1e-9, max_paths=4000):
    """call(inputs) -> nested numbers;  expected: list of z3 Real terms (flattened order) or callable(result)->z3 Bool;
    raise_cond: None (never raises) | z3 Bool (ValueError demanded exactly then) | (must, may) pair of z3 Bools."""
    if raise_cond is None:
        must = may = z3.BoolVal(False)
    elif isinstance(raise_cond, tuple):
        must, may = raise_cond
    else:
        must = may = raise_cond

    def fn():
        return call(inputs)

    def post(res, exc):
        if exc is not None:
            return z3.And(z3.BoolVal(isinstance(exc, ValueError)), may)
        if callable(expected):
            return z3.And(z3.Not(must), expected(res))
        got = flat(res)
        if len(got) != len(expected):
            return z3.BoolVal(False)
        return z3.And(z3.Not(must), *[zt(g) == e for g, e in zip(got, expected)])

    def replay(m):
        ci = conc(m, inputs)
        res = exc = None
        try:
            res = st.real(lambda: call(ci))
        except Exception as e:  # noqa: BLE001
            exc = e
        detail = dict(inputs=repr(ci), result=repr(res)[:400], raised=repr(exc) if exc is not None else None)
        ev = lambda t: z3.is_true(m.eval(t, model_completion=True))  # noqa: E731
        if exc is not None:
            return (not isinstance(exc, ValueError)) or not ev(may), dict(detail, expected="no exception" if not ev(may) else "ValueError")
        if ev(must):
            return True, dict(detail, expected="ValueError")
        if callable(expected):
            # structural expectations are re-evaluated on the concrete result by the caller-provided closure
            ok = expected(res, m)
            return (not ok), detail
        got = flat(res)
        if len(got) != len(expected):
            return True, dict(detail, expected_len=len(expected))
        want = [model_value(m, e) for e in expected]
        bad = [(i, float(g), w) for i, (g, w) in enumerate(zip(got, want)) if abs(float(g) - w) > 10 * rel * max(abs(float(g)), abs(w)) + 1e-300]
        return bool(bad), dict(detail, mismatches=bad[:5], want=want[:12])

    return _explore(c, name, fn, post, assume, replay, key, max_paths)


class CachedExplorer(pysym.Explorer):
    """pysym.Explorer that does not ask the solver again about a branch condition already decided on the current path
    (the sorted() calls of the compute_allowed_* family repeat the same comparisons a dozen times)."""

    def branch(self, cond):
        if getattr(self, "_owner", None) is not self.decisions:
            self._owner, self._known = self.decisions, {}
        cond = z3.simplify(cond)
        if z3.is_true(cond):
            return True
        if z3.is_false(cond):
            return False
        k = cond.get_id()
        if k in self._known:
            return self._known[k][1]
        d = super().branch(cond)
        self._known[k] = (cond, d)  # keeps the term alive: ids are only unique among live terms
        if getattr(self, "_owner", None) is not self.decisions:  # (cannot happen: decisions list is per path)
            self._owner, self._known = self.decisions, {}
        return d


def _explore(c, name, fn, post, assume, replay, key, max_paths):
    """Case.sym_explore with the caching explorer."""
    ex = CachedExplorer(assume, max_paths=max_paths, timeout_ms=c.timeout_ms)

    def on_path(res, exc, pc):
        claim = post(res, exc)
        if isinstance(claim, SymBool):
            claim = claim.t
        c.prove(f"{name}#path{ex.paths}", claim, pc, replay, key)

    try:
        ex.explore(fn, on_path)
    except pysym.Budget as b:
        c.inconclusive.append(f"{c.name}/{name}: exploration budget: {b}")
    c.paths += ex.paths
    c.queries += ex.queries
    c.solver_s += ex.solver_s
    if ex.unknown:
        c.notes.append(f"{name}: {ex.unknown} feasibility queries were 'unknown' (both sides explored)")
    return ex


def reals(prefix, n, lo=None, hi=None):
    vs, cons = [], []
    for i in range(n):
        v, cc = fresh_real(f"{prefix}{i}", lo, hi)
        vs.append(v)
        cons += cc
    return vs, cons


def diag9(a, b, c_):
    z = z3.RealVal(0)
    return [a, z, z, z, b, z, z, z, c_]


def run_case(c, case):
    st = _Stubs()
    c.functions.update(META["functions"])
    with st:
        globals()["_case_" + case["kind"]](c, st, st.M, case)


# ------------------------------------------------------------------------------------------------ (1) the four input forms
def _case_forms(c, st, M, case):
    v, _ = reals("v", 9)
    c.symvars += 9
    t = [x.t for x in v]
    norm = M._normalize_material_property
    check(c, st, "scalar -> v*I", "normalize:scalar", dict(v=v[0]), [], lambda i: norm(i["v"]), diag9(t[0], t[0], t[0]))
    check(c, st, "3-tuple -> diagonal", "normalize:3-tuple", dict(v=tuple(v[:3])), [], lambda i: norm(tuple(i["v"])), diag9(t[0], t[1], t[2]))
    check(c, st, "9-tuple -> itself", "normalize:9-tuple", dict(v=tuple(v)), [], lambda i: norm(tuple(i["v"])), t)
    check(c, st, "nested 3x3 -> row major", "normalize:nested", dict(v=tuple(v)), [],
          lambda i: norm((tuple(i["v"][0:3]), tuple(i["v"][3:6]), tuple(i["v"][6:9]))), t)
    # the four descriptions of one isotropic / one diagonal tensor agree with each other
    def same_iso(i):
        s = i["v"]
        return [norm(s), norm((s, s, s)), norm((s, 0.0, 0.0, 0.0, s, 0.0, 0.0, 0.0, s)), norm(((s, 0.0, 0.0), (0.0, s, 0.0), (0.0, 0.0, s)))]

    check(c, st, "isotropic value: all four forms", "normalize:forms-agree", dict(v=v[0]), [], same_iso, diag9(t[0], t[0], t[0]) * 4)

    def same_diag(i):
        a, b, d = i["v"]
        return [norm((a, b, d)), norm((a, 0.0, 0.0, 0.0, b, 0.0, 0.0, 0.0, d)), norm(((a, 0.0, 0.0), (0.0, b, 0.0), (0.0, 0.0, d)))]

    check(c, st, "diagonal tensor: three forms", "normalize:forms-agree", dict(v=tuple(v[:3])), [], same_diag, diag9(t[0], t[1], t[2]) * 3)
    # integer-valued descriptions (Python ints are acceptable floats): same tensors
    k, ck = [], []
    for i in range(9):
        x, cc = fresh_int(f"k{i}", -5, 5)
        k.append(x)
        ck += cc
    c.symvars += 9
    kt = [z3.ToReal(x.t) for x in k]
    check(c, st, "int scalar", "normalize:scalar-int", dict(v=k[0]), ck, lambda i: norm(i["v"]), diag9(kt[0], kt[0], kt[0]))
    check(c, st, "int 9-tuple", "normalize:9-tuple-of-ints", dict(v=tuple(k)), ck, lambda i: norm(tuple(i["v"])), kt)
    check(c, st, "int nested", "normalize:nested-ints", dict(v=tuple(k)), ck, lambda i: norm((tuple(i["v"][0:3]), tuple(i["v"][3:6]), tuple(i["v"][6:9]))), kt)
    check(c, st, "int 3-tuple", "normalize:3-tuple-of-ints", dict(v=tuple(k[:3])), ck, lambda i: norm(tuple(i["v"])), diag9(kt[0], kt[1], kt[2]))
    c.witness("twin: a tensor with a non-zero off-diagonal entry", t[1] != 0, [])


def _case_malformed(c, st, M, case):
    v, _ = reals("v", 9)
    c.symvars += 9
    norm = M._normalize_material_property
    T = z3.BoolVal(True)
    bad = {
        "2-tuple": lambda i: norm(tuple(i["v"][:2])),
        "4-tuple": lambda i: norm(tuple(i["v"][:4])),
        "empty tuple": lambda i: norm(()),
        "10-tuple": lambda i: norm(tuple(i["v"]) + (i["v"][0],)),
        "nested short row": lambda i: norm((tuple(i["v"][0:3]), tuple(i["v"][3:5]), tuple(i["v"][6:9]))),
        "nested long row": lambda i: norm((tuple(i["v"][0:3]), tuple(i["v"][3:7]), tuple(i["v"][6:9]))),
        "rows mixed with scalars": lambda i: norm((tuple(i["v"][0:3]), i["v"][3], i["v"][4])),
    }
    for nm, f in bad.items():
        check(c, st, f"rejected: {nm}", "normalize:malformed", dict(v=tuple(v)), [], f, [], raise_cond=T)
    c.witness("twin", v[0].t > 0, [])


def _case_fields(c, st, M, case):
    """Material(...) stores each normalised description under its own name (no cross-wiring of the four properties)."""
    v, _ = reals("v", 22)
    c.symvars += 22
    t = [x.t for x in v]

    def call(i):
        x = i["v"]
        m = M.Material(permittivity=x[0], permeability=tuple(x[1:4]), electric_conductivity=tuple(x[4:13]),
                       magnetic_conductivity=(tuple(x[13:16]), tuple(x[16:19]), tuple(x[19:22])))
        return [m.permittivity, m.permeability, m.electric_conductivity, m.magnetic_conductivity]

    check(c, st, "Material fields", "Material.__init__:fields", dict(v=tuple(v)), [], call, diag9(t[0], t[0], t[0]) + diag9(t[1], t[2], t[3]) + t[4:13] + t[13:22])
    check(c, st, "Material defaults", "Material.__init__:defaults", dict(v=v[0]), [],
          lambda i: (lambda m: [m.permittivity, m.permeability, m.electric_conductivity, m.magnetic_conductivity])(M.Material(permittivity=i["v"])),
          diag9(t[0], t[0], t[0]) + diag9(*[z3.RealVal(1)] * 3) + [z3.RealVal(0)] * 18)
    c.witness("twin", t[0] != t[1], [])


# ------------------------------------------------------------------------------------------------ (2) predicates
OFF = (1, 2, 3, 5, 6, 7)


def _iso_bounds(p):
    """(must, may) for 'isotropic': exactly v*I => True; True => off-diagonals 0 and diagonal within math.isclose's relative 1e-9."""
    rt = z3.RealVal(Fraction(1e-9))
    ab = lambda x: z3.If(x >= 0, x, -x)  # noqa: E731
    close = lambda a, b: z3.Or(ab(a - b) <= rt * ab(a), ab(a - b) <= rt * ab(b))  # noqa: E731
    offz = z3.And(*[p[i] == 0 for i in OFF])
    return z3.And(offz, p[0] == p[4], p[4] == p[8]), z3.And(offz, close(p[0], p[4]), close(p[4], p[8]))


def _diag_exact(p):
    return z3.And(*[p[i] == 0 for i in OFF])


def _case_predicates(c, st, M, case):
    names = ["permittivity", "permeability", "electric_conductivity", "magnetic_conductivity"]
    T = {}
    assume = []
    for nm in names:
        T[nm], _ = reals({"permittivity": "eps", "permeability": "mu", "electric_conductivity": "sige", "magnetic_conductivity": "sigm"}[nm], 9)
        c.symvars += 9
    tt = {nm: [x.t for x in T[nm]] for nm in names}
    inputs = {nm: tuple(T[nm]) for nm in names}

    def mk(i):
        return M.Material(**{nm: tuple(i[nm]) for nm in names})

    def boolcheck(label, key, getter, must, may, nice=None):
        """the predicate is True whenever ``must`` holds and only when ``may`` holds."""
        def expected(res, m=None):
            if m is not None:  # concrete replay
                ev = lambda f: z3.is_true(m.eval(f, model_completion=True))  # noqa: E731
                return (bool(res) or not ev(must)) and (ev(may) or not bool(res))
            r = res.t if isinstance(res, SymBool) else z3.BoolVal(bool(res))
            return z3.And(z3.Implies(must, r), z3.Implies(r, may))

        check(c, st, label, key, inputs, assume, lambda i: getter(mk(i)), expected)
        if nice is not None:
            # same obligation away from the isclose tolerance edge (diagonals exactly equal): witnesses that survive float replay
            check(c, st, label + " [diagonal entries exactly equal]", key, inputs, assume + nice, lambda i: getter(mk(i)), expected)

    def eqdiag(p, v=None):
        return [p[0] == p[4], p[4] == p[8]] + ([p[0] == v] if v is not None else [])

    for nm, short in zip(names, ["permittivity", "permeability", "electric_conductivity", "magnetic_conductivity"]):
        mu, ma = _iso_bounds(tt[nm])
        boolcheck(f"is_isotropic_{short}", f"predicate:is_isotropic_{short}", lambda m, s=short: getattr(m, f"is_isotropic_{s}"), mu, ma, nice=eqdiag(tt[nm]))
        d = _diag_exact(tt[nm])
        boolcheck(f"is_diagonally_anisotropic_{short}", f"predicate:is_diagonally_anisotropic_{short}", lambda m, s=short: getattr(m, f"is_diagonally_anisotropic_{s}"), d, d)
    pairs = [_iso_bounds(tt[nm]) for nm in names]
    boolcheck("is_all_isotropic", "predicate:is_all_isotropic", lambda m: m.is_all_isotropic, z3.And(*[p[0] for p in pairs]), z3.And(*[p[1] for p in pairs]),
              nice=[e for nm in names for e in eqdiag(tt[nm])])
    dall = z3.And(*[_diag_exact(tt[nm]) for nm in names])
    boolcheck("is_all_diagonally_anisotropic", "predicate:is_all_diagonally_anisotropic", lambda m: m.is_all_diagonally_anisotropic, dall, dall)
    # isotropy implies diagonality (consistency of the two classifiers on one tensor)
    for fn_name in ("_is_property_isotropic", "_is_property_diagonally_anisotropic"):
        p = tt["permittivity"]
        mu, ma = _iso_bounds(p) if "isotropic" in fn_name and "diag" not in fn_name else (_diag_exact(p), _diag_exact(p))

        def expected(res, m=None, mu=mu, ma=ma):
            if m is not None:
                ev = lambda f: z3.is_true(m.eval(f, model_completion=True))  # noqa: E731
                return (bool(res) or not ev(mu)) and (ev(ma) or not bool(res))
            r = res.t if isinstance(res, SymBool) else z3.BoolVal(bool(res))
            return z3.And(z3.Implies(mu, r), z3.Implies(r, ma))

        check(c, st, fn_name, f"predicate:{fn_name}", dict(p=tuple(T["permittivity"])), [], lambda i, f=fn_name: getattr(M, f)(tuple(i["p"])), expected)
        check(c, st, fn_name + " [diagonal entries exactly equal]", f"predicate:{fn_name}", dict(p=tuple(T["permittivity"])), eqdiag(p), lambda i, f=fn_name: getattr(M, f)(tuple(i["p"])), expected)
    # magnetic / conductive: True iff the tensor differs from the identity / from zero (isclose band on the 1.0 entries)
    rt = z3.RealVal(Fraction(1e-9))
    ab = lambda x: z3.If(x >= 0, x, -x)  # noqa: E731
    p = tt["permeability"]
    ident_exact = z3.And(_diag_exact(p), p[0] == 1, p[4] == 1, p[8] == 1)
    ident_loose = z3.And(_diag_exact(p), *[z3.Or(ab(p[i] - 1) <= rt * ab(p[i]), ab(p[i] - 1) <= rt) for i in (0, 4, 8)])
    boolcheck("is_magnetic", "predicate:is_magnetic", lambda m: m.is_magnetic, z3.Not(ident_loose), z3.Not(ident_exact), nice=eqdiag(p, 1))
    for nm, prop in (("electric_conductivity", "is_electrically_conductive"), ("magnetic_conductivity", "is_magnetically_conductive")):
        zero = z3.And(*[x == 0 for x in tt[nm]])
        boolcheck(prop, f"predicate:{prop}", lambda m, q=prop: getattr(m, q), z3.Not(zero), z3.Not(zero))
    c.witness("twin: isotropic permittivity with anisotropic permeability", z3.And(_iso_bounds(tt["permittivity"])[0], z3.Not(_diag_exact(tt["permeability"]))), [z3.BoolVal(True)])


# ------------------------------------------------------------------------------------------------ (3) one common order
def _case_ordering(c, st, M, case):
    k = case["k"]
    names = [f"m{j}" for j in range(k)]
    props = ["permittivity", "permeability", "electric_conductivity", "magnetic_conductivity"]
    vals, assume = {}, []
    for nm in names:
        vals[nm] = {}
        for p in props:
            vs, cv = reals(f"{nm}_{props.index(p)}_", 3, *((0, None) if p == "permittivity" else ()))
            assume += [x.t > 0 for x in vs] if p == "permittivity" else []  # xx, yy, zz symbolic; one off-diagonal fixed non-zero for the conductivities
            vals[nm][p] = vs
            c.symvars += 3

    def tensor(vs, p):
        off = 0.25 if p.endswith("conductivity") else 0.0
        return (vs[0], off, 0.0, 0.0, vs[1], 0.0, 0.0, 0.0, vs[2])

    def build(i):
        # dictionary order differs from any sorted order on purpose
        return {nm: M.Material(**{p: tensor(i[nm][p], p) for p in props}) for nm in reversed(names)}

    fns = dict(perm=M.compute_allowed_permittivities, mu=M.compute_allowed_permeabilities, sige=M.compute_allowed_electric_conductivities,
               sigm=M.compute_allowed_magnetic_conductivities)
    attr = dict(perm="permittivity", mu="permeability", sige="electric_conductivity", sigm="magnetic_conductivity")

    def call(i):
        mats = build(i)
        out = dict(names=M.compute_ordered_names(mats), tuples=M.compute_ordered_material_name_tuples(mats), materials=M.compute_ordered_materials(mats), mats=mats)
        for key, f in fns.items():
            out[key] = dict(full=f(mats), iso=f(mats, isotropic=True), diag=f(mats, diagonally_anisotropic=True))
        return out

    def structure(res, num, key_of):
        """conjuncts: names is a permutation sorted ascending by the documented priority key; every list follows it.
        num(x) -> comparable scalar; key_of(name) -> 4 scalars."""
        order = list(res["names"])
        cl = [sorted(order) == sorted(names)]
        if sorted(order) != sorted(names):
            return cl
        cl.append([n for n, _ in res["tuples"]] == order)
        cl.append(all(res["tuples"][j][1] is res["mats"][order[j]] and res["materials"][j] is res["mats"][order[j]] for j in range(k)))
        for key in fns:
            a = attr[key]
            for j, nm in enumerate(order):
                full = getattr(res["mats"][nm], a)
                cl.append(len(res[key]["full"]) == k and len(res[key]["iso"]) == k and len(res[key]["diag"]) == k)
                if not cl[-1]:
                    return cl
                cl.append(tuple(res[key]["full"][j]) is not None and len(res[key]["full"][j]) == 9 and len(res[key]["iso"][j]) == 1 and len(res[key]["diag"][j]) == 3)
                if not cl[-1]:
                    return cl
                cl += [num(x, y) for x, y in zip(res[key]["full"][j], full)]
                cl += [num(res[key]["iso"][j][0], full[0])]
                cl += [num(x, y) for x, y in zip(res[key]["diag"][j], (full[0], full[4], full[8]))]
        return cl

    def lex_le(a, b):
        """z3: 4-tuples a <= b lexicographically."""
        r = z3.BoolVal(True)
        for x, y in reversed(list(zip(a, b))):
            r = z3.Or(x < y, z3.And(x == y, r))
        return r

    def expected(res, m=None):
        if m is None:
            cl = structure(res, lambda x, y: zt(x) == zt(y), None)
            order = list(res["names"])
            if sorted(order) == sorted(names):
                keys = [[zt(vals[nm][p][0]) for p in props] for nm in order]
                cl += [lex_le(keys[j], keys[j + 1]) for j in range(k - 1)]
            return z3.And(*[z3.BoolVal(bool(x)) if isinstance(x, (bool, np.bool_)) else x for x in cl])
        cl = structure(res, lambda x, y: float(x) == float(y), None)
        order = list(res["names"])
        ok = all(bool(x) for x in cl)
        if ok:
            keys = [tuple(float(getattr(res["mats"][nm], p)[0]) for p in props) for nm in order]
            ok = all(keys[j] <= keys[j + 1] for j in range(k - 1))
        return ok

    check(c, st, f"ordering of {k} materials", "ordering:common-order", vals, assume, call, expected, max_paths=20000)
    c.witness("twin: equal permittivity, order decided by permeability", z3.And(vals["m0"]["permittivity"][0].t == vals["m1"]["permittivity"][0].t,
                                                                                  vals["m0"]["permeability"][0].t > vals["m1"]["permeability"][0].t), [])


# ------------------------------------------------------------------------------------------------ (4) complex permittivity
EPS0, MU0, CC = None, None, None


def _consts():
    from fdtdx import constants

    return z3.RealVal(Fraction(constants.eps0)), z3.RealVal(Fraction(constants.mu0)), z3.RealVal(Fraction(constants.c)), z3.RealVal(Fraction(2.0 * math.pi))


def _cvars(prefix, n):
    out = []
    for i in range(n):
        out.append(SymComplex(fresh_real(f"{prefix}re{i}")[0], fresh_real(f"{prefix}im{i}")[0]))
    return out


def _shape(form, z):
    """arrange up to 9 complex numbers in the requested input form; returns (python value, list of 9 (re, im) term pairs)."""
    zero = (z3.RealVal(0), z3.RealVal(0))
    pr = lambda q: (zt(q.real), zt(q.imag))  # noqa: E731
    if form == "scalar":
        return z[0], [pr(z[0]), zero, zero, zero, pr(z[0]), zero, zero, zero, pr(z[0])]
    if form == "diag":
        return tuple(z[:3]), [pr(z[0]), zero, zero, zero, pr(z[1]), zero, zero, zero, pr(z[2])]
    if form == "flat9":
        return tuple(z[:9]), [pr(q) for q in z[:9]]
    return (tuple(z[0:3]), tuple(z[3:6]), tuple(z[6:9])), [pr(q) for q in z[:9]]


def _det3(p):
    return (p[0] * p[4] * p[8] + p[1] * p[5] * p[6] + p[2] * p[3] * p[7] - p[2] * p[4] * p[6] - p[1] * p[3] * p[8] - p[0] * p[5] * p[7])


def _singular(re9):
    """(must, may) for the singular-real-part ValueError."""
    d = _det3(re9)
    ab = lambda x: z3.If(x >= 0, x, -x)  # noqa: E731
    mx = ab(re9[0])
    for x in re9[1:]:
        mx = z3.If(ab(x) > mx, ab(x), mx)
    cube = z3.If(mx > 1, mx * mx * mx, z3.RealVal(1))
    return d == 0, ab(d) < z3.RealVal(Fraction(1e-9)) * cube


def _mat_out(m):
    return [m.permittivity, m.permeability, m.electric_conductivity, m.magnetic_conductivity]


def _case_complex(c, st, M, case):
    form = case["form"]
    e0, m0, cc, twopi = _consts()
    n = dict(scalar=1, diag=3, flat9=9, nested=9)[form]
    # full tensors: the diagonal and two off-diagonal entries are symbolic complex numbers, the rest fixed (keeps the cubic determinant small)
    ze = _cvars("e", n if n < 9 else 5)
    zm = _cvars("u", 1)
    if n == 9:
        fixed = [SymComplex(0.0, 0.0)] * 9
        ze = [ze[0], ze[3], SymComplex(0.0, 0.125), ze[4], ze[1], SymComplex(0.0, 0.0), SymComplex(0.25, 0.0), SymComplex(0.0, 0.0), ze[2]]
        del fixed
    f, cf = fresh_real("freq", 0, None, lo_strict=True)
    c.symvars += 2 * (min(n, 5) + 1) + 1
    epsv, eps9 = _shape(form, ze)
    muv, mu9 = _shape("scalar", zm)
    omega = twopi * f.t
    inputs = dict(eps=epsv, mu=muv, f=f)

    def call(i):
        return _mat_out(M.Material.from_complex_permittivity(i["eps"], frequency=i["f"], permeability=i["mu"]))

    want = [r for r, _ in eps9] + [r for r, _ in mu9] + [omega * e0 * im for _, im in eps9] + [omega * m0 * im for _, im in mu9]
    se, sm = _singular([r for r, _ in eps9]), _singular([r for r, _ in mu9])
    rc = (z3.Or(se[0], sm[0]), z3.Or(se[1], sm[1]))
    check(c, st, f"from_complex_permittivity[{form}]", f"from_complex_permittivity:{form}", inputs, cf, call, want, raise_cond=rc)
    # "reproduces that permittivity at its reference frequency": eps' + i*sigma/(omega*eps0) is the input, entry by entry

    def reproduced(res, m=None):
        if m is not None:
            got = flat(res)
            return all(abs(float(got[j]) + 1j * float(got[18 + j]) / (2 * math.pi * model_value(m, f.t) * 8.8541878128e-12)
                           - complex(model_value(m, eps9[j][0]), model_value(m, eps9[j][1]))) <= 1e-6 * (1 + abs(model_value(m, eps9[j][0])) + abs(model_value(m, eps9[j][1]))) for j in range(9))
        got = flat(res)
        return z3.And(*[z3.And(zt(got[j]) == eps9[j][0], zt(got[18 + j]) / (omega * e0) == eps9[j][1]) for j in range(9)])

    check(c, st, f"eps' + i sigma/(omega eps0) == eps [{form}]", f"from_complex_permittivity:reproduces:{form}", inputs, cf, call, reproduced, raise_cond=rc)
    c.witness("twin: lossy and not singular", z3.And(eps9[0][1] > 0, z3.Not(rc[1])), cf)
    c.witness("twin: singular real part", rc[0], cf)


def _case_reference(c, st, M, case):
    """exactly one of reference / wavelength / frequency; omega = 2 pi f = 2 pi c / lambda = 2 pi / T."""
    from fdtdx.core.wavelength import WaveCharacter

    e0, m0, cc, twopi = _consts()
    z = _cvars("e", 1)[0]
    x, cx = fresh_real("x", 0, None, lo_strict=True)
    c.symvars += 3
    re, im = zt(z.real), zt(z.imag)
    notsing = [re != 0]
    kinds = {
        "frequency": (lambda i: dict(frequency=i["x"]), twopi * x.t),
        "wavelength": (lambda i: dict(wavelength=i["x"]), twopi * cc / x.t),
        "reference(frequency)": (lambda i: dict(reference=WaveCharacter(frequency=i["x"])), twopi * x.t),
        "reference(wavelength)": (lambda i: dict(reference=WaveCharacter(wavelength=i["x"])), twopi * cc / x.t),
        "reference(period)": (lambda i: dict(reference=WaveCharacter(period=i["x"])), twopi / x.t),
    }
    for nm, (kw, om) in kinds.items():
        check(c, st, f"omega from {nm}", f"from_complex_permittivity:omega:{nm.split('(')[0]}", dict(z=z, x=x), cx + notsing,
              lambda i, kw=kw: _mat_out(M.Material.from_complex_permittivity(i["z"], **kw(i)))[2], diag9(*[om * e0 * im] * 3),
              raise_cond=(z3.BoolVal(False), z3.Or(re * re * re < z3.RealVal(Fraction(1e-9)), -(re * re * re) < z3.RealVal(Fraction(1e-9)))), rel=1e-8)
    T = z3.BoolVal(True)
    for nm, kw in {"none": {}, "two": dict(frequency=1e14, wavelength=1e-6), "three": dict(frequency=1e14, wavelength=1e-6, reference=WaveCharacter(period=1e-14))}.items():
        check(c, st, f"rejected: {nm} references", "from_complex_permittivity:reference-count", dict(z=z), [], lambda i, kw=kw: M.Material.from_complex_permittivity(i["z"], **kw), [], raise_cond=T)
    c.witness("twin", z3.And(im > 0, re > 1), cx)


def _case_derived(c, st, M, case):
    e0, m0, cc, twopi = _consts()
    z = _cvars("n", 3)
    f, cf = fresh_real("freq", 0, None, lo_strict=True)
    c.symvars += 7
    omega = twopi * f.t

    def eps_of(q):
        n_, k_ = zt(q.real), zt(q.imag)
        return n_ * n_ - k_ * k_, 2 * n_ * k_

    sing = lambda res: (z3.BoolVal(False), _singular(res)[1])  # noqa: E731
    e1 = eps_of(z[0])
    check(c, st, "from_refractive_index[scalar]", "from_refractive_index:scalar", dict(n=z[0], f=f), cf,
          lambda i: _mat_out(M.Material.from_refractive_index(i["n"], frequency=i["f"])),
          diag9(*[e1[0]] * 3) + diag9(*[z3.RealVal(1)] * 3) + diag9(*[omega * e0 * e1[1]] * 3) + [z3.RealVal(0)] * 9,
          raise_cond=(_singular(diag9(*[e1[0]] * 3))[0], _singular(diag9(*[e1[0]] * 3))[1]))
    e3 = [eps_of(q) for q in z]
    re9 = diag9(*[e[0] for e in e3])
    check(c, st, "from_refractive_index[3-tuple]", "from_refractive_index:3-tuple", dict(n=tuple(z), f=f), cf,
          lambda i: _mat_out(M.Material.from_refractive_index(tuple(i["n"]), frequency=i["f"])),
          re9 + diag9(*[z3.RealVal(1)] * 3) + diag9(*[omega * e0 * e[1] for e in e3]) + [z3.RealVal(0)] * 9, raise_cond=_singular(re9))
    check(c, st, "from_refractive_index rejects full tensors", "from_refractive_index:rejects-tensor", dict(n=tuple(z), f=f), cf,
          lambda i: M.Material.from_refractive_index((tuple(i["n"]),) * 3, frequency=i["f"]), [], raise_cond=z3.BoolVal(True))
    # loss tangent: eps'' = eps' * tan(delta)
    ev, _ = reals("eps", 3)
    tv, _ = reals("tand", 3)
    c.symvars += 6
    et, tt = [x.t for x in ev], [x.t for x in tv]
    check(c, st, "from_loss_tangent[scalar]", "from_loss_tangent:scalar", dict(e=ev[0], t=tv[0], f=f), cf,
          lambda i: _mat_out(M.Material.from_loss_tangent(i["e"], i["t"], frequency=i["f"])),
          diag9(*[et[0]] * 3) + diag9(*[z3.RealVal(1)] * 3) + diag9(*[omega * e0 * et[0] * tt[0]] * 3) + [z3.RealVal(0)] * 9,
          raise_cond=_singular(diag9(*[et[0]] * 3)))
    re9 = diag9(*et)
    check(c, st, "from_loss_tangent[3-tuple, 3-tuple]", "from_loss_tangent:3-tuple", dict(e=tuple(ev), t=tuple(tv), f=f), cf,
          lambda i: _mat_out(M.Material.from_loss_tangent(tuple(i["e"]), tuple(i["t"]), frequency=i["f"])),
          re9 + diag9(*[z3.RealVal(1)] * 3) + diag9(*[omega * e0 * a * b for a, b in zip(et, tt)]) + [z3.RealVal(0)] * 9, raise_cond=_singular(re9))
    check(c, st, "from_loss_tangent[3-tuple, scalar]", "from_loss_tangent:broadcast", dict(e=tuple(ev), t=tv[0], f=f), cf,
          lambda i: _mat_out(M.Material.from_loss_tangent(tuple(i["e"]), i["t"], frequency=i["f"])),
          re9 + diag9(*[z3.RealVal(1)] * 3) + diag9(*[omega * e0 * a * tt[0] for a in et]) + [z3.RealVal(0)] * 9, raise_cond=_singular(re9))
    c.witness("twin: lossy index", z3.And(zt(z[0].real) > 1, zt(z[0].imag) > 0), cf)
