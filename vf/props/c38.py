"""C38 -- equivalent grid descriptions give identical simulations (E1).

The same scene is placed under ``UniformGrid(s)``, an explicit ``RectilinearGrid`` with equal spacings s and
``QuasiUniformGrid(dx=dy=dz=s)``; T forward steps with detector recording are interpreted from the same symbolic
initial fields and compared (round-off tolerance mode: the three placements derive their constants differently).
"""
from __future__ import annotations

import time

import jax
import jax.numpy as jnp
import numpy as np
import z3

import fdtdx
from fdtdx.config import SimulationConfig
from fdtdx.core.grid import QuasiUniformGrid, RectilinearGrid, UniformGrid
from fdtdx.fdtd.forward import forward

from .. import jx2smt as jx
from .. import sc
from ..core import Inconclusive, model_array
from ..scenes import FACES, SPACING, box_detector, dipole, plane_source
from . import _run

META = dict(
    functions=["fdtd.initialization.place_objects/_resolve_grid_from_volume", "core.grid.UniformGrid/QuasiUniformGrid/RectilinearGrid", "core.physics.curl._metric_scale",
               "fdtd.forward.forward", "Detector.update (field, energy, Poynting, phasor)"],
    assumptions=["QuasiUniformGrid requires even cell counts: all shapes are even", "reals for floats; comparison up to 1e-9 relative with inputs boxed to [-1,1] (placement constants are folded differently per grid description)",
                 "quantified: initial E, H"],
    outside="T and shapes beyond the bound",
    bounds=dict(quick=dict(T=3), thorough=dict(T=5)),
)

_SC = {
    "pml-z": dict(shape=(2, 4, 6), bounds={"min_z": "pml", "max_z": "pml"}, src=("dipole", "plane")),
    "pec-pmc-periodic": dict(shape=(4, 2, 4), bounds={"min_x": "pec", "max_x": "pec", "min_y": "pmc", "max_y": "pmc", "min_z": "periodic", "max_z": "periodic"}, src=("dipole", "mdipole")),
    "bloch": dict(shape=(2, 2, 4), bounds="bloch", src=("dipole",), bloch=(1.5e6, 0.0, -0.8e6)),
    "pml-all": dict(shape=(4, 4, 4), bounds="pml", src=("dipole",), thickness=1),
    # a non-default grid centre: every object is pinned by absolute real coordinates, so the three descriptions must agree
    # on where the resolved edges lie, not only on the cell widths
    # a spacing that is not a multiple of 1e-14 m (grids cache a rounded scalar spacing): every description must derive the
    # same spacing and the same CFL time step from it (seeded change C38b)
    "nonround-spacing": dict(shape=(4, 2, 4), bounds={"min_x": "pec", "max_x": "pec", "min_y": "pmc", "max_y": "pmc", "min_z": "periodic", "max_z": "periodic"},
                             src=("dipole", "mdipole"), spacing=1.55e-6 / 36),
    "offcentre-realcoords": dict(shape=(4, 2, 4), bounds={"min_x": "pec", "max_x": "pec", "min_y": "pmc", "max_y": "pmc", "min_z": "periodic", "max_z": "periodic"},
                                 src=("dipole", "mdipole"), centre=(2.0, -3.0, 3.0)),
}


def cases(tier, seed):
    T = 3 if tier == "quick" else 5
    names = ["pml-z", "pec-pmc-periodic", "offcentre-realcoords", "nonround-spacing"] if tier == "quick" else list(_SC)
    return [dict(name=n, T=T) for n in names]


def _place(spec, T, kind):
    shape = spec["shape"]
    SP = spec.get("spacing", SPACING)
    centre = spec.get("centre")
    if centre is not None:
        cen = tuple(float(v) * SP for v in centre)
        lower = [cen[a] - shape[a] * SP / 2 for a in range(3)]   # where the resolved edges of a centred policy start
        if kind == "uniform":
            grid = UniformGrid(spacing=SP, center=cen)
        elif kind == "quasi":
            grid = QuasiUniformGrid(dx=SP, dy=SP, dz=SP, center=cen)
        else:
            ed = [jnp.asarray(lower[a] + np.arange(shape[a] + 1, dtype=np.float64) * SP) for a in range(3)]
            grid = RectilinearGrid(x_edges=ed[0], y_edges=ed[1], z_edges=ed[2])
    elif kind == "uniform":
        grid = UniformGrid(spacing=SP)
    elif kind == "quasi":
        grid = QuasiUniformGrid(dx=SP, dy=SP, dz=SP)
    else:
        ed = [jnp.asarray(np.arange(n + 1, dtype=np.float64) * SP) for n in shape]
        grid = RectilinearGrid(x_edges=ed[0], y_edges=ed[1], z_edges=ed[2])
    b = spec["bounds"]
    btypes = {f: b for f in FACES} if isinstance(b, str) else {f: b.get(f, "periodic") for f in FACES}
    volume = fdtdx.SimulationVolume(partial_grid_shape=tuple(shape))
    dt = SimulationConfig(time=1e-15, grid=UniformGrid(spacing=SP), backend="cpu", dtype=jnp.float64).time_step_duration
    cfg = SimulationConfig(time=dt * (T + 0.01), grid=grid, backend="cpu", dtype=jnp.float64)
    bcfg = fdtdx.BoundaryConfig.from_uniform_bound(thickness=spec.get("thickness", 2), override_types=btypes, bloch_vector=spec.get("bloch", (0.0, 0.0, 0.0)))
    bdict, bcons = fdtdx.boundary_objects_from_config(bcfg, volume)
    objs, cons = [volume] + list(bdict.values()), list(bcons)
    for o, cs in _run.sources(shape, T, spec["src"]) + _run.detectors(shape, T):
        objs.append(o)
        # the uniform policies resolve to edges centred on 0, the explicit grid here starts at 0: use index placement
        # where it is allowed and the equivalent edge coordinate on the explicit grid
        for cc in cs:
            if centre is not None:
                # absolute coordinates for all three descriptions (0.25 cell inside the target edge's snapping basin is not needed: exact edges)
                from fdtdx.objects.object import RealCoordinateConstraint
                cons.append(RealCoordinateConstraint(object=o.name, axes=cc.axes, sides=("-",) * len(cc.axes), coordinates=tuple(lower[a] + i * SP for a, i in zip(cc.axes, cc.idx))))
            elif kind == "rect":
                from fdtdx.objects.object import RealCoordinateConstraint
                cons.append(RealCoordinateConstraint(object=o.name, axes=cc.axes, sides=("-",) * len(cc.axes), coordinates=tuple(i * SP for i in cc.idx)))
            else:
                cons.append(cc.resolve(None))
    key = jax.random.PRNGKey(0)
    oc, arr, params, cfg, info = fdtdx.place_objects(object_list=objs, config=cfg, constraints=cons, key=key)
    arr, oc, _ = fdtdx.apply_params(arr, oc, params, key)
    return dict(objects=oc, arrays=arr, config=cfg, key=key)


def run_case(c, case):
    spec = _SC[case["name"]]
    T = case["T"]
    c.functions.update(META["functions"])
    c.bounds.update(T=T, shape=list(spec["shape"]))
    scenes, failed = {}, {}
    for k in ("uniform", "rect", "quasi"):
        try:
            scenes[k] = _place(spec, T, k)
        except Exception as ex:  # noqa: BLE001
            failed[k] = f"{type(ex).__name__}: {str(ex)[:300]}"
    if failed and scenes:
        # the same scene places under one description and not under an equivalent one: the descriptions are not equivalent
        c.fail_concrete("placement succeeds under some grid descriptions and fails under equivalent ones",
                        dict(failed=failed, placed=sorted(scenes), scene=case["name"]), key=f"grid-equivalence:placement:{'+'.join(sorted(failed))}")
        return
    if failed:
        raise Inconclusive(f"scene cannot be placed under any description: {failed}")
    for k, S in scenes.items():
        if S["config"].time_steps_total != T:
            raise Inconclusive(f"{k}: {S['config'].time_steps_total} steps instead of {T}")
    # derived scalars every description must agree on: the CFL time step and the (cached) uniform spacing of the resolved grid
    ref = scenes["uniform"]["config"]
    for k, S in scenes.items():
        cf = S["config"]
        rel_dt = abs(cf.time_step_duration - ref.time_step_duration) / ref.time_step_duration
        sp_k, sp_r = getattr(cf.grid, "uniform_spacing", None), getattr(ref.grid, "uniform_spacing", None)
        rel_sp = 0.0 if sp_k is None or sp_r is None else abs(float(sp_k) - float(sp_r)) / float(sp_r)
        if rel_dt > 1e-12 or rel_sp > 1e-12:
            c.fail_concrete(f"grid description '{k}' derives a different time step / uniform spacing than 'uniform' for the same cells",
                            dict(scene=case["name"], description=k, time_step=cf.time_step_duration, time_step_uniform=ref.time_step_duration, rel_dt=rel_dt,
                                 uniform_spacing=None if sp_k is None else float(sp_k), uniform_spacing_uniform=None if sp_r is None else float(sp_r)),
                            key=f"grid-equivalence:time-step:{k}")
        else:
            c.prove(f"'{k}' derives the same time step and uniform spacing as 'uniform'", True)
    cplx = np.iscomplexobj(np.asarray(scenes["uniform"]["arrays"].fields.E))
    fsh = scenes["uniform"]["arrays"].fields.E.shape
    E, H = jx.symarr("E", fsh, cplx=cplx), jx.symarr("H", fsh, cplx=cplx)
    c.symvars += (E.size + H.size) * (2 if cplx else 1)

    def mk(S):
        arr, oc, cfg, key = S["arrays"], S["objects"], S["config"], S["key"]

        def run(E, H):
            st = (jnp.asarray(0, dtype=jnp.int32), arr.aset("fields->E", E).aset("fields->H", H))
            for _ in range(T):
                st = forward(st, cfg, oc, key, True, False, True)
            return st[1].fields.E, st[1].fields.H, st[1].detector_states
        return run

    runs = {k: mk(S) for k, S in scenes.items()}
    outs = {}
    t0 = time.time()
    for k, r in runs.items():
        outs[k], tr = jx.call(r, E, H)
        if k == "uniform":
            tr_u = tr
    c.interp_s += time.time() - t0
    jits = {k: jax.jit(r) for k, r in runs.items()}
    rng = np.random.default_rng(c.seed)
    mkc = lambda: rng.normal(size=fsh) + (1j * rng.normal(size=fsh) if cplx else 0)
    ce, ch = mkc(), mkc()
    want = jits["uniform"](jnp.asarray(ce), jnp.asarray(ch))
    got = tr_u(jx.lift(ce), jx.lift(ch))
    c.validate(jx.to_numeric(got[0]), np.asarray(want[0]), "uniform-grid run final E")
    ref_leaves = jax.tree_util.tree_leaves(want)

    for other in ("rect", "quasi"):
        def replay(m, other=other):
            e, h = model_array(m, E), model_array(m, H)
            a, b = jits["uniform"](jnp.asarray(e), jnp.asarray(h)), jits[other](jnp.asarray(e), jnp.asarray(h))
            worst = 0.0
            for x, y in zip(jax.tree_util.tree_leaves(a), jax.tree_util.tree_leaves(b)):
                x, y = np.asarray(x), np.asarray(y)
                if x.size:
                    worst = max(worst, float(np.max(np.abs(x - y))) / (1e-300 + float(np.max(np.abs(x)))))
            return worst > 1e-7, dict(worst_rel_diff=worst, grid=other)
        la = jax.tree_util.tree_leaves(outs["uniform"], is_leaf=jx.is_obj)
        lb = jax.tree_util.tree_leaves(outs[other], is_leaf=jx.is_obj)
        for i, (x, y, w) in enumerate(zip(la, lb, ref_leaves)):
            mag = float(np.max(np.abs(np.asarray(w)))) if np.asarray(w).size else 1.0
            c.prove_eq(f"uniform vs {other}: output leaf {i}", x, y, [], replay, key=f"grid-equivalence:{other}", roundoff=1e-9, scale=max(mag, 1e-300))
    e = [v for v in jx.lift(outs["uniform"][0]).reshape(-1) if sc.is_symbolic_scalar(v)]
    c.witness("final field depends on the initial state", sc.ne(sc.real(e[0]), 0), [])
