"""C29 -- sources/detectors see the device materials after ``apply_params`` (E2 + E1).

Three families of cases.

* ``predicate-*`` (E2): ``SimulationObject.check_overlap`` (the predicate ``apply_params`` / ``place_objects`` use to decide
  which objects are set up again after the devices were written) is executed concolically with all twelve slice bounds
  of the device (``self``) and the other object (``other``) as unbounded symbolic integers.  The per-axis relation of
  the two half-open intervals is enumerated (4 intersecting relations per axis, 64 triples); inside a relation class
  the bounds are solver-quantified.  Oracle (written from the statement): regions that share at least one cell must be
  reported, i.e. ``intersect => check_overlap``.
* ``scene-*`` (E2, bounds in [0, N]): same obligation, but a witness is replayed through the *real*
  ``place_objects`` + ``apply_params`` on an N^3 grid with a continuous ``Device`` on the first box and a dipole source on
  the second box, and the source state is compared with the post-device arrays.
* ``loop-*`` (E1): for one z3-chosen representative box pair of a relation class, ``apply_params`` is traced and interpreted
  with the device's latent parameters symbolic; the source's stored local inverse permittivity / permeability must
  equal the slice of the returned (post-device) arrays for every parameter value.
"""
from __future__ import annotations

import itertools
import time

import numpy as np
import z3

from .. import pysym
from ..core import Inconclusive, model_value
from ..pysym import fresh_int

META = dict(
    functions=["objects.object.SimulationObject.check_overlap", "fdtd.initialization.apply_params (object re-application loop)",
               "fdtd.initialization.place_objects (step 11: objects not overlapping a device are applied)",
               "objects.sources.dipole.PointDipoleSource.apply"],
    assumptions=["placed objects: 0 <= start < stop on every axis (place_on_grid enforces it)",
                 "regions are the half-open index boxes [start, stop); 'intersect' = at least one common cell",
                 "loop-* cases: continuous Device without parameter transforms, two isotropic non-dispersive materials, latent parameters in [0, 1]"],
    outside="objects whose state needs the eigenmode solver (ModePlaneSource, ModeOverlapDetector); plane/TFSF sources (only the dipole's "
            "material-dependent state is compared); detectors other than mode detectors carry no material-dependent state (base apply is the "
            "identity), so the clause is vacuous for them; dispersive devices; the converse (no spurious re-application) is not demanded by the statement",
    bounds=dict(quick=dict(predicate="12 unbounded Int slice bounds, all 64 intersecting relation triples", scene_grid=5, loop_classes=10),
                thorough=dict(predicate="12 unbounded Int slice bounds, all 64 intersecting relation triples", scene_grid=6, loop_classes=70)),
    timeout_ms=dict(quick=30000, thorough=60000),
)

RELS = ("in", "contains", "left", "right")
# relation of the device interval [s0, s1) to the other object's interval [o0, o1) on one axis; the four classes partition
# all intersecting pairs:  in = device inside object, contains = object strictly inside device, left / right = partial.
NONINT = ("below", "touch_below", "above")


def rel_formula(rel, s0, s1, o0, o1):
    if rel == "in":
        return z3.And(o0 <= s0, s1 <= o1)
    if rel == "contains":
        return z3.And(s0 < o0, o1 < s1)
    if rel == "left":
        return z3.And(s0 < o0, o0 < s1, s1 <= o1)
    if rel == "right":
        return z3.And(o0 <= s0, s0 < o1, o1 < s1)
    if rel == "below":  # device strictly below the object with a gap
        return s1 < o0
    if rel == "touch_below":  # device ends where the object starts: no common cell
        return s1 == o0
    if rel == "above":
        return o1 < s0
    raise ValueError(rel)


def intersect_formula(S, O):
    return z3.And(*[z3.And(S[a][0] < O[a][1], O[a][0] < S[a][1]) for a in range(3)])


def intersect_concrete(S, O):
    """independent concrete oracle: enumerate cells of the smaller description -- two boxes share a cell."""
    return all(max(S[a][0], O[a][0]) < min(S[a][1], O[a][1]) for a in range(3))


TRIPLES = list(itertools.product(RELS, repeat=3))

_LOOP_QUICK = [("contains", "contains", "contains"), ("in", "in", "in"), ("left", "right", "in"), ("contains", "in", "contains"),
               ("contains", "contains", "left"), ("right", "contains", "contains"), ("in", "contains", "right"), ("left", "left", "left"),
               ("below", "in", "in"), ("contains", "touch_below", "contains")]


def cases(tier, seed):
    out = []
    for g in range(4):
        out.append(dict(name=f"predicate-{g}", kind="predicate", triples=[list(t) for i, t in enumerate(TRIPLES) if i % 4 == g], N=None))
    N = 5 if tier == "quick" else 6
    for g in range(4):
        out.append(dict(name=f"scene-{g}", kind="predicate", triples=[list(t) for i, t in enumerate(TRIPLES) if i % 4 == g], N=N))
    loops = list(_LOOP_QUICK)
    if tier != "quick":
        loops += [t for t in TRIPLES if t not in loops]
        loops += [("above", "contains", "contains"), ("in", "in", "above"), ("left", "below", "right"), ("touch_below", "touch_below", "touch_below")]
    per = 3 if tier == "quick" else 8
    for g in range(0, len(loops), per):
        out.append(dict(name=f"loop-{g // per}", kind="loop", triples=[list(t) for t in loops[g:g + per]], N=N))
    # dispersive device: the source must also be set up against the post-device dispersive coefficients (seeded change C29b)
    dl = [("contains", "contains", "contains"), ("left", "in", "right")] + ([("in", "in", "in"), ("right", "contains", "left")] if tier != "quick" else [])
    out.append(dict(name="loop-dispersive", kind="loop_disp", triples=[list(t) for t in dl], N=N))
    return out


# ------------------------------------------------------------------------------------------------------ helpers
def _sym_boxes(N):
    S, O, assume = [], [], []
    for nm, B in (("s", S), ("o", O)):
        for a in range(3):
            lo, c1 = fresh_int(f"{nm}{a}_start", 0, N)
            hi, c2 = fresh_int(f"{nm}{a}_stop", 0, N)
            assume += c1 + c2 + [lo.t < hi.t]
            B.append((lo, hi))
    return tuple(S), tuple(O), assume


def _terms(B):
    return [(lo.t, hi.t) for lo, hi in B]


def _model_boxes(m, S, O):
    f = lambda B: tuple((int(model_value(m, lo.t)), int(model_value(m, hi.t))) for lo, hi in B)
    return f(S), f(O)


def _placed_pair(S, O):
    """two real SimulationObjects carrying the given slice tuples (symbolic or concrete)."""
    import fdtdx

    mats = {"a": fdtdx.Material(permittivity=2.0), "b": fdtdx.Material(permittivity=5.0)}
    dev = fdtdx.Device(name="dev", materials=mats, param_transforms=[], partial_voxel_grid_shape=(1, 1, 1))
    src = fdtdx.PointDipoleSource(name="src", wave_character=fdtdx.WaveCharacter(wavelength=600e-9), polarization=0)
    return dev.aset("_grid_slice_tuple", tuple(S)), src.aset("_grid_slice_tuple", tuple(O))


def build_real_scene(S, O, N, pol=0, disp=False):
    """real placement of a continuous device on box S and a (box-shaped) dipole source on box O in an N^3 volume."""
    import jax
    import jax.numpy as jnp

    import fdtdx

    cfg = fdtdx.SimulationConfig(time=1e-15, grid=fdtdx.UniformGrid(spacing=50e-9), backend="cpu", dtype=jnp.float64)
    vol = fdtdx.SimulationVolume(partial_grid_shape=(N, N, N), name="vol")
    mats = {"a": fdtdx.Material(permittivity=2.0), "b": fdtdx.Material(permittivity=5.0)}
    if disp:
        from fdtdx.dispersion import DispersionModel, LorentzPole
        mats = {"a": fdtdx.Material(permittivity=1.0),
                "b": fdtdx.Material(permittivity=2.0, dispersion=DispersionModel(poles=(LorentzPole(resonance_frequency=4e14, damping=1e13, delta_epsilon=1.5),)))}
    dev = fdtdx.Device(name="dev", partial_grid_shape=tuple(h - l for l, h in S), materials=mats, param_transforms=[], partial_voxel_grid_shape=(1, 1, 1))
    src = fdtdx.PointDipoleSource(name="src", partial_grid_shape=tuple(h - l for l, h in O), wave_character=fdtdx.WaveCharacter(wavelength=600e-9),
                                  polarization=pol)
    cons = [dev.set_grid_coordinates((0, 1, 2), ("-",) * 3, tuple(l for l, h in S)),
            src.set_grid_coordinates((0, 1, 2), ("-",) * 3, tuple(l for l, h in O))]
    key = jax.random.PRNGKey(0)
    oc, arrays, params, config, info = fdtdx.place_objects(object_list=[vol, dev, src], config=cfg, constraints=cons, key=key)
    return oc, arrays, params, key


def _named(oc, name):
    return [o for o in oc.objects if o.name == name][0]


def scene_state_mismatch(S, O, N, pval=0.375):
    """concrete float64 run of the real place_objects + apply_params; returns (max |state - post-device slice|, detail)."""
    import jax
    import jax.numpy as jnp

    import fdtdx

    oc, arrays, params, key = build_real_scene(S, O, N)
    params = jax.tree_util.tree_map(lambda p: jnp.full_like(p, pval), params)
    arrays2, oc2, _ = fdtdx.apply_params(arrays, oc, params, key)
    s = _named(oc2, "src")
    sl = tuple(slice(l, h) for l, h in O)
    want = np.asarray(arrays2.inv_permittivities)[(slice(None),) + sl]
    got = np.asarray(s._inv_eps_local)
    # the state a fresh set-up against the post-device arrays gives (the statement's wording)
    fresh = s.apply(key=key, inv_permittivities=arrays2.inv_permittivities, inv_permeabilities=arrays2.inv_permeabilities)
    fresh_eps = np.asarray(fresh._inv_eps_local)
    err = float(np.max(np.abs(got - want)))
    err2 = float(np.max(np.abs(got - fresh_eps)))
    d = _named(oc2, "dev")
    return max(err, err2), dict(device_box=S, source_box=O, grid=N, device_check_overlap_source=bool(d.check_overlap(s)),
                                source_inv_eps_local=got.ravel()[:4].tolist(), post_device_inv_eps_slice=want.ravel()[:4].tolist(),
                                fresh_apply_inv_eps=fresh_eps.ravel()[:4].tolist(), max_abs_err=max(err, err2))


# ------------------------------------------------------------------------------------------------------ run
def run_case(c, case):
    c.functions.update(META["functions"][:1])
    if case["kind"] == "predicate":
        return _predicate(c, case)
    if case["kind"] == "loop":
        return _loop(c, case)
    if case["kind"] == "loop_disp":
        return _loop_disp(c, case)
    raise ValueError(case["kind"])


def _predicate(c, case):
    N = case["N"]
    if N is not None:
        c.functions.update(META["functions"])
    c.bounds.update(slice_bounds="unbounded Int >= 0" if N is None else f"Int in [0,{N}]")
    for trip in case["triples"]:
        S, O, assume = _sym_boxes(N)
        c.symvars += 12
        St, Ot = _terms(S), _terms(O)
        cls = [rel_formula(r, St[a][0], St[a][1], Ot[a][0], Ot[a][1]) for a, r in enumerate(trip)]
        dev, src = _placed_pair(S, O)
        tname = "/".join(trip)

        def fn(dev=dev, src=src):
            return dev.check_overlap(src)

        def post(res, exc, St=St, Ot=Ot):
            if exc is not None:
                return False
            got = res.t if isinstance(res, pysym.SymBool) else z3.BoolVal(bool(res))
            return z3.Implies(intersect_formula(St, Ot), got)

        def replay(m, S=S, O=O, N=N):
            Sb, Ob = _model_boxes(m, S, O)
            d2, s2 = _placed_pair(Sb, Ob)
            got = bool(d2.check_overlap(s2))
            want = intersect_concrete(Sb, Ob)
            detail = dict(device_box=Sb, other_box=Ob, check_overlap=got, regions_share_a_cell=want)
            if not (want and not got):
                return False, detail
            if N is not None:
                err, sd = scene_state_mismatch(Sb, Ob, N)
                detail.update(scene=sd)
                return err > 1e-9, detail
            return True, detail

        c.sym_explore(f"intersect=>overlap[{tname}]", fn, post, assume + cls, replay, key=f"check_overlap:device-{tname}", int_range=16)
        # vacuity twin: the class is inhabited and its members do intersect
        c.witness(f"class inhabited [{tname}]", intersect_formula(St, Ot), assume + cls)


def _loop_disp(c, case):
    """dispersive continuous device: every array leaf of the source's state after apply_params must equal the state a fresh
    ``source.apply`` against the returned (post-device) permittivities, permeabilities and dispersive coefficients gives."""
    import jax
    import jax.numpy as jnp

    import fdtdx

    from .. import jx2smt as jx
    from .. import sc

    c.functions.update(META["functions"])
    c.functions.add("objects.sources.dipole.PointDipoleSource.apply (dispersive coefficients) / effective_inv_permittivity")
    N = case["N"]
    for trip in case["triples"]:
        S, O, assume = _sym_boxes(N)
        St, Ot = _terms(S), _terms(O)
        s = z3.Solver()
        s.add(*assume, *[rel_formula(r, St[a][0], St[a][1], Ot[a][0], Ot[a][1]) for a, r in enumerate(trip)])
        if s.check() != z3.sat:
            raise Inconclusive(f"relation class {trip} has no member on a {N}^3 grid")
        Sb, Ob = _model_boxes(s.model(), S, O)
        tname = "/".join(trip)
        t0 = time.time()
        oc, arrays, params, key = build_real_scene(Sb, Ob, N, pol=1, disp=True)
        if arrays.dispersive_c1 is None:
            raise Inconclusive("scene has no dispersive coefficient arrays")
        leaves, treedef = jax.tree_util.tree_flatten(params)
        P = jx.symarr("p", leaves[0].shape)
        c.symvars += P.size
        box = [z3.And(v >= 0, v <= 1) for v in P.reshape(-1)]
        names = ("_inv_eps_local", "_inv_eps_oriented")

        def fn(p):
            a2, oc2, _ = fdtdx.apply_params(arrays, oc, jax.tree_util.tree_unflatten(treedef, [p]), key)
            src = _named(oc2, "src")
            fresh = _named(oc, "src").apply(key=key, inv_permittivities=a2.inv_permittivities, inv_permeabilities=a2.inv_permeabilities,
                                            dispersive_c1=a2.dispersive_c1, dispersive_c2=a2.dispersive_c2, dispersive_c3=a2.dispersive_c3,
                                            dispersive_c4=a2.dispersive_c4, electric_conductivity=a2.electric_conductivity)
            return [getattr(src, n) for n in names], [getattr(fresh, n) for n in names], a2.dispersive_c3

        (got, want, c3), tr = jx.call(fn, P)
        c.interp_s += time.time() - t0
        fj = jax.jit(fn)

        def replay(m, fj=fj):
            pv = np.clip(np.asarray([float(model_value(m, v)) for v in P.reshape(-1)]).reshape(P.shape), 0.0, 1.0)
            g, w, _ = fj(jnp.asarray(pv))
            err = max(float(np.max(np.abs(np.asarray(a) - np.asarray(b)))) for a, b in zip(g, w))
            return err > 1e-9, dict(device_box=Sb, source_box=Ob, params=pv, max_abs_state_difference=err)

        pc = np.full(leaves[0].shape, 0.25) + 0.5 * np.arange(leaves[0].size).reshape(leaves[0].shape) / max(1, leaves[0].size)
        ref = fn(jnp.asarray(pc))
        c.validate(jx.to_numeric(tr(pc)[0][0]), np.asarray(ref[0][0]), "source _inv_eps_local after apply_params (dispersive device)")
        for n, g, w in zip(names, got, want):
            c.prove_eq(f"[{tname}] dispersive device: source {n} == fresh apply against the post-device arrays", jx.lift(g), jx.lift(w), assume=box, replay=replay,
                       key=f"apply_params:source-state-dispersive:device-{tname}", chunk=64)
        vs = [v for v in jx.lift(c3).reshape(-1) if sc.is_symbolic_scalar(v)]
        if not vs:
            raise Inconclusive(f"[{tname}] post-device dispersive coefficients do not depend on the parameters")
        gs = [v for v in jx.lift(want[0]).reshape(-1) if sc.is_symbolic_scalar(v)]
        if not gs:
            raise Inconclusive(f"[{tname}] source state does not depend on the parameters")
        c.witness(f"[{tname}] the source's effective inverse permittivity depends on the device parameters", sc.ne(gs[0], jx.to_numeric(jx.lift(jnp.asarray(ref[1][0]))).reshape(-1)[0].item()), box)


def _loop(c, case):
    import jax
    import jax.numpy as jnp

    import fdtdx

    from .. import jx2smt as jx

    c.functions.update(META["functions"])
    N = case["N"]
    c.bounds.update(scene_grid=N)
    for trip in case["triples"]:
        S, O, assume = _sym_boxes(N)
        St, Ot = _terms(S), _terms(O)
        cls = [rel_formula(r, St[a][0], St[a][1], Ot[a][0], Ot[a][1]) for a, r in enumerate(trip)]
        s = z3.Solver()
        s.add(*assume, *cls)
        if s.check() != z3.sat:
            raise Inconclusive(f"relation class {trip} has no member on a {N}^3 grid")
        Sb, Ob = _model_boxes(s.model(), S, O)
        tname = "/".join(trip)
        t0 = time.time()
        oc, arrays, params, key = build_real_scene(Sb, Ob, N, pol=1)
        # legal scene => the real loops must leave the source with a state at all (concrete float64 run first)
        try:
            scene_state_mismatch(Sb, Ob, N)
        except Exception as ex:  # noqa: BLE001
            c.fail_concrete(f"[{tname}] place_objects + apply_params leave the source without usable state",
                            dict(device_box=Sb, source_box=Ob, grid=N, raised=f"{type(ex).__name__}: {ex}"[:300]), key=f"apply_params:source-state-missing:device-{tname}")
            continue
        leaves, treedef = jax.tree_util.tree_flatten(params)
        if len(leaves) != 1:
            raise Inconclusive("unexpected device parameter structure")
        P = jx.symarr("p", leaves[0].shape)
        c.symvars += P.size
        box = [z3.And(v >= 0, v <= 1) for v in P.reshape(-1)]
        sl = (slice(None),) + tuple(slice(l, h) for l, h in Ob)

        def fn(p):
            a2, oc2, _ = fdtdx.apply_params(arrays, oc, jax.tree_util.tree_unflatten(treedef, [p]), key)
            src = _named(oc2, "src")
            mu = a2.inv_permeabilities
            mu_loc = src._inv_mu_local
            return a2.inv_permittivities, src._inv_eps_local, src._inv_eps_oriented, jnp.asarray(mu, dtype=jnp.float64), jnp.asarray(mu_loc, dtype=jnp.float64)

        (ie, loc, ori, mu, mu_loc), tr = jx.call(fn, P)
        c.interp_s += time.time() - t0
        ie, loc, ori = jx.lift(ie), jx.lift(loc), jx.lift(ori)
        # translator validation on one concrete parameter array
        pc = np.full(leaves[0].shape, 0.25) + 0.5 * np.arange(leaves[0].size).reshape(leaves[0].shape) / max(1, leaves[0].size)
        ref = fn(jnp.asarray(pc))
        gotv = tr(pc)
        c.validate(jx.to_numeric(gotv[0]), np.asarray(ref[0]), "apply_params inv_permittivities")
        c.validate(jx.to_numeric(gotv[1]), np.asarray(ref[1]), "source _inv_eps_local")

        def replay(m, Sb=Sb, Ob=Ob):
            err, sd = scene_state_mismatch(Sb, Ob, N, pval=float(np.clip(model_value(m, P.reshape(-1)[0]), 0.0, 1.0)))
            if err <= 1e-9:
                err, sd = scene_state_mismatch(Sb, Ob, N)
            return err > 1e-9, sd

        want = ie[sl]
        key_ = f"apply_params:source-state:device-{tname}"
        c.prove_eq(f"[{tname}] source _inv_eps_local == post-device inv_permittivities[source box]", loc, want, assume=box, replay=replay, key=key_, chunk=64)
        # isotropic scene, axis-aligned dipole: (inv_eps @ p_hat)[i] = inv_eps * delta(i, pol)
        want_ori = np.zeros((3,) + want.shape[1:], dtype=object)
        want_ori[1] = want[0]  # pol = 1
        if ori.shape != want_ori.shape:
            raise Inconclusive(f"unexpected _inv_eps_oriented shape {ori.shape}")
        c.prove_eq(f"[{tname}] source _inv_eps_oriented == e_pol * post-device value", ori, want_ori, assume=box, replay=replay, key=key_, chunk=64)
        mu_n, mul_n = jx.to_numeric(jx.lift(mu)), jx.to_numeric(jx.lift(mu_loc))
        c.prove(f"[{tname}] source _inv_mu_local == post-device inv_permeabilities", bool(np.allclose(np.broadcast_to(mul_n, np.shape(mul_n)), mu_n if np.ndim(mu_n) == 0 else mu_n[sl])))
        # vacuity twin: inside a device the post-device value really depends on the parameters (whenever the boxes meet)
        if intersect_concrete(Sb, Ob):
            vs = [v for v in want.reshape(-1) if isinstance(v, z3.ExprRef)]
            if not vs:
                raise Inconclusive(f"[{tname}] post-device slice does not depend on the device parameters")
            c.witness(f"[{tname}] post-device slice differs from the background", vs[0] != 1, box)
        else:
            c.witness(f"[{tname}] disjoint: parameters free", z3.BoolVal(True), box)
        c.extra.setdefault("representatives", {})[tname] = dict(device=Sb, source=Ob)
