"""C11 -- forcing complex field storage reproduces the real-valued run (E1).

Two placements of the same scene differing only in ``use_complex_fields``; T forward steps with detector recording
are interpreted from the same symbolic real initial fields.  Real parts must agree, imaginary parts must be 0,
detector states must agree.
"""
from __future__ import annotations

import time

import jax
import jax.numpy as jnp
import numpy as np
import z3

import fdtdx
from fdtdx.fdtd.forward import forward

from .. import jx2smt as jx
from .. import sc
from ..core import Inconclusive, model_array
from . import _run

META = dict(
    functions=["fdtd.initialization._init_arrays (use_complex)", "fdtd.forward.forward", "TFSFPlaneSource._tfsf_inject_E_face/_H_face (quadrature injection)",
               "PointDipoleSource.update_E/H", "core.physics.metrics.compute_energy/compute_poynting_flux", "Detector.update (all kinds)", "PML step_cpml"],
    assumptions=["reals for floats", "no Bloch phase (k = 0)", "materials concrete; quantified: real initial E, H (identical in both runs)"],
    outside="T and shapes beyond the bound; mode-overlap detectors; the mode solver itself (tidy3d/scipy, runs concretely at placement)",
    bounds=dict(quick=dict(T=3), thorough=dict(T=6)),
)

_SC = {
    "pml-z": dict(shape=(3, 3, 6), bounds={"min_z": "pml", "max_z": "pml"}, src=("dipole", "plane"),
                  det=("field", "energy", "poynting", "phasor", "field_red", "phasor_apod")),
    "pec-pmc-periodic": dict(shape=(3, 3, 4), bounds={"min_x": "pec", "max_x": "pec", "min_y": "pmc", "max_y": "pmc", "min_z": "periodic", "max_z": "periodic"}, src=("dipole", "mdipole")),
    "pml-all": dict(shape=(4, 4, 5), bounds="pml", src=("dipole",), thickness=1),
    "periodic-gauss": dict(shape=(3, 3, 4), bounds="periodic", src=("gauss", "mdipole")),
    # a mode source over a lossy core: the solved mode profile is complex, the quadrature injection must stay real in
    # real storage and must not leak into the imaginary part in complex storage
    "pml-mode-lossy": dict(shape=(5, 5, 5), bounds={"min_z": "pml", "max_z": "pml"}, src=(), thickness=1, mode=True, T=2, det=("field",)),
}


def cases(tier, seed):
    T = 3 if tier == "quick" else 6
    names = ["pml-z", "pec-pmc-periodic", "pml-mode-lossy"] if tier == "quick" else list(_SC)
    return [dict(name=n, T=_SC[n].get("T", T)) for n in names]


def run_case(c, case):
    spec = _SC[case["name"]]
    shape, T = spec["shape"], case["T"]
    c.functions.update(META["functions"])
    c.bounds.update(T=T, shape=list(shape))
    kw = dict(bounds=spec["bounds"], src_kinds=spec["src"], thickness=spec.get("thickness", 2))
    if spec.get("mode"):
        kw["extra"] = [_run.lossy_core(shape), _run.mode_source(shape)]
    if spec.get("det"):
        kw["det_kinds"] = spec["det"]
    SR = _run.scene(shape, T, use_complex=False, **kw)
    SC = _run.scene(shape, T, use_complex=True, **kw)
    if not np.iscomplexobj(np.asarray(SC["arrays"].fields.E)) or np.iscomplexobj(np.asarray(SR["arrays"].fields.E)):
        raise Inconclusive("use_complex_fields did not switch the storage type")
    fsh = SR["arrays"].fields.E.shape
    E, H = jx.symarr("E", fsh), jx.symarr("H", fsh)
    c.symvars += E.size + H.size

    def mk(S, cplx):
        arr, oc, cfg, key = S["arrays"], S["objects"], S["config"], S["key"]

        def run(E, H):
            if cplx:
                E, H = E.astype(arr.fields.E.dtype), H.astype(arr.fields.H.dtype)
            st = (jnp.asarray(0, dtype=jnp.int32), arr.aset("fields->E", E).aset("fields->H", H))
            for _ in range(T):
                st = forward(st, cfg, oc, key, True, False, True)
            return st[1].fields.E, st[1].fields.H, st[1].detector_states
        return run

    rr, rc = mk(SR, False), mk(SC, True)
    t0 = time.time()
    (Er, Hr, dr), trr = jx.call(rr, E, H)
    (Ec, Hc, dc), trc = jx.call(rc, E, H)
    c.interp_s += time.time() - t0
    jr, jc = jax.jit(rr), jax.jit(rc)
    rng = np.random.default_rng(c.seed)
    conc = (rng.normal(size=fsh), rng.normal(size=fsh))
    want = jc(*[jnp.asarray(x) for x in conc])
    got = trc(*[jx.lift(x) for x in conc])
    c.validate(jx.to_numeric(got[0]), np.asarray(want[0]), "complex run final E")

    def replay(m):
        e, h = model_array(m, E), model_array(m, H)
        a, b = jr(jnp.asarray(e), jnp.asarray(h)), jc(jnp.asarray(e), jnp.asarray(h))
        worst = 0.0
        for x, y in zip(jax.tree_util.tree_leaves(a), jax.tree_util.tree_leaves(b)):
            x, y = np.asarray(x), np.asarray(y)
            if x.size:
                worst = max(worst, float(np.max(np.abs(x - y))) / (1.0 + float(np.max(np.abs(x)))))
        return worst > 1e-7, dict(worst_rel_diff=worst)

    for nm, a, b in (("E", Er, Ec), ("H", Hr, Hc)):
        mg = float(np.max(np.abs(np.asarray(want[0 if nm == "E" else 1]))))
        c.prove_eq(f"Re({nm}_complex) == {nm}_real", jx.ew(sc.real, b), a, [], replay, key=f"complex:{nm}:re", roundoff=1e-9, scale=max(mg, 1e-300))
        c.prove_eq(f"Im({nm}_complex) == 0", jx.ew(sc.imag, b), np.zeros(fsh), [], replay, key=f"complex:{nm}:im")
    for (n0, k0, a), (n1, k1, b) in zip(_run.flat_states(dr), _run.flat_states(dc)):
        assert (n0, k0) == (n1, k1)
        mag = float(np.max(np.abs(np.asarray(want[2][n0][k0])))) if np.asarray(want[2][n0][k0]).size else 1.0
        c.prove_eq(f"detector {n0}.{k0} equal", b, a, [], replay, key=f"complex:detector:{n0}", roundoff=1e-9, scale=max(mag, 1e-300))
    e = [v for v in jx.lift(Er).reshape(-1) if sc.is_symbolic_scalar(v)]
    c.witness("final field depends on the initial state", sc.ne(e[0], 0), [])
