"""C33 -- electric-plane symmetry reduction is exact (E1).

The same scene is placed on the full domain (2n cells along the symmetry axis) and, with ``config.symmetry = -1`` on
that axis, on the reduced domain built by the real ``place_objects``.  The reduced-domain fields are symbolic (with
the wall condition on the plane row); the full-domain input is their ``unfold_fields`` image (parity-consistent by
C32).  After T <= n-1 forward steps ``unfold_fields`` of the reduced result must equal the full-domain result, and
the co-located detector record of the reduced run must equal the upper half of the full-domain record, on every cell
the far boundary of the discarded half cannot have reached.
"""
from __future__ import annotations

import time

import jax
import jax.numpy as jnp
import numpy as np
import z3

import fdtdx
from fdtdx.fdtd.forward import forward
from fdtdx.fdtd.symmetry import unfold_fields

from .. import jx2smt as jx
from .. import sc
from ..core import Inconclusive, model_array
from ..scenes import box_detector, build_scene

META = dict(
    functions=["fdtd.symmetry.make_symmetry_walls / reduce_resolved_slices (through place_objects)", "fdtd.symmetry.unfold_fields", "fdtd.forward.forward",
               "PerfectElectricConductor.apply_post_E_update (symmetry wall)", "fdtd.update.pad_fields_with_symmetry_mirror", "interpolate_fields", "FieldDetector.update"],
    assumptions=["reals for floats", "materials constant along the symmetry axis (seeded transverse variation, concrete)", "initial reduced fields satisfy the wall condition on the plane row (tangential E = 0, normal H = 0)",
                 "compared cells: all except cells 0..T of the mirrored half (the light cone of the far wall of the discarded half after T steps); n >= T+2 so that part of the mirrored half is compared"],
    outside="magnetic planes (+1), three simultaneous symmetry axes, steps beyond the light cone (T > n-1), sources",
    bounds=dict(quick=dict(n=4, T=2), thorough=dict(n=5, T=3)),
)


def cases(tier, seed):
    n, T = (6, 2) if tier == "quick" else (7, 3)  # n >= T + 4: the whole mirrored half of the straddling detector box lies outside the far wall's light cone
    out = []
    for ax in range(3):
        for tb in (("periodic", "pmc") if tier != "quick" else (("periodic", "pmc", "periodic")[ax],)):
            out.append(dict(name=f"axis{ax}-{tb}", axis=ax, n=n, T=T, transverse=tb))
    # two electric planes at once (quarter domain): the halo edge shared by both planes is a double mirror (H_z co-location)
    out.append(dict(name="axes01-pmc", axis=0, axis2=1, n=n, T=T, transverse="pmc"))
    if tier != "quick":
        out.append(dict(name="axes12-periodic", axis=1, axis2=2, n=n, T=T, transverse="periodic"))
    return out


def run_case(c, case):
    ax, n, T = case["axis"], case["n"], case["T"]
    axes = [ax] + ([case["axis2"]] if case.get("axis2") is not None else [])
    rng = np.random.default_rng(c.seed + 13)
    shape = [2, 3, 2]
    for a in axes:
        shape[a] = 2 * n
    shape = tuple(shape)
    sym = [0, 0, 0]
    for a in axes:
        sym[a] = -1
    sym = tuple(sym)
    faces = {}
    for a in range(3):
        k = "pec" if a in axes else case["transverse"]
        faces[f"min_{'xyz'[a]}"] = k
        faces[f"max_{'xyz'[a]}"] = k
    # a co-located detector straddling the plane symmetrically (full domain) = touching the plane (reduced domain)
    lo = [0, 0, 0]
    sh = list(shape)
    for a in axes:
        lo[a], sh[a] = n - 2, 4
    # second detector: a component subset listed in NON-canonical order (records are stored in canonical order whatever the
    # listing; the unfold must sign each stored channel by what it is -- seeded change C33b)
    det = lambda: [box_detector(fdtdx.FieldDetector, "det", tuple(lo), tuple(sh), dtype=jnp.float64, exact_interpolation=True),
                   box_detector(fdtdx.FieldDetector, "det2", tuple(lo), tuple(sh), dtype=jnp.float64, exact_interpolation=True, components=("Ey", "Ez", "Ex", "Hz"))]
    SF = build_scene(shape, faces, steps=T, thickness=1, extra_objects=det())
    SR = build_scene(shape, faces, steps=T, thickness=1, extra_objects=det(), symmetry=sym)
    c.functions.update(META["functions"])
    c.bounds.update(shape=list(shape), axis=ax, T=T)
    rsh = SR["arrays"].fields.E.shape
    fsh = SF["arrays"].fields.E.shape
    if any(rsh[a + 1] != n or fsh[a + 1] != 2 * n for a in axes):
        raise Inconclusive(f"unexpected reduced/full shapes {rsh} {fsh}")
    # transverse material variation, constant along the symmetry axis
    ie_r = np.asarray(SR["arrays"].inv_permittivities)
    tshape = list(ie_r.shape)
    for a in axes:
        tshape[a + 1] = 1
    tv = np.round(rng.uniform(0.4, 1.0, size=tshape), 3)
    ie_red = np.broadcast_to(tv, ie_r.shape).copy()
    fshape = list(ie_r.shape)
    for a in axes:
        fshape[a + 1] = 2 * n
    ie_full = np.broadcast_to(tv, fshape).copy()

    Er, Hr = jx.symarr("E", rsh), jx.symarr("H", rsh)
    for a in axes:
        for comp in range(3):
            idx = [comp, slice(None), slice(None), slice(None)]
            idx[a + 1] = 0
            if comp != a:
                Er[tuple(idx)] = 0
            else:
                Hr[tuple(idx)] = 0
    c.symvars += int(sum(sc.is_symbolic_scalar(v) for v in list(Er.reshape(-1)) + list(Hr.reshape(-1))))

    def mk(S, ie, unfold_det=False):
        arr, oc, cfg, key = S["arrays"], S["objects"], S["config"], S["key"]
        a0 = arr.aset("inv_permittivities", jnp.asarray(ie))

        def run(E, H):
            st = (jnp.asarray(0, dtype=jnp.int32), a0.aset("fields->E", E).aset("fields->H", H))
            for _ in range(T):
                st = forward(st, cfg, oc, key, True, False, True)
            if unfold_det:
                from fdtdx.fdtd.symmetry import unfold_detector_states
                ds = unfold_detector_states(st[1], oc, cfg).detector_states
                return st[1].fields.E, st[1].fields.H, st[1].detector_states["det"]["fields"], ds["det"]["fields"], ds["det2"]["fields"]
            return st[1].fields.E, st[1].fields.H, st[1].detector_states["det"]["fields"], st[1].detector_states["det"]["fields"], st[1].detector_states["det2"]["fields"]
        return run

    rr, rf = mk(SR, ie_red, True), mk(SF, ie_full)
    unf = lambda E, H: (unfold_fields(E, sym, "E"), unfold_fields(H, sym, "H"))

    def full_from_reduced(E, H):
        Ef, Hf = unf(E, H)
        return rf(Ef, Hf)

    def red_unfolded(E, H):
        e, h, d, du, du2 = rr(E, H)
        ue, uh = unf(e, h)
        return ue, uh, d, du, du2

    t0 = time.time()
    (Ef, Hf, Df, _Df1, Df2), trf = jx.call(full_from_reduced, Er, Hr)
    (Eu, Hu, Dr, Du, Du2), tru = jx.call(red_unfolded, Er, Hr)
    c.interp_s += time.time() - t0
    jf, ju = jax.jit(full_from_reduced), jax.jit(red_unfolded)
    maskE = np.array([[not sc.is_symbolic_scalar(v) for v in Er.reshape(-1)]]).reshape(rsh)
    maskH = np.array([[not sc.is_symbolic_scalar(v) for v in Hr.reshape(-1)]]).reshape(rsh)
    ce, ch = rng.normal(size=rsh) * (~maskE), rng.normal(size=rsh) * (~maskH)
    want = jf(jnp.asarray(ce), jnp.asarray(ch))
    got = trf(jx.lift(ce), jx.lift(ch))
    c.validate(jx.to_numeric(got[0]), np.asarray(want[0]), "full-domain run from the unfolded input")

    keep = [slice(None)] * 4
    # the full domain is not mirror symmetric about its centre plane at its own far (min) wall: the wall zeroes tangential E
    # at node 0, which has no mirror partner.  That asymmetry travels one cell per step: after T steps cells 0..T of the
    # mirrored half can differ.  Everything beyond that light cone must agree.
    for a in axes:
        keep[a + 1] = slice(T + 1, None)
    keep = tuple(keep)
    # detector: reduced record covers the kept half of the straddling box; compare with the upper half of the full record
    dfull = jx.lift(Df)
    dred = jx.lift(Dr)
    half = [slice(None)] * dfull.ndim
    for a in axes:
        half[a + 2] = slice(dfull.shape[a + 2] - dred.shape[a + 2], None)
    half = tuple(half)

    def replay(m):
        e, h = model_array(m, Er), model_array(m, Hr)
        a, b = jf(jnp.asarray(e), jnp.asarray(h)), ju(jnp.asarray(e), jnp.asarray(h))
        w1 = float(np.max(np.abs((np.asarray(a[0]) - np.asarray(b[0]))[keep])))
        w2 = float(np.max(np.abs((np.asarray(a[1]) - np.asarray(b[1]))[keep])))
        w3 = float(np.max(np.abs(np.asarray(a[2])[half] - np.asarray(b[2]))))
        sc_ = 1.0 + float(np.max(np.abs(np.asarray(a[0])))) + float(np.max(np.abs(np.asarray(a[1]))))
        w4 = float(np.max(np.abs((np.asarray(a[3]) - np.asarray(b[3]))[dkeep])))
        w5 = float(np.max(np.abs((np.asarray(a[4]) - np.asarray(b[4]))[dkeep])))
        worst = max(w1, w2, w3, w4, w5) / sc_
        return worst > 1e-7, dict(worst_rel_diff=worst, E=w1, H=w2, detector=w3, detector_unfolded=w4, detector2_unfolded=w5)

    # unfolded records: the detector box spans cells n-2..n+1 of the full domain; within the light-cone bound (n >= T+2) all of
    # its cells lie beyond cell T, so its cells beyond cell T must equal the full-domain record
    dkeep = [slice(None)] * dfull.ndim
    for a in axes:
        # record index i is full-domain cell n-2+i.  Fields of cells 0..T may differ (far wall), the co-location stencil reaches
        # one cell back: co-located cells 0..T+1 may differ.  Along x and y the co-located samples sit ON an electric plane
        # (E_z node, integer position): the outermost sample of the 4-cell box has its mirror partner outside the reduced
        # detector and is documented as a fill value (mirror_extend_low_side), it is not compared.
        dkeep[a + 2] = slice(max(1 if a in (0, 1) else 0, T + 4 - n), None)
    dkeep = tuple(dkeep)
    if jx.lift(Du).shape != dfull.shape or jx.lift(Du2).shape != jx.lift(Df2).shape:
        raise Inconclusive(f"unfolded detector record has shape {jx.lift(Du).shape}, full-domain record {dfull.shape}")
    kk = "axes" + "".join(map(str, axes))
    c.prove_eq("unfold(reduced E) == full E (away from the far boundary)", jx.lift(Eu)[keep], jx.lift(Ef)[keep], [], replay, key=f"symmetry-reduction:{kk}:E", roundoff=1e-9)
    c.prove_eq("unfold(reduced H) == full H (away from the far boundary)", jx.lift(Hu)[keep], jx.lift(Hf)[keep], [], replay, key=f"symmetry-reduction:{kk}:H", roundoff=1e-9)
    c.prove_eq("co-located detector record: reduced == kept half of full", dred, dfull[half], [], replay, key=f"symmetry-reduction:{kk}:detector", roundoff=1e-9)
    c.prove_eq("unfold_detector_states(reduced record) == full-domain record", jx.lift(Du)[dkeep], dfull[dkeep], [], replay, key=f"symmetry-reduction:{kk}:detector-unfolded", roundoff=1e-9)
    c.prove_eq("unfold_detector_states(reduced record, non-canonical component order) == full-domain record", jx.lift(Du2)[dkeep], jx.lift(Df2)[dkeep], [], replay, key=f"symmetry-reduction:{kk}:detector-unfolded-order", roundoff=1e-9)
    e = [(x, y) for x, y in zip(jx.lift(Ef)[keep].reshape(-1), [0] * 10**6) if sc.is_symbolic_scalar(x)]
    if not e:
        raise Inconclusive("full run does not depend on the symbolic input")
    c.witness("full-domain field is non-trivial", sc.ne(e[0][0], 0), [])
