"""C06 -- state depends only on the steps executed, not on how the run is split; reset zeroes time-dependent state (E1).

(a) ``custom_fdtd_forward(0,T)`` vs the chain ``(0,m)`` then ``(m,T)`` for every split point, from a symbolic
initial state (fields, PML auxiliaries and detector-state contents symbolic).  (b) ``ArrayContainer.reset`` and
``run_fdtd`` on a container whose fields / detector states hold arbitrary symbolic leftovers give the same result as
on the freshly placed container, and the materials are kept.
"""
from __future__ import annotations

import time

import jax
import jax.numpy as jnp
import numpy as np
import z3

import fdtdx
from fdtdx.fdtd.fdtd import custom_fdtd_forward

from .. import jx2smt as jx
from .. import sc
from ..core import Inconclusive, model_array
from . import _run

META = dict(
    functions=["fdtd.fdtd.custom_fdtd_forward", "fdtd.container.ArrayContainer.reset", "fdtd.wrapper.run_fdtd", "fdtd.forward.forward", "update_detector_states"],
    assumptions=["reals for floats (x*0 = 0: a NaN/inf left in a reused container is outside the claim)", "materials concrete (placed scene); quantified: initial fields, PML auxiliary fields, old detector-state contents"],
    outside="T beyond the bound; float non-finite leftovers",
    bounds=dict(quick=dict(T=4), thorough=dict(T=8)),
)


def cases(tier, seed):
    T = 4 if tier == "quick" else 8
    out = []
    for nm, shape, pml in (("pml", (3, 3, 6), True), ("periodic", (3, 2, 4), False)):
        splits = list(range(1, T)) if (tier != "quick" or nm == "pml") else [2]
        for m in splits:
            out.append(dict(name=f"split-{nm}-m{m}", kind="split", shape=shape, pml=pml, T=T, m=m))
        out.append(dict(name=f"reset-{nm}", kind="reset", shape=shape, pml=pml, T=T))
        # the same split with the step bounds given as jax arrays (the signature allows int | jax.Array)
        out.append(dict(name=f"split-{nm}-m{max(1, T // 2)}-arraytimes", kind="split", shape=shape, pml=pml, T=T, m=max(1, T // 2), array_times=True))
    # every option combination of ArrayContainer.reset on a container that also carries a recording state
    out.append(dict(name="reset-options-recording", kind="reset_options", shape=(3, 3, 6), pml=True, T=T))
    if tier != "quick":
        out.append(dict(name="split3-pml", kind="split3", shape=(3, 3, 6), pml=True, T=T, m=2, m2=5))
    return out


def _symtree(prefix, tree, cplx=False):
    leaves, td = jax.tree_util.tree_flatten(tree)
    out = []
    for i, l in enumerate(leaves):
        out.append(jx.symarr(f"{prefix}{i}", np.shape(l), cplx=np.iscomplexobj(np.asarray(l))))
    return jax.tree_util.tree_unflatten(td, out), out


def run_case(c, case):
    shape, T = tuple(case["shape"]), case["T"]
    c.functions.update(META["functions"])
    c.bounds.update(T=T, shape=list(shape))
    if case["kind"] == "reset_options":
        return _reset_options(c, case)
    S = _run.scene(shape, T, pml=case["pml"])
    arr, oc, cfg, key = S["arrays"], S["objects"], S["config"], S["key"]
    fsh = arr.fields.E.shape
    E0, H0 = jx.symarr("E", fsh), jx.symarr("H", fsh)
    psiE, lE = _symtree("psiE", arr.fields.psi_E)
    psiH, lH = _symtree("psiH", arr.fields.psi_H)
    ds, lD = _symtree("ds", arr.detector_states)
    c.symvars += E0.size + H0.size + sum(x.size for x in lE + lH + lD)
    rng = np.random.default_rng(c.seed)

    def pack(E, H, pe, ph, d):
        return arr.aset("fields->E", E).aset("fields->H", H).aset("fields->psi_E", pe).aset("fields->psi_H", ph).aset("detector_states", d)

    def out_of(state):
        t, a = state
        return t, a.fields.E, a.fields.H, a.fields.psi_E, a.fields.psi_H, a.detector_states

    args = (E0, H0, psiE, psiH, ds)

    def conc_args():
        return jax.tree_util.tree_map(lambda x: jnp.asarray(rng.normal(size=np.shape(x)) + (1j * rng.normal(size=np.shape(x)) if np.iscomplexobj(np.asarray(x)) else 0)),
                                      (arr.fields.E, arr.fields.H, arr.fields.psi_E, arr.fields.psi_H, arr.detector_states))

    def compare(name, oa, ob, replay, kk):
        la, lb = jax.tree_util.tree_leaves(oa, is_leaf=jx.is_obj), jax.tree_util.tree_leaves(ob, is_leaf=jx.is_obj)
        assert len(la) == len(lb)
        for i, (x, y) in enumerate(zip(la, lb)):
            c.prove_eq(f"{name}: leaf {i}", x, y, [], replay, key=kk)

    def mk_replay(fa, fb, symargs):
        ja, jb = jax.jit(fa), jax.jit(fb)

        def replay(m):
            conc = jax.tree_util.tree_map(lambda x: jnp.asarray(model_array(m, x)), symargs, is_leaf=jx.is_obj)
            a, b = ja(*conc), jb(*conc)
            worst = 0.0
            for x, y in zip(jax.tree_util.tree_leaves(a), jax.tree_util.tree_leaves(b)):
                x, y = np.asarray(x), np.asarray(y)
                if x.size:
                    worst = max(worst, float(np.max(np.abs(x - y))) / (1.0 + float(np.max(np.abs(x)))))
            return worst > 1e-7, dict(worst_rel_diff=worst)
        return replay, ja

    if case["kind"] in ("split", "split3"):
        cuts = [0, case["m"]] + ([case["m2"]] if case["kind"] == "split3" else []) + [T]

        tm = (lambda v: jnp.asarray(v, dtype=jnp.int32)) if case.get("array_times") else (lambda v: v)

        def whole(E, H, pe, ph, d):
            # reference: the plain step loop (the property's "steps executed"), independent of custom_fdtd_forward's loop bound
            if case.get("array_times"):
                st = (jnp.asarray(0, dtype=jnp.int32), pack(E, H, pe, ph, d))
                from fdtdx.fdtd.forward import forward
                for _ in range(T):
                    st = forward(st, cfg, oc, key, True, False, True)
                return out_of(st)
            return out_of(custom_fdtd_forward(pack(E, H, pe, ph, d), oc, cfg, key, False, True, 0, T, show_progress=False))

        def chain(E, H, pe, ph, d):
            a = pack(E, H, pe, ph, d)
            st = None
            for lo, hi in zip(cuts, cuts[1:]):
                st = custom_fdtd_forward(a, oc, cfg, key, False, True, tm(lo), tm(hi), show_progress=False)
                a = st[1]
            return out_of(st)

        t0 = time.time()
        ow, trw = jx.call(whole, *args)
        oc_, trc = jx.call(chain, *args)
        c.interp_s += time.time() - t0
        replay, jw = mk_replay(whole, chain, args)
        ca = conc_args()
        want = jw(*ca)
        got = trw(*jax.tree_util.tree_map(lambda x: jx.lift(np.asarray(x)), ca))
        c.validate(jx.to_numeric(got[1]), np.asarray(want[1]), "custom_fdtd_forward final E")
        compare(f"one call == chain {cuts}", ow, oc_, replay, "split")
        e = [v for v in jx.lift(ow[1]).reshape(-1) if sc.is_symbolic_scalar(v)]
        c.witness("final E depends on the initial state", sc.ne(e[0], 0), [])
        return

    # reset / re-run: leftovers in fields, psi and detector states must not matter; materials are kept
    def fresh(E, H, pe, ph, d):
        return out_of(fdtdx.run_fdtd(arr, oc, cfg, key, show_progress=False))

    def reused(E, H, pe, ph, d):
        return out_of(fdtdx.run_fdtd(pack(E, H, pe, ph, d), oc, cfg, key, show_progress=False))

    def reused_twice(E, H, pe, ph, d):
        t, a = fdtdx.run_fdtd(pack(E, H, pe, ph, d), oc, cfg, key, show_progress=False)
        return out_of(fdtdx.run_fdtd(a, oc, cfg, key, show_progress=False))

    def reset_only(E, H, pe, ph, d):
        a = pack(E, H, pe, ph, d).reset()
        return (a.fields.E, a.fields.H, a.fields.psi_E, a.fields.psi_H, a.detector_states, a.inv_permittivities, a.inv_permeabilities)

    t0 = time.time()
    of, trf = jx.call(fresh, *args)
    orr, trr = jx.call(reused, *args)
    ot, trt = jx.call(reused_twice, *args)
    ors, _ = jx.call(reset_only, *args)
    c.interp_s += time.time() - t0
    replay, _ = mk_replay(fresh, reused, args)
    replay2, _ = mk_replay(fresh, reused_twice, args)
    compare("run on a dirty container == run on the fresh one", of, orr, replay, "reset:dirty-run")
    compare("second run from returned arrays == first run", of, ot, replay2, "reset:rerun")
    zero_leaves = jax.tree_util.tree_leaves(ors[:5], is_leaf=jx.is_obj)
    for i, x in enumerate(zero_leaves):
        c.prove_eq(f"reset zeroes leaf {i}", x, np.zeros(np.shape(x)), [], None, key="reset:zero")
    c.prove_eq("reset keeps inverse permittivities", ors[5], np.asarray(arr.inv_permittivities), [], None, key="reset:materials")
    c.prove_eq("reset keeps inverse permeabilities", ors[6], np.asarray(arr.inv_permeabilities), [], None, key="reset:materials")
    # twin: without the reset the leftovers would matter (custom_fdtd_forward with reset_container=False depends on E0)
    def noreset(E, H, pe, ph, d):
        return out_of(custom_fdtd_forward(pack(E, H, pe, ph, d), oc, cfg, key, False, True, 0, 1, show_progress=False))
    on, _ = jx.call(noreset, *args)
    e = [v for v in jx.lift(on[1]).reshape(-1) if sc.is_symbolic_scalar(v)]
    if not e:
        raise Inconclusive("twin: un-reset run does not depend on leftovers")
    c.witness("leftovers matter without reset", sc.ne(e[0], 0), [])


def _reset_options(c, case):
    """ArrayContainer.reset(reset_detector_states=a, reset_recording_state=b) on a container with a recording state
    (reversible gradient config): every leaf of fields / detector states / recording state symbolic."""
    from fdtdx.config import GradientConfig
    from fdtdx.interfaces.recorder import Recorder
    shape, T = tuple(case["shape"]), case["T"]
    S = _run.scene(shape, T, pml=case["pml"], gradient_config=GradientConfig(method="reversible", recorder=Recorder(modules=[])))
    arr = S["arrays"]
    if arr.recording_state is None:
        raise Inconclusive("scene has no recording state")
    c.functions.add("fdtd.container.ArrayContainer.reset (all option combinations, recording state present)")
    fld, lF = _symtree("f", arr.fields)
    ds, lD = _symtree("ds", arr.detector_states)
    rd, lR = _symtree("rd", arr.recording_state.data)
    rs, lS = _symtree("rs", arr.recording_state.state)
    c.symvars += sum(x.size for x in lF + lD + lR + lS)

    def flat(t):
        return jax.tree_util.tree_leaves(t, is_leaf=jx.is_obj)

    for a in (True, False):
        for b in (True, False):
            def f(fl, d, r_d, r_s, a=a, b=b):
                from fdtdx.fdtd.container import RecordingState
                x = arr.aset("fields", fl).aset("detector_states", d).aset("recording_state", RecordingState(data=r_d, state=r_s))
                y = x.reset(reset_detector_states=a, reset_recording_state=b)
                return y.fields, y.detector_states, y.recording_state.data, y.recording_state.state, y.inv_permittivities, y.inv_permeabilities
            (of, od, ord_, ors, oie, oim), _ = jx.call(f, fld, ds, rd, rs)
            tag = f"reset(det={a},rec={b})"

            def replay_for(pick, want_zero, a=a, b=b):
                def replay(m):
                    conc = jax.tree_util.tree_map(lambda x: jnp.asarray(model_array(m, x)), (fld, ds, rd, rs), is_leaf=jx.is_obj)
                    out = f(*conc)
                    worst = 0.0
                    for x, y in zip(jax.tree_util.tree_leaves(out[pick]), jax.tree_util.tree_leaves(conc[pick])):
                        x, y = np.asarray(x), np.asarray(y)
                        if x.size:
                            worst = max(worst, float(np.max(np.abs(x if want_zero else x - y))))
                    return worst > 1e-12, dict(worst_abs=worst, options=dict(reset_detector_states=a, reset_recording_state=b))
                return replay
            for i, x in enumerate(flat(of)):
                c.prove_eq(f"{tag}: field leaf {i} is zero", x, np.zeros(np.shape(x)), [], replay_for(0, True), key="reset-options:fields")
            for i, (x, y) in enumerate(zip(flat(od), lD)):
                c.prove_eq(f"{tag}: detector leaf {i}", x, np.zeros(np.shape(x)) if a else y, [], replay_for(1, a), key="reset-options:detector_states")
            for i, (x, y) in enumerate(zip(flat(ord_) + flat(ors), lR + lS)):
                c.prove_eq(f"{tag}: recording leaf {i}", x, np.zeros(np.shape(x)) if b else y, [], replay_for(2, b) if i < len(lR) else replay_for(3, b), key="reset-options:recording_state")
            c.prove_eq(f"{tag}: keeps inverse permittivities", oie, np.asarray(arr.inv_permittivities), [], None, key="reset-options:materials")
            c.prove_eq(f"{tag}: keeps inverse permeabilities", oim, np.asarray(arr.inv_permeabilities), [], None, key="reset-options:materials")
    v = [x for l in lF for x in l.reshape(-1) if sc.is_symbolic_scalar(x)]
    c.witness("leftover field values are arbitrary", sc.ne(v[0], 0), [])
