"""C10 -- fields and linear detector records are linear in source amplitude factors and the initial state; quadratic
records scale with the square of a common amplitude factor (E1).

The amplitude factor of every source is made a tracer (``aset("static_amplitude_factor", a_k)`` inside the traced
function); T forward steps with detector recording are interpreted with a_k and the initial E, H symbolic.
Linearity is asserted through z3 substitution into the same term:  F(a, x) == sum_k a_k F(e_k, 0) + F(0, x).
"""
from __future__ import annotations

import time

import jax
import jax.numpy as jnp
import numpy as np
import z3

import fdtdx
from fdtdx.fdtd.forward import forward

from .. import jx2smt as jx
from .. import sc
from ..core import Inconclusive, model_array, model_value
from . import _run

META = dict(
    functions=["fdtd.forward.forward", "fdtd.update.update_E/update_H (source injection)", "PointDipoleSource.update_E/update_H", "TFSFPlaneSource.update_E/update_H",
               "LinearlyPolarizedPlaneSource (Uniform/Gaussian)", "FieldDetector.update", "PhasorDetector.update", "EnergyDetector.update", "PoyntingFluxDetector.update"],
    assumptions=["reals for floats", "materials, boundaries, profiles, switches concrete (placed scene); quantified: amplitude factors and initial E, H"],
    outside="ModePlaneSource (scipy eigen-solver), T and shapes beyond the bound",
    bounds=dict(quick=dict(T=3), thorough=dict(T=6)),
)


def cases(tier, seed):
    T = 3 if tier == "quick" else 6
    out = []
    scenes = [("pml-4src", (3, 3, 6), True, ("dipole", "plane", "mdipole", "gauss")), ("periodic-2src", (3, 2, 4), False, ("dipole", "mdipole"))]
    # a dispersive slab anywhere in the volume switches the plane sources to their temporal-filter injection branch
    scenes.append(("pml-dispersive-plane", (3, 3, 6), True, ("plane", "gauss")))
    if tier != "quick":
        scenes.append(("pml-xy-periodic-gauss", (4, 3, 6), True, ("gauss", "plane")))
    for nm, shape, pml, src in scenes:
        out.append(dict(name=f"linear-{nm}", kind="linear", shape=shape, pml=pml, src=src, T=T))
        out.append(dict(name=f"quadratic-{nm}", kind="quadratic", shape=shape, pml=pml, src=src, T=T))
    return out


def _subst(v, pairs):
    if isinstance(v, sc.Cx):
        return sc.Cx(_subst(v.re, pairs), _subst(v.im, pairs))
    if not sc.isz(v):
        return v
    return z3.simplify(z3.substitute(v, *pairs))


def run_case(c, case):
    shape, T = tuple(case["shape"]), case["T"]
    c.functions.update(META["functions"])
    c.bounds.update(T=T, shape=list(shape))
    extra = [_run.lorentz_slab(shape, shape[2] - 3)] if "dispersive" in case["name"] else []
    S = _run.scene(shape, T, pml=case["pml"], src_kinds=case["src"], extra=extra)
    arr, oc, cfg, key = S["arrays"], S["objects"], S["config"], S["key"]
    names = [s.name for s in oc.sources]
    fsh = arr.fields.E.shape
    lin_det = [d.name for d in oc.detectors if isinstance(d, (fdtdx.FieldDetector, fdtdx.PhasorDetector))]
    quad_det = [d.name for d in oc.detectors if isinstance(d, (fdtdx.EnergyDetector, fdtdx.PoyntingFluxDetector))]

    def run(E, H, amps, only=None):
        ol = []
        for o in oc.object_list:
            if o.name in names:
                if only is not None and o.name != only:
                    continue  # a different source SET: every other source removed from the scene, not merely scaled by 0
                o = o.aset("static_amplitude_factor", amps[names.index(o.name)])
            ol.append(o)
        oc2 = oc.aset("object_list", ol)
        st = (jnp.asarray(0, dtype=jnp.int32), arr.aset("fields->E", E).aset("fields->H", H))
        for _ in range(T):
            st = forward(st, cfg, oc2, key, True, False, True)
        return st[1].fields.E, st[1].fields.H, st[1].detector_states

    runj = jax.jit(run)
    rng = np.random.default_rng(c.seed + 11)
    K = len(names)
    if case["kind"] == "linear":
        E, H, amps = jx.symarr("E", fsh), jx.symarr("H", fsh), jx.symarr("a", (K,))
        c.symvars += E.size + H.size + K
        t0 = time.time()
        (Ef, Hf, ds), tr = jx.call(run, E, H, amps)
        c.interp_s += time.time() - t0
        conc = (rng.normal(size=fsh), rng.normal(size=fsh), rng.normal(size=(K,)))
        want = runj(*[jnp.asarray(x) for x in conc])
        got = tr(*[jx.lift(x) for x in conc])
        c.validate(jx.to_numeric(got[0]), np.asarray(want[0]), "E after T steps")
        xvars = [v for v in list(E.reshape(-1)) + list(H.reshape(-1))]
        avars = list(amps.reshape(-1))
        zero_x = [(v, z3.RealVal(0)) for v in xvars]
        outs = [("E", Ef), ("H", Hf)] + [(f"{n}.{k}", ds[n][k]) for n in lin_det for k in sorted(ds[n])]

        def replay_for(label, getter):
            def replay(m):
                e, h, a = model_array(m, E), model_array(m, H), model_array(m, amps)
                full = getter(runj(jnp.asarray(e), jnp.asarray(h), jnp.asarray(a)))
                acc = getter(runj(jnp.zeros(fsh), jnp.zeros(fsh), jnp.zeros(K))) * 0 + getter(runj(jnp.asarray(e), jnp.asarray(h), jnp.zeros(K)))
                for k in range(K):
                    ek = np.zeros(K)
                    ek[k] = 1.0
                    acc = acc + a[k] * getter(runj(jnp.zeros(fsh), jnp.zeros(fsh), jnp.asarray(ek)))
                res = float(np.max(np.abs(np.asarray(full) - np.asarray(acc)))) / (1.0 + float(np.max(np.abs(np.asarray(full)))))
                return res > 1e-7, dict(output=label, rel_residual=res, amps=a)
            return replay

        lin_parts = {}
        for label, F in outs:
            F = jx.lift(F)
            if label in ("E", "H"):
                getter = (lambda o, i=0 if label == "E" else 1: o[i])
            else:
                n, k = label.split(".")
                getter = (lambda o, n=n, k=k: o[2][n][k])
            parts = []
            for kk in range(K):
                pairs = zero_x + [(a, z3.RealVal(1 if j == kk else 0)) for j, a in enumerate(avars)]
                parts.append(jx.ew(lambda v, pairs=pairs: _subst(v, pairs), F))
            px = jx.ew(lambda v: _subst(v, [(a, z3.RealVal(0)) for a in avars]), F)
            rhs = px
            for kk in range(K):
                rhs = jx.ew(sc.add, rhs, jx.ew(lambda g, a=avars[kk]: sc.mul(a, g), parts[kk]))
            c.prove_eq(f"{label} == sum a_k F(e_k,0) + F(0,x)", F, rhs, [], replay_for(label, getter), key=f"linearity:{label.split('.')[0]}")
            if label in ("E", "H"):
                lin_parts[label] = (parts, px)
        # superposition across source SETS: the scene with only source k present must give a_k F(e_k,0) + F(0,x), with
        # F(e_k,0) taken from the full scene (a source must not gate or overwrite what another source injects)
        for kk, nm in enumerate(names):
            t0 = time.time()
            (Ek, Hk, _dk), _trk = jx.call(lambda E_, H_, a_, nm=nm: run(E_, H_, a_, only=nm), E, H, amps)
            c.interp_s += time.time() - t0
            rk = jax.jit(lambda E_, H_, a_, nm=nm: run(E_, H_, a_, only=nm))

            def replay_set(m, kk=kk, rk=rk, nm=nm):
                e, h, a = model_array(m, E), model_array(m, H), model_array(m, amps)
                ak = np.zeros(K)
                ak[kk] = a[kk]
                alone = rk(jnp.asarray(e), jnp.asarray(h), jnp.asarray(a))
                inscene = runj(jnp.asarray(e), jnp.asarray(h), jnp.asarray(ak))
                res = max(float(np.max(np.abs(np.asarray(alone[i]) - np.asarray(inscene[i])))) / (1.0 + float(np.max(np.abs(np.asarray(inscene[i]))))) for i in (0, 1))
                return res > 1e-7, dict(source=nm, rel_residual=res, note="scene with only this source vs. full scene with every other amplitude factor 0")
            for label, Fk in (("E", Ek), ("H", Hk)):
                parts, px = lin_parts[label]
                rhs = jx.ew(sc.add, px, jx.ew(lambda g, a=avars[kk]: sc.mul(a, g), parts[kk]))
                c.prove_eq(f"{label} of the scene with only {nm} == a_k F(e_k,0) + F(0,x)", jx.lift(Fk), rhs, [], replay_set, key=f"superposition-sets:{label}")
        # twins: every source contributes to some output; the initial state contributes
        used = set(jx.variables_of([Ef, Hf] + [ds[n][k] for n in lin_det for k in ds[n]]))
        missing = [str(a) for a in avars if str(a) not in used]
        if missing:
            raise Inconclusive(f"amplitude factors {missing} never reach the fields within T steps (vacuous for those sources)")
        c.witness("sources and state both matter", z3.And(avars[0] != 0, xvars[0] != 0), [])
        return

    # quadratic records: all sources scaled by a common factor s, zero initial state
    s = jx.symarr("s", ())
    base = rng.uniform(0.5, 1.5, size=(K,)).round(3)
    c.symvars += 1

    def runq(s):
        return run(jnp.zeros(fsh), jnp.zeros(fsh), s * jnp.asarray(base))[2]

    t0 = time.time()
    ds, tr = jx.call(runq, s)
    c.interp_s += time.time() - t0
    sv = s[()]
    rq = jax.jit(runq)
    if not quad_det:
        raise Inconclusive("no quadratic detector in scene")
    for n in quad_det:
        for k in sorted(ds[n]):
            F = jx.lift(ds[n][k])
            one = jx.ew(lambda v: _subst(v, [(sv, z3.RealVal(1))]), F)

            def replay(m, n=n, k=k):
                val = model_value(m, sv)
                a, b = np.asarray(rq(jnp.asarray(val))[n][k]), np.asarray(rq(jnp.asarray(1.0))[n][k])
                res = float(np.max(np.abs(a - val * val * b))) / (1e-300 + float(np.max(np.abs(a))) + float(np.max(np.abs(b))))
                return res > 1e-7, dict(s=val, rel_residual=res, detector=n)
            c.prove_eq(f"{n}.{k}(s) == s^2 * {n}.{k}(1)", F, jx.ew(lambda g: sc.mul(sc.mul(sv, sv), g), one), [], replay, key=f"quadratic:{n}")
    anysym = [v for n in quad_det for k in ds[n] for v in jx.lift(ds[n][k]).reshape(-1) if sc.is_symbolic_scalar(v)]
    if not anysym:
        raise Inconclusive("quadratic records never see the sources within T steps")
    c.witness("a quadratic record is non-zero for s != 0", z3.And(sc.ne(anysym[0], 0), sv != 0), [])
