"""C24 -- binary median filter and pillar discretisation match their definitions  (E1).

Median part: ``binary_median_filter`` / ``BinaryMedianFilterModule`` are traced at a small shape and interpreted with every
voxel a free binary unknown (z3 Bool for bool arrays, a real constrained to {0,1} for float arrays).  Oracle (from the
property text): the output voxel is 1 iff more than half of the odd-sized box around it -- taken from the array padded as
configured -- is 1.  The padded array is rebuilt independently here (edges in the order min_x,max_x,...,max_z, each
applied to the array padded so far; "constant" fills with the edge's value, "edge" repeats the outermost layer).

Pillar part: ``PillarDiscretization.__call__`` is interpreted with every input voxel a free real.  Oracle: the output column
is one of the allowed columns (background only as a run at the top end of the column; one non-background material per
column when requested) and no allowed column has a smaller configured distance to the input column.
"""
from __future__ import annotations

import itertools
import time
from fractions import Fraction

import jax
import jax.numpy as jnp
import numpy as np
import z3

import fdtdx
from fdtdx import Material, SimulationConfig, UniformGrid
from fdtdx.core.misc import PaddingConfig
from fdtdx.objects.device.parameters import discrete as _discrete
from fdtdx.objects.device.parameters.binary_transform import binary_median_filter
from fdtdx.objects.device.parameters.discrete import BinaryMedianFilterModule
from fdtdx.objects.device.parameters.discretization import PillarDiscretization
from fdtdx.typing import ParameterType

from .. import jx2smt as jx
from .. import sc
from ..core import Inconclusive, model_array, model_value

META = dict(
    functions=["objects.device.parameters.binary_transform.binary_median_filter", "core.misc.advanced_padding",
               "objects.device.parameters.discrete.BinaryMedianFilterModule.__call__", "core.jax.ste.straight_through_estimator",
               "objects.device.parameters.discretization.PillarDiscretization.init_module/__call__",
               "objects.device.parameters.utils.compute_allowed_indices", "objects.device.parameters.utils.nearest_index",
               "materials.compute_allowed_permittivities", "core.misc.get_background_material_name"],
    assumptions=[
        "reals instead of floats (the float32 box average and its rounding are exact for 0/1 data and odd box sizes <= 45)",
        "median: inputs are binary (Bool, or reals restricted to {0,1}); padding edges are applied in the order min_x,max_x,min_y,max_y,min_z,max_z, "
        "each to the array padded so far (this fixes the corner values); pad widths >= kernel radius",
        "median: an obligation is first asked over the real relaxation 0<=x<=1 of the binary inputs (stronger statement, linear arithmetic); only if that "
        "is not unsat is the exact binary query asked (whose model is replayed)",
        "pillar: isotropic materials (concrete seeded decimals), inputs boxed to |x|<=4, 1e-9 slack on distance comparisons (float64 rounding of 1/eps); "
        "ties between allowed columns: any minimiser accepted",
        "pillar, 'permittivity_differences_plus_average_permittivity' metric = mean |diff(x) - diff(v)| + |mean x - mean v|; for height-1 columns (no differences) "
        "the euclidean distance is the configured one",
        "pillar, euclidean metric: sqrt is an uninterpreted function constrained to be order-preserving on the non-negative arguments that occur; "
        "the interpreter's sqrt-domain side conditions (sum of squares >= 0) are assumed",
    ],
    outside="padding modes other than constant/edge; even kernel sizes; pad widths smaller than the kernel radius; pillar discretisation with anisotropic "
            "materials (the real code does not broadcast (M,3) tables against columns) ; column heights > 3 (quick) / > 4 (thorough); VJP of either transform",
    bounds=dict(quick=dict(median="shapes (3,3,4),(3,2,3),(1,3,3); kernels from {1,3}^3; two exported padding configs + 2 custom", pillar="2-3 materials, height 1-3, all 3 axes"),
                thorough=dict(median="adds shapes (4,1,2),(2,4,3), kernels with 5, all 8 kernels from {1,3}^3", pillar="adds 4 materials, height 4, named background")),
    timeout_ms=dict(quick=60000, thorough=300000),
)

# ------------------------------------------------------------------------------------------------------------ cases
_PADS = {
    "bottom_z": lambda: _discrete.BOTTOM_Z_PADDING_CONFIG,
    "bottom_z_repeat": lambda: _discrete.BOTTOM_Z_PADDING_CONFIG_REPEAT,
    "edge2": lambda: PaddingConfig(widths=(2,), modes=("edge",)),
    "mixed": lambda: PaddingConfig(widths=(2, 3, 2, 2, 4, 2), modes=("constant", "edge", "edge", "constant", "edge", "constant"), values=(0, 0, 0, 1, 0, 1)),
    "zeros_default": lambda: PaddingConfig(widths=(2,), modes=("constant",)),
}
_K8 = [list(k) for k in itertools.product((1, 3), repeat=3)]


def cases(tier, seed):
    q = tier == "quick"
    out = []

    def med(name, pad, dtype, via, shapes, kernels, repeats=1):
        out.append(dict(name=name, kind="median", pad=pad, dtype=dtype, via=via, shapes=[list(s) for s in shapes], kernels=[list(k) for k in kernels], repeats=repeats))

    med("median-bottom_z-bool-fn", "bottom_z", "bool", "function", [(3, 3, 4)] if q else [(3, 3, 4), (2, 4, 3)], [(3, 3, 3), (3, 1, 3), (1, 1, 1)] if q else _K8)
    med("median-bottom_z-float-module", "bottom_z", "float", "module", [(3, 2, 3), (1, 3, 3)] if q else [(3, 2, 3), (1, 3, 3), (4, 1, 2)], [(3, 3, 3), (1, 3, 1)] if q else _K8)
    med("median-repeat-float-fn", "bottom_z_repeat", "float", "function", [(3, 2, 3)], [(3, 3, 3)] if q else [(3, 3, 3), (1, 3, 1), (3, 1, 3)])
    med("median-repeat-bool-fn", "bottom_z_repeat", "bool", "function", [(2, 3, 2)], [(1, 3, 3)] if q else [(1, 3, 3), (3, 3, 1), (3, 3, 3)])
    med("median-mixed-float-fn", "mixed", "float", "function", [(3, 3, 3)] if q else [(3, 3, 3), (2, 4, 3)], [(3, 3, 3), (1, 1, 3), (5, 3, 1)] if q else _K8 + [[5, 3, 1], [1, 5, 3], [3, 1, 5]])
    med("median-edge2-bool-fn", "edge2", "bool", "function", [(2, 3, 3)] if q else [(2, 3, 3), (4, 1, 2)], [(3, 3, 1), (1, 5, 1)] if q else _K8 + [[1, 5, 1], [5, 1, 3]])
    med("median-zeros-float-module2", "zeros_default", "float", "module", [(3, 1, 3)], [(3, 1, 1), (1, 1, 3)], repeats=2)
    if not q:
        med("median-zeros-float-fn", "zeros_default", "float", "function", [(3, 3, 3), (1, 3, 3)], _K8 + [[5, 1, 1]])

    def pil(name, eps, cfgs):
        out.append(dict(name=name, kind="pillar", eps=eps, cfgs=cfgs))

    E2, E3, E4 = [11.7, 1.0], [2.25, 1.0, 11.7], [4.0, 1.0, 12.25, 2.1]
    EU, PD = "euclidean", "permittivity_differences_plus_average_permittivity"
    # cfg: (axis, shape, single_polymer_columns, metric, background name or None)
    pil("pillar-2mat", E2, [(2, (2, 1, 3), False, EU, None), (0, (3, 2, 1), True, PD, None), (1, (1, 2, 2), False, PD, None), (2, (1, 2, 1), False, PD, None)]
        + ([] if q else [(1, (2, 3, 1), True, EU, None), (0, (2, 1, 2), False, EU, "m0"), (2, (1, 1, 4), False, PD, None), (2, (1, 1, 4), False, EU, None)]))
    pil("pillar-3mat-euclid", E3, [(2, (2, 1, 3), False, EU, None), (0, (2, 1, 2), True, EU, None)]
        + ([] if q else [(1, (1, 3, 2), True, EU, None), (1, (2, 2, 1), False, EU, "m2"), (0, (1, 2, 1), False, EU, None)]))
    pil("pillar-3mat-pd", E3, [(0, (3, 1, 1), False, PD, None), (1, (1, 2, 2), True, PD, None)]
        + ([] if q else [(2, (1, 2, 3), True, PD, None), (2, (2, 1, 2), False, PD, "m2"), (1, (1, 1, 1), False, PD, None)]))
    if not q:
        pil("pillar-4mat", E4, [(2, (1, 1, 2), False, EU, None), (0, (2, 1, 1), False, PD, None), (1, (1, 3, 1), True, PD, None), (2, (1, 2, 3), True, EU, None)])
        rng = np.random.default_rng(2400 + seed)
        vals = sorted({float(v) for v in np.round(rng.uniform(1.0, 12.0, size=6), 3)})[:3]
        vals = [vals[1], vals[2], vals[0]]
        pil("pillar-3mat-seeded", vals, [(2, (2, 1, 3), False, PD, None), (1, (1, 3, 1), False, EU, None), (0, (2, 2, 1), True, PD, None)])
    return out


def run_case(c, case):
    c.functions.update(META["functions"])
    if case["kind"] == "median":
        return _median(c, case)
    return _pillar(c, case)


# --------------------------------------------------------------------------------------------------- median: oracle
def _expand(seq, n, default=None):
    if seq is None:
        return [default] * n
    seq = list(seq)
    return seq * n if len(seq) == 1 else seq


def oracle_pad(a, pcfg, radii):
    """the array padded as configured, out to the kernel radius (object array of scalars)."""
    nd = a.ndim
    modes = _expand(pcfg.modes, 2 * nd)
    vals = _expand(pcfg.values, 2 * nd, 0)
    widths = _expand(pcfg.widths, 2 * nd)
    for edge in range(2 * nd):
        ax, end = edge // 2, edge % 2
        r = radii[ax]
        if r == 0:
            continue
        if widths[edge] < r:
            raise Inconclusive("pad width smaller than the kernel radius (outside the claim)")
        if modes[edge] == "constant":
            shp = list(a.shape)
            shp[ax] = r
            slab = np.empty(shp, dtype=object)
            slab[...] = int(vals[edge])
        elif modes[edge] == "edge":
            sl = [slice(None)] * nd
            sl[ax] = slice(a.shape[ax] - 1, None) if end else slice(0, 1)
            slab = np.repeat(a[tuple(sl)], r, axis=ax)
        else:
            raise Inconclusive(f"padding mode {modes[edge]} not covered")
        a = np.concatenate([a, slab] if end else [slab, a], axis=ax)
    return a


def oracle_median(a, pcfg, ks):
    """object array of (count, K) -> majority: returns array of 'count of ones in the box' scalars."""
    radii = [k // 2 for k in ks]
    P = oracle_pad(a, pcfg, radii)
    cnt = np.empty(a.shape, dtype=object)
    for idx in np.ndindex(*a.shape):
        box = P[tuple(slice(i, i + k) for i, k in zip(idx, ks))].reshape(-1)
        s = 0
        for v in box:
            s = sc.add(s, v)
        cnt[idx] = s
    return cnt


def _concrete_median(xb, pcfg, ks):
    a = np.empty(xb.shape, dtype=object)
    for idx in np.ndindex(*xb.shape):
        a[idx] = int(xb[idx])
    cnt = oracle_median(a, pcfg, ks)
    K = int(np.prod(ks))
    return np.array([[2 * int(v) > K] for v in cnt.reshape(-1)]).reshape(xb.shape)


def _prove_binary(c, name, claim, xs, extra_assume, replay, key):
    """binary unknowns xs (z3 reals): real relaxation first (sound: {0,1}^n is a subset of [0,1]^n), exact binary query otherwise."""
    bounds = [z3.And(x >= 0, x <= 1) for x in xs]
    s = z3.Solver()
    s.set("timeout", int(min(c.timeout_ms, 20000)))
    s.add(*bounds)
    s.add(*extra_assume)
    s.add(z3.Not(claim))
    t0 = time.time()
    r = s.check()
    c.solver_s += time.time() - t0
    c.queries += 1
    if r == z3.unsat:
        c.extra["relaxed_unsat"] = c.extra.get("relaxed_unsat", 0) + 1
        return c.prove(name, claim, bounds + list(extra_assume), replay, key)
    c.extra["exact_binary_queries"] = c.extra.get("exact_binary_queries", 0) + 1
    return c.prove(name, claim, bounds + [z3.Or(x == 0, x == 1) for x in xs] + list(extra_assume), replay, key)


def _median(c, case):
    pcfg = _PADS[case["pad"]]()
    isbool = case["dtype"] == "bool"
    reps = case.get("repeats", 1)
    kbase = f"median:{case['pad']}:{case['dtype']}:{case['via']}" + (f":x{reps}" if reps > 1 else "")
    rng = np.random.default_rng(c.seed + 24)
    validated = False
    c.bounds.update(shapes=case["shapes"], kernels=case["kernels"], padding=case["pad"])
    cfg = SimulationConfig(time=100e-15, grid=UniformGrid(spacing=500e-9), backend="cpu", dtype=jnp.float64)
    mats = {"air": Material(permittivity=1.0), "si": Material(permittivity=11.7)}
    for shape in [tuple(s) for s in case["shapes"]]:
        for ks in [tuple(k) for k in case["kernels"]]:
            tag = "x".join(map(str, shape)) + "/k" + "".join(map(str, ks))
            K = int(np.prod(ks))
            if case["via"] == "module":
                mod = BinaryMedianFilterModule(padding_cfg=pcfg, kernel_sizes=ks, num_repeats=reps)
                mod = mod.init_module(config=cfg, materials=mats, matrix_voxel_grid_shape=shape, single_voxel_size=(1e-6,) * 3, output_shape={"p": shape})
                mod = mod.init_type({"p": ParameterType.BINARY})
                f = lambda a, mod=mod: mod({"p": a})["p"]
            else:
                f = lambda a, ks=ks: binary_median_filter(a, ks, pcfg)
            # the binary unknowns: reals x in {0,1}; bool-typed runs see the Bool (x == 1) ... expressed through fresh Bools b with x := ite(b,1,0) abstracted back
            xs = jx.symarr("v" + tag.replace("/", "_"), shape)
            if isbool:
                bs = jx.symarr("b" + tag.replace("/", "_"), shape, sort="bool")
                inp = bs
            else:
                inp = xs
            c.symvars += xs.size
            t0 = time.time()
            out, tr = jx.call(f, inp)
            c.interp_s += time.time() - t0
            out = jx.lift(out)
            if out.shape != shape:
                c.fail_concrete(f"{tag}: output shape", dict(got=list(out.shape), want=list(shape)), key=kbase + ":shape")
                continue
            if not validated:
                xc = rng.random(shape) > 0.5
                conc = xc if isbool else xc.astype(np.float64)
                lifted = np.empty(shape, dtype=object)
                for idx in np.ndindex(*shape):
                    lifted[idx] = bool(xc[idx]) if isbool else int(xc[idx])
                c.validate(np.asarray(jx.to_numeric(tr(lifted)), dtype=np.float64), np.asarray(f(jnp.asarray(conc)), dtype=np.float64), "median filter")
                validated = True
            link = []
            if isbool:
                # abstract every ite(b,1,0) of the output terms by the real x; Bools that survive are linked explicitly
                subs = [(z3.If(b, z3.RealVal(1), z3.RealVal(0)), x) for b, x in zip(bs.reshape(-1), xs.reshape(-1))]
                o2 = np.empty(shape, dtype=object)
                for idx in np.ndindex(*shape):
                    o2[idx] = z3.substitute(sc.toz(out[idx]), *subs) if sc.isz(out[idx]) else out[idx]
                left = set(jx.variables_of([o2])) & {str(b) for b in bs.reshape(-1)}
                if left:
                    link = [b == (x == 1) for b, x in zip(bs.reshape(-1), xs.reshape(-1)) if str(b) in left]
                out = o2
            # repeated application: the oracle is the majority rule applied `reps` times
            cur = xs
            cnt = None
            for _ in range(reps):
                cnt = oracle_median(cur, pcfg, ks)
                cur = np.empty(shape, dtype=object)
                for idx in np.ndindex(*shape):
                    cur[idx] = sc.ite(sc.gt(sc.mul(2, cnt[idx]), K), 1, 0)
            want = cur

            def replay(m, f=f, xs=xs, ks=ks):
                xv = model_array(m, xs)
                if not np.all((xv == 0) | (xv == 1)):
                    raise Inconclusive("witness is not binary")
                xb = xv.astype(bool)
                got = np.asarray(f(jnp.asarray(xb if isbool else xv.astype(np.float64))))
                exp = xb
                for _ in range(reps):
                    exp = _concrete_median(exp, pcfg, ks)
                bad = got.astype(np.float64) != exp.astype(np.float64)
                return bool(bad.any()), dict(shape=list(xv.shape), kernel=list(ks), padding=case["pad"], dtype=case["dtype"], via=case["via"], x=xv, got=got.astype(np.float64),
                                             majority=exp.astype(np.float64), first_bad=[int(i) for i in np.argwhere(bad)[0]] if bad.any() else None)

            vio0 = len(c.violations)
            for idx in np.ndindex(*shape):
                o, w = out[idx], want[idx]
                if sc.isz(o) and z3.is_bool(o):
                    claim = sc.toz(o) == sc.toz(sc.eq(w, 1))
                else:
                    claim = sc.eq(o, w)
                if not sc.isz(claim):
                    c.prove(f"{tag}:{list(idx)} majority", bool(claim), (), replay, key=kbase)
                    continue
                _prove_binary(c, f"{tag}:{list(idx)} majority", claim, list(xs.reshape(-1)), link, replay, kbase)
                if len(c.violations) > vio0:
                    break  # one replayed witness per (shape, kernel)
            # vacuity twins: the filter does something (K > 1: some voxel's output can differ from that voxel's input)
            binc = [z3.Or(x == 0, x == 1) for x in xs.reshape(-1)] + link

            def _isone(o):
                return sc.toz(o) if (sc.isz(o) and z3.is_bool(o)) else sc.toz(sc.eq(o, 1))

            def _oracle_changes(xb):
                e = xb
                for _ in range(reps):
                    e = _concrete_median(e, pcfg, ks)
                return bool((e != xb).any())

            cands = []
            for base, spot in ((0, None), (1, None), (0, 1), (1, 0)):
                xb = np.full(shape, bool(base))
                if spot is not None:
                    xb[tuple(n // 2 for n in shape)] = bool(spot)
                cands.append(xb)
            if K > 1 and any(_oracle_changes(xb) for xb in cands):
                # asked on four concrete candidate inputs (all 0, all 1, a single 1, a single 0) so that the solver only has to evaluate
                mid = tuple(n // 2 for n in shape)
                pats = []
                for base, spot in ((0, None), (1, None), (0, 1), (1, 0)):
                    pats.append(z3.And(*[xs[i] == (spot if (spot is not None and i == mid) else base) for i in np.ndindex(*shape)]))
                c.witness(f"{tag}: some output voxel can differ from its input voxel",
                          z3.And(z3.Or(*pats), z3.Or(*[z3.Xor(_isone(out[i]), xs[i] == 1) for i in np.ndindex(*shape)])), binc)
            else:
                c.witness(f"{tag}: output 1 reachable", _isone(out[tuple(0 for _ in shape)]), binc)


# --------------------------------------------------------------------------------------------------- pillar: oracle
def allowed_columns(L, M, bg, single):
    """columns over material indices 0..M-1: background only as a run at the top (high-index) end; at most one
    non-background material when `single`."""
    out = []
    for col in itertools.product(range(M), repeat=L):
        k = L
        while k > 0 and col[k - 1] == bg:
            k -= 1
        if any(m == bg for m in col[:k]):
            continue
        if single and len(set(col[:k])) > 1:
            continue
        out.append(col)
    return out


def column_distance(xcol, a, vals, metric):
    """the configured distance between an input column and the inverse permittivities of allowed column a (squared for euclidean)."""
    L = len(a)
    v = [vals[m] for m in a]
    if metric == "euclidean" or L == 1:
        d = 0
        for x, vv in zip(xcol, v):
            e = sc.sub(x, vv)
            d = sc.add(d, sc.mul(e, e))
        return d
    d = 0
    for l in range(L - 1):
        d = sc.add(d, sc.abs_(sc.sub(sc.sub(xcol[l + 1], xcol[l]), v[l + 1] - v[l])))
    d = sc.div(d, L - 1)
    mx = 0
    for x in xcol:
        mx = sc.add(mx, x)
    return sc.add(d, sc.abs_(sc.sub(sc.div(mx, L), sum(v) / L)))


def _sqrt_apps(terms):
    acc, seen = {}, set()
    st = [t for t in terms if sc.isz(t)]
    while st:
        u = st.pop()
        if u.get_id() in seen:
            continue
        seen.add(u.get_id())
        if z3.is_app(u) and u.decl().name() == "uf_sqrt":
            acc[u.get_id()] = u
        st.extend(u.children())
    return list(acc.values())


def _pillar(c, case):
    eps = case["eps"]
    M = len(eps)
    order = sorted(range(M), key=lambda i: eps[i])  # index = rank by ascending permittivity
    vals = [1 / Fraction(str(eps[i])) for i in order]
    names = [f"m{i}" for i in range(M)]
    cfg = SimulationConfig(time=100e-15, grid=UniformGrid(spacing=500e-9), backend="cpu", dtype=jnp.float64)
    mats = {n: Material(permittivity=e) for n, e in zip(names, eps)}
    tol = Fraction(1, 10**9)
    rng = np.random.default_rng(c.seed + 240)
    c.bounds.update(materials=M, configs=[list(map(str, k)) for k in case["cfgs"]])
    twin_nonbg = False
    for (axis, shape, single, metric, bgname) in case["cfgs"]:
        shape = tuple(shape)
        L = shape[axis]
        tag = f"ax{axis}-{'x'.join(map(str, shape))}-{'single' if single else 'multi'}-{metric[:4]}-bg{bgname or 'min'}"
        kbase = f"pillar:{metric[:4]}:{'single' if single else 'multi'}"
        bg = 0 if bgname is None else order.index(names.index(bgname))
        A = allowed_columns(L, M, bg, single)
        t = PillarDiscretization(axis=axis, single_polymer_columns=single, distance_metric=metric, background_material=bgname)
        try:
            t = t.init_module(config=cfg, materials=mats, matrix_voxel_grid_shape=shape, single_voxel_size=(1e-6,) * 3, output_shape={"p": shape})
            t = t.init_type({"p": ParameterType.CONTINUOUS})
            f = lambda x, t=t: t({"p": x})["p"]
            xc = rng.uniform(-0.2, 1.2, size=shape)
            oc = np.asarray(f(jnp.asarray(xc)))
        except Exception as ex:  # noqa: BLE001
            c.fail_concrete(f"{tag}: raises on a legal configuration", dict(exception=f"{type(ex).__name__}: {str(ex)[:200]}", materials=eps), key=kbase + ":exception")
            continue
        if oc.shape != shape:
            c.fail_concrete(f"{tag}: output shape", dict(got=list(oc.shape), want=list(shape)), key=kbase + ":shape")
            continue
        x = jx.symarr("x" + tag.replace("-", "_"), shape)
        c.symvars += x.size
        it = jx.Interp()
        t0 = time.time()
        out, tr = jx.call(f, x, interp=it)
        c.interp_s += time.time() - t0
        out = jx.lift(out)
        c.validate(jx.to_numeric(tr(jx.fracarr(xc))), oc, "pillar discretisation")
        side = [cond for (k, cond, _) in it.side if k == "sqrt_domain"]
        other = [k for (k, _, _) in it.side if k not in ("sqrt_domain", "gather_in_range")]
        if other:
            raise Inconclusive(f"unexpected definedness side conditions: {sorted(set(other))}")
        for (k, cond, _) in it.side:
            if k == "gather_in_range":
                c.prove(f"{tag}: argmin index within the allowed table", cond, side, None, key=kbase + ":index")
        xm = np.moveaxis(x, axis, -1).reshape(-1, L)
        om = np.moveaxis(out, axis, -1).reshape(-1, L)

        def replay(m, f=f, x=x, A=A, axis=axis, L=L, metric=metric):
            xv = model_array(m, x)
            got = np.asarray(f(jnp.asarray(xv, dtype=jnp.float64)))
            xcols = np.moveaxis(xv, axis, -1).reshape(-1, L)
            gcols = np.moveaxis(got, axis, -1).reshape(-1, L)
            fv = [float(v) for v in vals]
            for ci in range(xcols.shape[0]):
                ds = {}
                for a in A:
                    va = np.array([fv[k] for k in a])
                    if metric == "euclidean" or L == 1:
                        ds[a] = float(np.sqrt(np.sum((xcols[ci] - va) ** 2)))
                    else:
                        ds[a] = float(np.mean(np.abs(np.diff(xcols[ci]) - np.diff(va))) + abs(xcols[ci].mean() - va.mean()))
                g = tuple(int(v) for v in gcols[ci]) if np.all(gcols[ci] == np.round(gcols[ci])) else tuple(gcols[ci])
                best = min(ds.values())
                if g not in ds:
                    return True, dict(reason="output column not allowed", column=ci, x_col=xcols[ci], got=list(g), allowed=[list(a) for a in A], x=xv, out=got)
                if ds[g] > best + 1e-7:
                    return True, dict(reason="output column not nearest", column=ci, x_col=xcols[ci], got=list(g), dist_got=ds[g], dist_min=best,
                                      nearest=list(min(ds, key=ds.get)), x=xv, out=got, metric=metric, materials=eps)
            return False, dict(x=xv, out=got)

        for ci in range(xm.shape[0]):
            D = {a: column_distance(xm[ci], a, vals, metric) for a in A}
            alts = []
            for a in A:
                conj = [sc.toz(sc.eq(om[ci][l], a[l])) for l in range(L)] + [sc.toz(sc.le(D[a], sc.add(D[b], tol))) for b in A if b != a]
                alts.append(z3.And(*conj))
            claim = z3.Or(*alts)
            apps = _sqrt_apps(list(om[ci]))
            ax = []
            for i in range(len(apps)):
                for j in range(len(apps)):
                    if i != j:
                        ai, aj = apps[i].arg(0), apps[j].arg(0)
                        ax.append(z3.Implies(z3.And(ai >= 0, ai < aj), apps[i] < apps[j]))
            box = [z3.And(v >= -4, v <= 4) for v in xm[ci]]
            c.prove(f"{tag}: column {ci} allowed and nearest", claim, box + side + ax, replay, key=kbase + ":nearest")
            if ci == 0:
                # twins: the assumptions are satisfiable with a non-trivial outcome
                nonbg = [a for a in A if any(k != bg for k in a)]
                tgt = nonbg[-1] if nonbg else A[0]
                c.witness(f"{tag}: a non-background column is reachable", z3.And(*[sc.toz(sc.eq(om[0][l], tgt[l])) for l in range(L)]), box + side + ax)
                c.witness(f"{tag}: output differs from input", sc.toz(sc.ne(om[0][0], xm[0][0])), box + side + ax)
