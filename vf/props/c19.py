"""C19 -- nearest-index discretisation (``ClosestIndex``), forward value, shape and VJP  (E1).

Per case (mode x material set) and per shape: the real ``ClosestIndex.__call__`` is traced at that shape and interpreted
with every input voxel a free real.  The oracle is the property text: the returned index is one of 0..M-1 and no other
allowed value is closer to the input (ties: any minimiser is accepted); the allowed values are the integers 0..M-1
(``mapping_from_inverse_permittivities=False``) or the inverse permittivities of the materials in ascending-permittivity
order (``True``, isotropic materials).  The VJP jaxpr (``jax.vjp`` of the same call) is interpreted with input and
cotangent symbolic and must return the cotangent.  A trace-time exception or a changed output shape on a legal input
shape is reported by running the real call concretely (that call is the replay).
"""
from __future__ import annotations

import time
from fractions import Fraction

import jax
import jax.numpy as jnp
import numpy as np
import z3

import fdtdx
from fdtdx import Material, SimulationConfig, UniformGrid
from fdtdx.objects.device.parameters.discretization import ClosestIndex
from fdtdx.typing import ParameterType

from .. import jx2smt as jx
from .. import sc
from ..core import Inconclusive, model_array

META = dict(
    functions=["objects.device.parameters.discretization.ClosestIndex.__call__", "ClosestIndex._get_output_type_impl",
               "core.jax.ste.straight_through_estimator", "materials.compute_allowed_permittivities",
               "materials.compute_ordered_material_name_tuples", "jax.vjp(ClosestIndex.__call__)"],
    assumptions=[
        "reals instead of floats; inverse-permittivity mode: the float64 rounding of 1/eps is allowed for by a 1e-12 slack in the 'no other allowed value is closer' comparison",
        "material sets are concrete (seeded exact decimals, distinct permittivities, shuffled dict order); the input array and the cotangent are the solver-quantified data",
        "ties (input equidistant from two allowed values): either index is accepted",
    ],
    outside="mapping_from_inverse_permittivities=True with anisotropic materials (the statement defines 'nearest' only for isotropic ones there); "
            "shapes beyond the listed ones; float round-off; inf/NaN inputs",
    bounds=dict(quick=dict(materials="2-5 isotropic, 2-3 diagonal", shapes="3-D incl. singleton axes, depth ==, <, > number of materials, 1-D/2-D"),
                thorough=dict(materials="2-5 isotropic (3 seeds), 2-4 diagonal", shapes="adds (3,4,5),(1,1,7),(4,1,3),(5,),(2,6)")),
    timeout_ms=dict(quick=30000, thorough=120000),
)

_SHAPES_Q = [(2, 2, 2), (2, 2, 3), (2, 2, 1), (1, 3, 2), (3, 1, 1), (1, 1, 1), (2, 1, 4), (1, 2, 5), (4,), (2, 3)]
_SHAPES_T = _SHAPES_Q + [(3, 4, 5), (1, 1, 7), (4, 1, 3), (5,), (2, 6)]
TOL = Fraction(1, 10**12)


def _matsets(tier, seed):
    """name -> list of permittivity specs (float = isotropic, 3-tuple = diagonal); dict order deliberately not sorted."""
    rng = np.random.default_rng(1900 + seed)
    sets = {
        "iso2": [11.7, 1.0],
        "iso3": [2.25, 11.7, 1.0],
        "iso4": [4.0, 1.0, 12.25, 2.1],
        "iso5": [3.3, 1.5, 9.0, 1.0, 6.25],
        "diag2": [(2.0, 3.0, 1.5), (1.0, 1.0, 1.0)],
        "diag3": [(5.0, 1.2, 2.0), (1.0, 4.0, 1.0), (2.5, 2.5, 3.0)],
    }
    nseeds = 1 if tier == "quick" else 3
    for s in range(nseeds):
        for M in ((3,) if tier == "quick" else (2, 3, 4, 5)):
            vals = []
            while len(vals) < M:
                v = float(np.round(rng.uniform(1.0, 13.0), 3))
                if all(abs(v - w) > 0.05 for w in vals):
                    vals.append(v)
            sets[f"isoR{M}s{s}"] = vals
    if tier != "quick":
        sets["diag4"] = [(3.0, 1.0, 1.0), (1.5, 2.0, 9.0), (7.0, 7.0, 2.0), (1.0, 1.0, 1.0)]
    return sets


def cases(tier, seed):
    out = []
    shapes = _SHAPES_Q if tier == "quick" else _SHAPES_T
    for name, eps in _matsets(tier, seed).items():
        iso = not isinstance(eps[0], tuple)
        modes = ["round", "inv"] if iso else ["round"]
        if tier == "quick" and name in ("iso4",):
            modes = ["inv"]
        if tier == "quick" and name in ("iso5", "diag2"):
            modes = ["round"]
        for mode in modes:
            out.append(dict(name=f"{mode}-{name}", mode=mode, mats=name, eps=[list(e) if isinstance(e, tuple) else e for e in eps],
                            shapes=[list(s) for s in shapes]))
    return out


def _transform(mode, eps, shape):
    mats = {f"m{i}": Material(permittivity=(tuple(e) if isinstance(e, (list, tuple)) else e)) for i, e in enumerate(eps)}
    cfg = SimulationConfig(time=100e-15, grid=UniformGrid(spacing=500e-9), backend="cpu", dtype=jnp.float64)
    mv = tuple(shape) + (1,) * (3 - len(shape)) if len(shape) <= 3 else tuple(shape[:3])
    t = ClosestIndex(mapping_from_inverse_permittivities=(mode == "inv"))
    t = t.init_module(config=cfg, materials=mats, matrix_voxel_grid_shape=mv, single_voxel_size=(1e-6, 1e-6, 1e-6), output_shape={"p": tuple(shape)})
    t = t.init_type({"p": ParameterType.CONTINUOUS})
    return t


def _allowed(mode, eps):
    """the allowed values in index order, from the property text (independent of fdtdx)."""
    M = len(eps)
    if mode == "round":
        return [Fraction(k) for k in range(M)]
    order = sorted(eps)  # index = rank by ascending permittivity
    return [1 / Fraction(str(e)) for e in order]


def _claim(x, out, vals, tol):
    """out is an index 0..M-1 whose allowed value is (up to tol) at least as close to x as every other allowed value."""
    alts = []
    for m, vm in enumerate(vals):
        dm = sc.abs_(sc.sub(x, vm))
        closer = [sc.le(dm, sc.add(sc.abs_(sc.sub(x, vj)), tol)) for j, vj in enumerate(vals) if j != m]
        a = sc.eq(out, m)
        for cl in closer:
            a = sc.and_(a, cl)
        alts.append(a)
    r = alts[0]
    for a in alts[1:]:
        r = sc.or_(r, a)
    return r


def _oracle_concrete(x, out, vals, tol=1e-9):
    """concrete oracle on float arrays: returns (violated, worst entry info)."""
    v = np.array([float(f) for f in vals])
    x = np.asarray(x, dtype=np.float64)
    out = np.asarray(out, dtype=np.float64)
    if out.shape != x.shape:
        return True, dict(reason="shape", got=list(out.shape), want=list(x.shape))
    bad = None
    for idx in np.ndindex(*x.shape):
        o = out[idx]
        if not (o == int(o) and 0 <= o < len(v)):
            return True, dict(reason="not an index", index=list(idx), x_at=float(x[idx]), out_at=float(o))
        d = np.abs(x[idx] - v)
        if d[int(o)] > d.min() + tol:
            bad = dict(reason="not nearest", index=list(idx), x_at=float(x[idx]), out_at=int(o), nearest=int(np.argmin(d)),
                       dist_out=float(d[int(o)]), dist_min=float(d.min()))
            return True, bad
    return False, {}


def _fail_once(c, name, detail, key):
    """one reported violation per key and case (every further shape hitting the same class is only counted)."""
    if any(v["key"] == key for v in c.violations):
        c.extra[key + " (further shapes)"] = c.extra.get(key + " (further shapes)", 0) + 1
        c.obligations += 1
        return
    c.fail_concrete(name, detail, key)


def run_case(c, case):
    mode, eps = case["mode"], case["eps"]
    iso = not isinstance(eps[0], (list, tuple))
    M = len(eps)
    vals = _allowed(mode, eps)
    tol = 0 if mode == "round" else TOL
    kbase = f"ClosestIndex:{mode}:{'isotropic' if iso else 'diagonal'}"
    c.functions.update(META["functions"])
    c.bounds.update(materials=M, mode=mode, shapes=case["shapes"])
    rng = np.random.default_rng(c.seed + 19)
    validated = False
    twin_done = False
    good = []

    # output type bookkeeping of the transform (2 materials -> BINARY, more -> DISCRETE)
    t0 = _transform(mode, eps, (2, 2, 2))
    ot = t0._output_type["p"]
    c.prove("output type matches the number of materials", bool(ot == (ParameterType.BINARY if M == 2 else ParameterType.DISCRETE)), key=kbase + ":type")

    for shape in [tuple(s) for s in case["shapes"]]:
        tag = "x".join(map(str, shape))
        t = _transform(mode, eps, shape)
        f = lambda x, t=t: t({"p": x})["p"]
        # 1. the real call on a concrete legal input: must not raise, must keep the shape
        xc = rng.uniform(-0.5, M - 0.5, size=shape) if mode == "round" else rng.uniform(0.0, 1.1, size=shape)
        try:
            oc = np.asarray(f(jnp.asarray(xc)))
        except Exception as ex:  # noqa: BLE001
            _fail_once(c, f"{tag}: call raises on a legal shape", dict(shape=list(shape), materials=eps, exception=f"{type(ex).__name__}: {str(ex)[:200]}", x=xc),
                            key=kbase + ":exception")
            continue
        if oc.shape != tuple(shape):
            _fail_once(c, f"{tag}: output shape differs from input shape", dict(shape=list(shape), got=list(oc.shape), materials=eps, x=xc), key=kbase + ":shape")
            continue
        c.prove(f"{tag}: shape kept", True)

        # 2. symbolic forward value
        x = jx.symarr(f"x{tag}", shape)
        c.symvars += x.size
        ts = time.time()
        out, tr = jx.call(f, x)
        c.interp_s += time.time() - ts
        out = jx.lift(out)
        if out.shape != tuple(shape):
            raise Inconclusive(f"{tag}: interpreter output shape {out.shape}")
        if not validated:
            xv = xc.copy()
            flat = xv.reshape(-1)
            ties = [0.5, 1.5, 2.5, -0.5, M - 0.5, M + 0.5]  # exercises round-half-even in the translator
            for i in range(min(flat.size, len(ties))):
                flat[i] = ties[i]
            c.validate(jx.to_numeric(tr(jx.fracarr(xv))), np.asarray(f(jnp.asarray(xv))), "ClosestIndex forward")
            validated = True

        def replay(m, f=f, x=x):
            xm = model_array(m, x)
            om = np.asarray(f(jnp.asarray(xm, dtype=jnp.float64)))
            bad, info = _oracle_concrete(xm, om, vals)
            return bad, dict(shape=list(xm.shape), materials=eps, mode=mode, x=xm, out=om, **info)

        for idx in np.ndindex(*shape):
            if any(v["key"] == kbase + ":nearest" for v in c.violations):
                break  # class already established in this case by a replayed witness
            if not c.prove(f"{tag}:{list(idx)} index is a nearest allowed value", _claim(x[idx], out[idx], vals, tol), (), replay, key=kbase + ":nearest") and c.violations:
                break  # one reproduced witness per shape is enough (the remaining voxels run the same code)

        # 3. VJP: gradients pass through unchanged
        g = lambda x, ct, f=f: jax.vjp(f, x)[1](ct)[0]
        ct = jx.symarr(f"ct{tag}", shape)
        c.symvars += ct.size
        ts = time.time()
        gout, gtr = jx.call(g, x, ct)
        c.interp_s += time.time() - ts

        def replay_vjp(m, g=g, x=x, ct=ct):
            xm, cm = model_array(m, x), model_array(m, ct)
            # make the witness non-degenerate for the replay: free entries of the model default to 0
            gm = np.asarray(g(jnp.asarray(xm, dtype=jnp.float64), jnp.asarray(cm, dtype=jnp.float64)))
            err = float(np.max(np.abs(gm - cm))) if gm.shape == cm.shape else float("inf")
            return err > 1e-9 * (1 + float(np.max(np.abs(cm)))), dict(shape=list(xm.shape), mode=mode, x=xm, ct=cm, vjp=gm, max_abs_err=err)

        vjp_seen = any(v["key"] == kbase + ":vjp" for v in c.violations)
        if jx.lift(gout).shape != tuple(shape):
            _fail_once(c, f"{tag}: VJP shape", dict(got=list(jx.lift(gout).shape)), key=kbase + ":vjp")
        elif not vjp_seen:
            c.prove_eq(f"{tag}: vjp(ct)==ct", gout, ct, (), replay_vjp, key=kbase + ":vjp", chunk=max(1, ct.size))
            # same statement through jax.grad of a weighted sum (second route into the AD rules)
            h = lambda x, w, f=f: jax.grad(lambda y: jnp.sum(w * f(y)))(x)
            hout, _ = jx.call(h, x, ct)

            def replay_grad(m, h=h, x=x, ct=ct):
                xm, cm = model_array(m, x), model_array(m, ct)
                gm = np.asarray(h(jnp.asarray(xm, dtype=jnp.float64), jnp.asarray(cm, dtype=jnp.float64)))
                err = float(np.max(np.abs(gm - cm)))
                return err > 1e-9 * (1 + float(np.max(np.abs(cm)))), dict(shape=list(xm.shape), mode=mode, x=xm, w=cm, grad=gm, max_abs_err=err)

            if not any(v["key"] == kbase + ":vjp" for v in c.violations):
                c.prove_eq(f"{tag}: grad sum(w*f)==w", hout, ct, (), replay_grad, key=kbase + ":vjp", chunk=max(1, ct.size))

        # 4. vacuity twins: the transform is not the identity, and the forward claim is falsifiable in principle
        if not twin_done:
            e0 = tuple(0 for _ in shape)
            c.witness(f"{tag}: output can differ from input", sc.ne(out[e0], x[e0]))
            c.witness(f"{tag}: some index is not nearest for some input (claim is not a tautology)",
                      z3.Not(_claim(x[e0], sc.ite(sc.le(x[e0], vals[0]), M - 1, 0), vals, tol)))
            twin_done = True
        good.append((shape, t))

    # 5. several arrays in one call: every key is transformed independently and keeps its own shape
    if len(good) >= 2:
        (s1, t), (s2, _) = good[0], good[-1]
        f2 = lambda a, b, t=t: (lambda r: (r["first"], r["second"]))(t({"first": a, "second": b}))
        a, b = jx.symarr("a", s1), jx.symarr("b", s2)
        c.symvars += a.size + b.size
        (oa, ob), _ = jx.call(f2, a, b)

        def replay2(m, f2=f2, a=a, b=b):
            am, bm = model_array(m, a), model_array(m, b)
            ra, rb = f2(jnp.asarray(am, dtype=jnp.float64), jnp.asarray(bm, dtype=jnp.float64))
            b1, i1 = _oracle_concrete(am, np.asarray(ra), vals)
            b2, i2 = _oracle_concrete(bm, np.asarray(rb), vals)
            return b1 or b2, dict(first=dict(x=am, out=np.asarray(ra), **i1), second=dict(x=bm, out=np.asarray(rb), **i2), materials=eps, mode=mode)

        for arr_in, arr_out, nm in ((a, jx.lift(oa), "first"), (b, jx.lift(ob), "second")):
            if arr_out.shape != arr_in.shape:
                c.fail_concrete(f"two-array call: shape of {nm}", dict(got=list(arr_out.shape), want=list(arr_in.shape)), key=kbase + ":shape")
                continue
            for idx in np.ndindex(*arr_in.shape):
                if any(v["key"] == kbase + ":nearest" for v in c.violations):
                    break
                if not c.prove(f"two-array call {nm}:{list(idx)}", _claim(arr_in[idx], arr_out[idx], vals, tol), (), replay2, key=kbase + ":nearest") and c.violations:
                    break
    if not twin_done:
        # no shape got as far as the symbolic part (all calls failed concretely): the violations above are the result; the
        # twin shows the oracle itself is satisfiable and falsifiable
        xs = z3.Real("x_twin")
        c.witness("oracle satisfiable", _claim(xs, 0, vals, tol))
