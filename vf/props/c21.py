"""C21 -- design symmetry transforms produce symmetric designs (E1, QF_LRA).

Per case (one transform class, one option set): for every listed shape the real ``__call__`` is traced on a dict of
two parameter arrays and interpreted with every entry a fresh real.  The oracle is the group action ``g`` of the
documented reflection / rotation / transposition, written here as an index map on the 3D array (independent of the
slicing / flip / transpose calls of the code under test).  Obligations per array (one query per entry):

* invariance      out[g(i)] == out[i]
* fixed points    x symmetric  =>  out == x   (twice: x built from orbit representatives; x free with x == x o g as hypothesis)
* idempotence     f(f(x)) == f(x)
* mean            sum(out)/n == sum(x)/n
* keys independent: the output for one key does not mention the variables of the other key
"""
from __future__ import annotations

import itertools
import time

import jax.numpy as jnp
import numpy as np
import z3

from .. import jx2smt as jx
from .. import sc
from ..core import Inconclusive, model_array

META = dict(
    functions=["DiagonalSymmetry2D.__call__", "HorizontalSymmetry2D.__call__", "VerticalSymmetry2D.__call__", "PointSymmetry2D.__call__",
               "HorizontalSymmetry3D.__call__", "VerticalSymmetry3D.__call__", "PointSymmetry3D.__call__", "DiagonalSymmetry3D.__call__"],
    assumptions=[
        "reals instead of floats (round-off outside the claim)",
        "2D transforms: arrays with exactly one singleton axis (the 2D plane is the array with that axis removed, first remaining axis = x)",
        "diagonal transforms: the two transposed extents are equal (documented precondition)",
        "the reflection of each class is the one its docstring names: Horizontal = flip of x (first in-plane axis / mirror_axis), "
        "Vertical2D = flip of the second in-plane axis, Vertical3D = flip of z, Point = flip of all (in-plane) axes, "
        "Diagonal = transposition (main) or (i,j)->(n-1-j,n-1-i) (anti) of the two named axes",
    ],
    outside="extents above 4 (5 in the thorough tier); arrays with several singleton axes passed to 2D transforms (plane ambiguous); "
            "non-square inputs to diagonal transforms; invalid option strings; float round-off",
    bounds=dict(quick=dict(max_extent=4, shapes_per_config="3-6"), thorough=dict(max_extent=5, shapes_per_config="6-12")),
    timeout_ms=dict(quick=60000, thorough=120000),
)

# ------------------------------------------------------------------------------------------------------ configurations
_CONFIGS = {
    "Diagonal2D": [dict(min_min_to_max_max=True), dict(min_min_to_max_max=False)],
    "Horizontal2D": [dict()],
    "Vertical2D": [dict()],
    "Point2D": [dict()],
    "Horizontal3D": [dict(mirror_axis="x"), dict(mirror_axis="y"), dict()],
    "Vertical3D": [dict()],
    "Point3D": [dict()],
    "Diagonal3D": [dict(diagonal_plane=p, min_min_to_max_max=m) for p in ("xy", "xz", "yz") for m in (True, False)] + [dict()],
}
_CLASSNAME = {k: k.replace("2D", "Symmetry2D").replace("3D", "Symmetry3D") for k in _CONFIGS}


def _with_singleton(plane_shapes):
    out = []
    for a, b in plane_shapes:
        for s in range(3):
            sh = [a, b]
            sh.insert(s, 1)
            if sh.count(1) == 1:
                out.append(tuple(sh))
    return out


def _shapes(cls, opts, tier):
    q = tier == "quick"
    if cls == "Diagonal2D":
        return _with_singleton([(2, 2), (3, 3)] if q else [(2, 2), (3, 3), (4, 4), (5, 5)])
    if cls.endswith("2D"):
        return _with_singleton([(3, 3), (2, 4)] if q else [(3, 3), (2, 4), (4, 4), (3, 2), (5, 3), (4, 5)])
    if cls == "Diagonal3D":
        pl = opts.get("diagonal_plane", "xy")
        fixed = {"xy": 2, "xz": 1, "yz": 0}[pl]
        base = [(2, 2), (3, 3), (3, 2), (2, 4)] if q else [(2, 2), (3, 3), (4, 4), (3, 2), (2, 4), (4, 3), (3, 1), (5, 2)]
        out = []
        for n, k in base:  # n = the two swapped extents, k = the untouched one
            sh = [n, n]
            sh.insert(fixed, k)
            out.append(tuple(sh))
        return out
    return [(2, 2, 2), (3, 3, 3), (2, 3, 4), (3, 1, 2)] if q else [(2, 2, 2), (3, 3, 3), (4, 4, 4), (2, 3, 4), (4, 3, 2), (3, 2, 2), (3, 1, 2), (1, 4, 3), (5, 2, 3), (2, 2, 5)]


def cases(tier, seed):
    out = []
    for cls, optl in _CONFIGS.items():
        for k, opts in enumerate(optl):
            tag = "-".join(f"{v}" for v in opts.values()) or "default"
            out.append(dict(name=f"{cls}-{tag}", cls=cls, opts=opts, shapes=[list(s) for s in _shapes(cls, opts, tier)]))
    return out


# ------------------------------------------------------------------------------------------------------------- oracle
def oracle_map(cls, opts, shape):
    """the documented symmetry operation as an index map g: index tuple -> index tuple of a 3D array of ``shape``."""
    shape = tuple(shape)

    def refl(idx, axes):
        idx = list(idx)
        for a in axes:
            idx[a] = shape[a] - 1 - idx[a]
        return tuple(idx)

    def swap(idx, p, q, anti):
        idx = list(idx)
        i, j = idx[p], idx[q]
        n = shape[p]
        if shape[q] != n:
            raise ValueError("diagonal symmetry needs equal extents")
        idx[p], idx[q] = (j, i) if not anti else (n - 1 - j, n - 1 - i)
        return tuple(idx)

    if cls.endswith("2D"):
        single = [a for a in range(3) if shape[a] == 1]
        assert len(single) == 1
        p, q = [a for a in range(3) if a != single[0]]  # x, y of the 2D design
        if cls == "Horizontal2D":
            return lambda i: refl(i, (p,))
        if cls == "Vertical2D":
            return lambda i: refl(i, (q,))
        if cls == "Point2D":
            return lambda i: refl(i, (p, q))
        if cls == "Diagonal2D":
            return lambda i: swap(i, p, q, anti=not opts["min_min_to_max_max"])
    if cls == "Horizontal3D":
        ax = {"x": 0, "y": 1}[opts.get("mirror_axis", "x")]
        return lambda i: refl(i, (ax,))
    if cls == "Vertical3D":
        return lambda i: refl(i, (2,))
    if cls == "Point3D":
        return lambda i: refl(i, (0, 1, 2))
    if cls == "Diagonal3D":
        p, q = {"xy": (0, 1), "xz": (0, 2), "yz": (1, 2)}[opts.get("diagonal_plane", "xy")]
        return lambda i: swap(i, p, q, anti=not opts.get("min_min_to_max_max", True))
    raise ValueError(cls)


def permuted(a, g):
    """b[i] = a[g(i)]"""
    b = np.empty(a.shape, dtype=a.dtype)
    for i in np.ndindex(*a.shape):
        b[i] = a[g(i)]
    return b


def symmetrised(a, g):
    """the generic g-symmetric array: every orbit {i, g(i)} carries the variable of its smaller index."""
    b = np.empty(a.shape, dtype=a.dtype)
    for i in np.ndindex(*a.shape):
        b[i] = a[min(i, g(i))]
    return b


# ------------------------------------------------------------------------------------------------------------- driver
def run_case(c, case):
    import fdtdx.objects.device.parameters.symmetries as S

    cls, opts = case["cls"], dict(case["opts"])
    c.functions.add(_CLASSNAME[cls] + ".__call__")
    T = getattr(S, _CLASSNAME[cls])(**opts)
    shapes = [tuple(s) for s in case["shapes"]]
    c.bounds.update(shapes=[list(s) for s in shapes], options=opts)
    rng = np.random.default_rng(c.seed + 21)
    kbase = f"{cls}:{'-'.join(str(v) for v in opts.values()) or 'default'}"
    validated = False
    twin_ok = False

    def f(params):
        return T(params)

    # every call gets two arrays of different shapes (the dict is processed key by key)
    for n, sh in enumerate(shapes):
        sh2 = shapes[(n + 1) % len(shapes)]
        x = {"a": jx.symarr(f"x{n}a", sh), "b": jx.symarr(f"x{n}b", sh2)}
        c.symvars += x["a"].size + x["b"].size
        t0 = time.time()
        try:
            out, tr = jx.call(f, x)
        except sc.NotEncodable:
            raise
        except Exception as ex:  # noqa: BLE001  the real code raised while being traced on a legal input
            c.fail_concrete(f"{sh}: transform raises on a legal input", dict(shape=list(sh), other=list(sh2), error=repr(ex)[:300]), key=f"{kbase}:raises")
            continue
        c.interp_s += time.time() - t0
        if set(out) != {"a", "b"} or any(tuple(np.shape(out[k])) != tuple(x[k].shape) for k in x):
            c.fail_concrete(f"{sh}: output keys/shapes differ from the input", dict(shape=list(sh), got={k: list(np.shape(v)) for k, v in out.items()}), key=f"{kbase}:shape")
            continue
        if not validated:
            xc = {k: rng.normal(size=v.shape) for k, v in x.items()}
            want = f({k: jnp.asarray(v) for k, v in xc.items()})
            got = tr({k: jx.fracarr(v) for k, v in xc.items()})
            for k in xc:
                c.validate(jx.to_numeric(got[k]), np.asarray(want[k]), f"{cls} {sh}")
            validated = True
        out2 = tr({k: jx.lift(out[k]) for k in x})  # f(f(x))
        for k, shp in (("a", sh), ("b", sh2)):
            g = oracle_map(cls, opts, shp)
            for i in np.ndindex(*shp):
                assert g(g(i)) == i, "oracle map is not an involution"
            xs = symmetrised(x[k], g)
            o = jx.lift(out[k])
            other = "b" if k == "a" else "a"
            outs = tr({k: xs, other: x[other]})[k]
            nm = f"{'x'.join(map(str, shp))}/{k}"

            def real(xk, k=k, other=other, shp=shp, sh_other=x[other].shape):
                """the real transform in float64 on a concrete array for key k (the other key gets zeros)."""
                r = f({k: jnp.asarray(xk, dtype=jnp.float64), other: jnp.zeros(sh_other, dtype=jnp.float64)})
                return np.asarray(r[k])

            def rp_inv(m, xk=x[k], g=g, real=real):
                xc = model_array(m, xk)
                oc = real(xc)
                res = float(np.max(np.abs(permuted(oc, g) - oc)))
                return res > 1e-9 * (1 + float(np.max(np.abs(xc)))), dict(x=xc, out=oc, residual=res, claim="out o g == out")

            def rp_fix(m, xs=xs, g=g, real=real):
                xc = model_array(m, xs)
                assert float(np.max(np.abs(permuted(xc, g) - xc))) == 0.0
                oc = real(xc)
                res = float(np.max(np.abs(oc - xc)))
                return res > 1e-9 * (1 + float(np.max(np.abs(xc)))), dict(x_symmetric=xc, out=oc, residual=res, claim="symmetric input unchanged")

            def rp_idem(m, xk=x[k], real=real):
                xc = model_array(m, xk)
                o1 = real(xc)
                o2 = real(o1)
                res = float(np.max(np.abs(o2 - o1)))
                return res > 1e-9 * (1 + float(np.max(np.abs(xc)))), dict(x=xc, out=o1, out_twice=o2, residual=res, claim="f(f(x)) == f(x)")

            def rp_mean(m, xk=x[k], real=real):
                xc = model_array(m, xk)
                oc = real(xc)
                res = abs(float(np.mean(oc)) - float(np.mean(xc)))
                return res > 1e-9 * (1 + float(np.max(np.abs(xc)))), dict(x=xc, out=oc, mean_in=float(np.mean(xc)), mean_out=float(np.mean(oc)), claim="mean preserved")

            c.prove_eq(f"{nm}: invariant under the symmetry operation", permuted(o, g), o, (), rp_inv, key=f"{kbase}:invariance")
            c.prove_eq(f"{nm}: symmetric input unchanged", outs, xs, (), rp_fix, key=f"{kbase}:fixed-point")
            # the same clause with the symmetry as an explicit hypothesis on the free input (the solver has to use the equalities)
            hyp = [sc.eq(x[k][i], x[k][g(i)]) for i in np.ndindex(*shp) if g(i) > i]

            def rp_fix2(m, xk=x[k], g=g, real=real):
                xc = model_array(m, xk)
                if float(np.max(np.abs(permuted(xc, g) - xc))) != 0.0:
                    raise Inconclusive("model does not satisfy the symmetry hypothesis after conversion to float64")
                oc = real(xc)
                res = float(np.max(np.abs(oc - xc)))
                return res > 1e-9 * (1 + float(np.max(np.abs(xc)))), dict(x_symmetric=xc, out=oc, residual=res, claim="symmetric input unchanged")

            if hyp:
                c.prove_eq(f"{nm}: x == x o g  =>  out == x", o, x[k], hyp, rp_fix2, key=f"{kbase}:fixed-point")
            c.prove_eq(f"{nm}: idempotent", out2[k], o, (), rp_idem, key=f"{kbase}:idempotence")
            tot_o, tot_x = 0, 0
            for v in o.reshape(-1):
                tot_o = sc.add(tot_o, v)
            for v in x[k].reshape(-1):
                tot_x = sc.add(tot_x, v)
            c.prove(f"{nm}: mean preserved", sc.eq(sc.div(tot_o, o.size), sc.div(tot_x, o.size)), (), rp_mean, key=f"{kbase}:mean")
            # the result for this key must not depend on the other key's array
            foreign = {str(v) for v in x[other].reshape(-1)}
            used = set(jx.variables_of([o]))
            if foreign & used:
                c.fail_concrete(f"{nm}: output depends on the other parameter array", dict(vars=sorted(foreign & used)[:6]), key=f"{kbase}:cross-key")
            else:
                c.prove(f"{nm}: output independent of the other key", True)
            # vacuity twin: where g moves something, the transform must be able to change the input
            if not twin_ok:
                moved = [i for i in np.ndindex(*shp) if g(i) != i]
                if moved:
                    i = moved[0]
                    twin_ok = c.witness(f"{nm}: transform can change an entry", sc.ne(o[i], x[k][i]))
    if not twin_ok:
        raise Inconclusive("vacuity twin missing: no shape on which the symmetry operation moves an entry")
