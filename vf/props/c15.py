"""C15 -- detectors record the co-located fields of their region (E1).

One forward step with detector recording is interpreted with E and H symbolic; field detectors with exact
interpolation sit at every contact class with the domain edge (interior, faces, edges, corners, whole domain).  The
oracle is an independent restatement of the co-location stencil from the documentation table: every component is
brought to the E_z node (i, j, k+1/2) by backward half-step averages along x/y (weighted by the half-widths of the
two cells on a non-uniform grid) and forward half-step averages along z, on the *full-domain* field with the
boundary-appropriate halo (zero, periodic wrap, mirror on an electric symmetry plane); H is the mean of the two
adjacent half-steps.  Record == oracle restricted to the box, for the interior fast path and the edge fallback alike;
without interpolation the raw components are recorded.
"""
from __future__ import annotations

import time
from fractions import Fraction

import jax
import jax.numpy as jnp
import numpy as np
import z3

import fdtdx
from fdtdx.fdtd.forward import forward

from .. import jx2smt as jx
from .. import sc
from ..core import Inconclusive, model_array
from ..scenes import box_detector, build_scene, grid_widths

META = dict(
    functions=["fdtd.update.update_detector_states (helper_fn / is_interior)", "core.physics.curl.interpolate_fields / _backward_edge_average", "fdtd.update.pad_fields_with_symmetry_mirror",
               "fdtd.update.pad_fields_for_boundaries", "FieldDetector.update", "fdtd.forward.forward"],
    assumptions=["reals for floats (1e-9 relative tolerance mode where placement constants are folded)", "quantified: E and H before the step; the oracle is evaluated on the step's own output fields",
                 "non-uniform grids only with non-periodic axes (the interpolation weight across a periodic seam is not defined by the statement; the code replicates the first width there, cf. the C01 finding)"],
    outside="Bloch phases in the halo, magnetic symmetry planes (no wall object: zero halo), shapes beyond the bound, detectors other than FieldDetector (C16 covers the reductions)",
    bounds=dict(quick=dict(shapes=[(4, 4, 4), (5, 4, 3)]), thorough=dict(shapes=[(4, 4, 4), (5, 4, 3), (6, 4, 4)])),
)


def _boxes(shape):
    nx, ny, nz = shape
    b = [
        ((1, 1, 1), (nx - 2, ny - 2, nz - 2)),          # strictly interior
        ((0, 1, 1), (2, 2, 1)),                          # face min x
        ((nx - 2, 1, 1), (2, 1, 2)),                     # face max x
        ((1, 0, 1), (1, 2, 1)), ((1, ny - 1, 1), (2, 1, 1)),   # faces y
        ((1, 1, 0), (1, 1, 2)), ((1, 1, nz - 1), (2, 2, 1)),   # faces z
        ((0, 0, 1), (2, 2, 1)), ((nx - 1, 1, nz - 1), (1, 2, 1)), ((1, ny - 2, 0), (2, 2, 1)),  # edges
        ((0, 0, 0), (1, 1, 1)), ((nx - 1, ny - 1, nz - 1), (1, 1, 1)), ((0, ny - 1, 0), (2, 1, 2)),  # corners
        ((0, 0, 0), (nx, ny, nz)),                       # whole domain
    ]
    return [(lo, sh) for lo, sh in b if all(l >= 0 and s >= 1 and l + s <= n for l, s, n in zip(lo, sh, shape))]


def cases(tier, seed):
    out = []
    sc_ = [("none-uniform", (4, 4, 4), None, "uniform", (0, 0, 0)), ("periodic-uniform", (4, 4, 4), "periodic", "uniform", (0, 0, 0)),
           ("pec-nonuniform", (5, 4, 3), "pec", "nonuniform", (0, 0, 0)), ("symmetry-x", (8, 4, 3), "periodic", "uniform", (-1, 0, 0)),
           ("symmetry-xy", (6, 6, 3), "pec", "uniform", (-1, -1, 0)),   # two electric planes: the halo edge shared by both is a double mirror (H_z)
           ("mixed-nonuniform", (5, 4, 3), {"min_x": "pmc", "max_x": "pec", "min_y": "pec", "max_y": "pmc", "min_z": "pec", "max_z": "pec"}, "nonuniform", (0, 0, 0))]
    if tier != "quick":
        sc_ += [("symmetry-y", (4, 8, 3), "pec", "uniform", (0, -1, 0)), ("symmetry-xz", (6, 3, 6), None, "uniform", (-1, 0, -1)),
                ("periodic-z-nonuniform-xy", (5, 4, 4), {"min_x": "pec", "max_x": "pec", "min_y": "pmc", "max_y": "pmc", "min_z": "periodic", "max_z": "periodic"}, "nonuniform_xy", (0, 0, 0)),
                ("none-6x4x4", (6, 4, 4), None, "uniform", (0, 0, 0))]
    for nm, shape, b, g, sym in sc_:
        out.append(dict(name=nm, shape=shape, bounds=b, grid=g, symmetry=sym))
    return out


def oracle_colocate(Ein, Hin, widths3, periodic3, mirror3, nonuniform):
    """E_in, H_in: object arrays (3, Nx, Ny, Nz).  Returns (E_c, H_c) co-located onto the E_z node."""
    shape = Ein.shape[1:]

    def get(F, ftype, comp, idx):
        """full-domain value with halo; idx may be -1 or N along any axis."""
        sign = 1
        idx = list(idx)
        for a in range(3):
            n = shape[a]
            if 0 <= idx[a] < n:
                continue
            if periodic3[a] and not mirror3[a]:
                idx[a] %= n
            elif periodic3[a] and mirror3[a] and idx[a] >= n:
                idx[a] %= n   # far side keeps the user's wrap
            elif mirror3[a] and idx[a] == -1:
                # electric plane at the min edge: on-plane components (tangential E, normal H) are odd and pair with cell 1,
                # half-cell-offset components (normal E, tangential H) are even and pair with cell 0
                on_plane = (ftype == "E" and comp != a) or (ftype == "H" and comp == a)
                if on_plane:
                    sign, idx[a] = -sign, 1
                else:
                    idx[a] = 0
            else:
                return 0
        v = F[(comp, *idx)]
        return v if sign == 1 else sc.neg(v)

    def back(ftype, F, comp, axis):
        """value of component comp brought half a cell back along axis, at every cell."""
        def f(idx):
            cur = val(idx)
            j = list(idx)
            j[axis] -= 1
            prev = val(tuple(j))
            if not nonuniform:
                return sc.div(sc.add(cur, prev), 2)
            w = widths3[axis]
            wc = w[idx[axis]]
            wp = w[idx[axis] - 1] if idx[axis] >= 1 else w[0]   # the previous value is a zero/mirror halo there; weight irrelevant for zero halo
            return sc.div(sc.add(sc.mul(cur, wp), sc.mul(prev, wc)), sc.add(wc, wp))
        return f

    # build by composition of index -> value functions
    def compose(ftype, F, comp, ops):
        def base(idx):
            return get(F, ftype, comp, idx)
        cur = base
        for kind, axis in ops:
            prevf = cur
            if kind == "b":
                def nxt(idx, prevf=prevf, axis=axis):
                    j = list(idx)
                    j[axis] -= 1
                    c_, p_ = prevf(tuple(idx)), prevf(tuple(j))
                    if not nonuniform:
                        return sc.div(sc.add(c_, p_), 2)
                    w = widths3[axis]
                    wc = w[idx[axis]] if 0 <= idx[axis] < len(w) else w[-1]
                    wp = w[idx[axis] - 1] if idx[axis] >= 1 else w[0]
                    return sc.div(sc.add(sc.mul(c_, wp), sc.mul(p_, wc)), sc.add(wc, wp))
            else:
                def nxt(idx, prevf=prevf, axis=axis):
                    j = list(idx)
                    j[axis] += 1
                    return sc.div(sc.add(prevf(tuple(idx)), prevf(tuple(j))), 2)
            cur = nxt
        out = np.empty(shape, dtype=object)
        for idx in np.ndindex(*shape):
            out[idx] = cur(idx)
        return out

    E = np.stack([compose("E", Ein, 0, [("b", 0), ("f", 2)]), compose("E", Ein, 1, [("b", 1), ("f", 2)]), compose("E", Ein, 2, [])])
    H = np.stack([compose("H", Hin, 0, [("b", 1)]), compose("H", Hin, 1, [("b", 0)]), compose("H", Hin, 2, [("b", 0), ("b", 1), ("f", 2)])])
    return E, H


def run_case(c, case):
    shape = tuple(case["shape"])
    rng = np.random.default_rng(c.seed + 9)
    ws = None
    if case["grid"].startswith("nonuniform"):
        ws = [[float(v) / 8 for v in rng.integers(5, 13, size=n)] for n in shape]
        if case["grid"] == "nonuniform_xy":
            ws[2] = [1.0] * shape[2]
    sym = tuple(case["symmetry"])
    # detectors are placed on the (possibly symmetry-reduced) domain; build once to learn the reduced shape
    S0 = build_scene(shape, case["bounds"], steps=2, widths=ws, symmetry=sym, thickness=1, spacing=2.0 ** -24)
    rshape = tuple(S0["arrays"].fields.E.shape[1:])
    off = tuple((n - r) for n, r in zip(shape, rshape))  # placement coordinates are given on the unreduced grid
    dets = []
    boxes = _boxes(rshape)
    for i, (lo, sh) in enumerate(boxes):
        ulo = tuple(l + o for l, o in zip(lo, off))
        dets.append(box_detector(fdtdx.FieldDetector, f"d{i}", ulo, sh, dtype=jnp.float64, exact_interpolation=True))
        if i % 4 == 0:
            dets.append(box_detector(fdtdx.FieldDetector, f"r{i}", ulo, sh, dtype=jnp.float64, exact_interpolation=False))
    S = build_scene(shape, case["bounds"], steps=2, widths=ws, symmetry=sym, thickness=1, extra_objects=dets, spacing=2.0 ** -24)
    arr, oc, cfg, key = S["arrays"], S["objects"], S["config"], S["key"]
    c.functions.update(META["functions"])
    c.bounds.update(shape=list(shape), reduced_shape=list(rshape), detectors=len(dets))
    fsh = arr.fields.E.shape
    if tuple(fsh[1:]) != rshape:
        raise Inconclusive("reduced shape changed between placements")
    placed = {d.name: d.grid_slice_tuple for d in oc.detectors}
    for i, (lo, sh) in enumerate(boxes):
        want = tuple((l, l + s) for l, s in zip(lo, sh))
        if placed[f"d{i}"] != want:
            raise Inconclusive(f"detector d{i} placed at {placed[f'd{i}']} instead of {want}")
    E, H = jx.symarr("E", fsh), jx.symarr("H", fsh)
    c.symvars += E.size + H.size

    def step(E, H):
        st = (jnp.asarray(0, dtype=jnp.int32), arr.aset("fields->E", E).aset("fields->H", H))
        st = forward(st, cfg, oc, key, True, False, True)
        return st[1].fields.E, st[1].fields.H, {n: v["fields"] for n, v in st[1].detector_states.items()}

    t0 = time.time()
    (E1, H1, ds), tr = jx.call(step, E, H)
    c.interp_s += time.time() - t0
    stepj = jax.jit(step)
    ce, ch = rng.normal(size=fsh), rng.normal(size=fsh)
    want = stepj(jnp.asarray(ce), jnp.asarray(ch))
    got = tr(jx.lift(ce), jx.lift(ch))
    c.validate(jx.to_numeric(got[2]["d0"]), np.asarray(want[2]["d0"]), "record of the interior detector")

    periodic3 = [False] * 3
    for b in oc.boundary_objects:
        if b.uses_wrap_padding:
            periodic3[b.axis] = True
    mirror3 = [False] * 3
    for b in oc.boundary_objects:
        if getattr(b, "_is_symmetry_wall", False):
            mirror3[b.axis] = True
    nonuni = bool(cfg.has_nonuniform_grid)
    W3 = [[Fraction(float(x)) for x in w] for w in grid_widths(cfg)]
    Havg = jx.ew(lambda a, b: sc.div(sc.add(a, b), 2), H, jx.lift(H1))
    Ec, Hc = oracle_colocate(jx.lift(E1), Havg, W3, periodic3, mirror3, nonuni)
    full = np.concatenate([Ec, Hc], axis=0)       # (6, x, y, z) in the detector's component order
    raw = np.concatenate([jx.lift(E1), jx.lift(H1)], axis=0)

    def oracle_np(e1, h0, h1):
        a, b = oracle_colocate(jx.lift(e1), jx.lift((h0 + h1) / 2), [[float(x) for x in w] for w in W3], periodic3, mirror3, nonuni)
        return np.concatenate([jx.to_numeric(a), jx.to_numeric(b)], axis=0)

    def replay(m):
        e, h = model_array(m, E), model_array(m, H)
        o = stepj(jnp.asarray(e), jnp.asarray(h))
        ref = oracle_np(np.asarray(o[0]), h, np.asarray(o[1]))
        rawc = np.concatenate([np.asarray(o[0]), np.asarray(o[1])], axis=0)
        worst, where = 0.0, None
        for d in oc.detectors:
            gs = (slice(None),) + tuple(slice(a, b) for a, b in d.grid_slice_tuple)
            refd = (ref if d.exact_interpolation else rawc)[gs]
            rec = np.asarray(o[2][d.name])[0]
            r = float(np.max(np.abs(rec - refd))) / (1.0 + float(np.max(np.abs(refd))))
            if r > worst:
                worst, where = r, (d.name, d.grid_slice_tuple)
        return worst > 1e-7, dict(worst_rel_residual=worst, detector=where)

    for d in oc.detectors:
        gs = (slice(None),) + tuple(slice(a, b) for a, b in d.grid_slice_tuple)
        rec = jx.lift(ds[d.name])[0]
        tgt = (full if d.exact_interpolation else raw)[gs]
        interior = all(a >= 1 and b <= n - 1 for (a, b), n in zip(d.grid_slice_tuple, rshape))
        kind = "raw" if not d.exact_interpolation else ("interior" if interior else "edge")
        c.prove_eq(f"{d.name} {d.grid_slice_tuple} ({kind})", rec, tgt, [], replay, key=f"colocation:{kind}:{case['name']}", roundoff=1e-9, scale=1.0)
    e = [v for v in jx.lift(ds["d0"]).reshape(-1) if sc.is_symbolic_scalar(v)]
    if not e:
        raise Inconclusive("interior detector record does not depend on the fields")
    c.witness("record depends on the fields", sc.ne(e[0], 0), [])
