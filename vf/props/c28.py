"""C28 -- static materials are painted by placement order (E2 for order / tiers, concrete arrays per path) -- partial.

* ``paint-*`` cases: a real scene (volume + 2-3 overlapping ``UniformMaterialObject`` boxes, enumerated geometry and material
  categories) is placed with the public API; then the real ``_init_arrays`` is executed concolically with every object's
  ``placement_order`` a symbolic Int (the ``sorted(key=...)`` comparisons fork).  Per path the returned arrays are concrete;
  the obligation handed to z3 is, per cell class, "some covering object whose material equals the stored value is the
  painter's-rule winner under the symbolic orders" (highest order wins, later list position breaks ties, volume lowest),
  proved under the path condition for *all* order values on that path.  Component counts (tiers), the scalar
  permeability 1.0 of non-magnetic scenes and the None-ness of conductivity arrays are checked on every path.
* ``tiers-*`` cases: the ``ObjectContainer.all_objects_*`` tier predicates are executed with every tensor entry of the materials
  symbolic (z3 Reals) and compared with the tier each material needs (scalar multiple of identity / diagonal / full).

Box geometry is enumerated (Python ``slice`` objects cannot be symbolic) -- stated in META.
"""
from __future__ import annotations

import itertools
import math
from fractions import Fraction

import numpy as np
import z3

from .. import pysym
from ..core import Inconclusive, model_value

META = dict(
    functions=["fdtd.initialization._init_arrays (sorted_obj loop, tier selection, UniformMaterialObject branch)", "fdtd.initialization.place_objects (replay)",
               "fdtd.container.ObjectContainer.all_objects_* predicates", "materials.Material.is_* predicates", "materials._is_property_isotropic/_is_property_diagonally_anisotropic"],
    assumptions=["placement_order of non-volume objects in (-1000, 1000): the volume's fixed order -1000 is 'lowest' only for larger orders",
                 "list order = order of the objects in the list handed to place_objects; among equal orders the later object is painted later and wins",
                 "uniform grid: 'grid-scaled' conductivity = sigma * spacing", "materials per object distinct (so the stored value identifies the painter)",
                 "tier predicates: equality up to math.isclose's relative tolerance 1e-9 (a 1e-8 sliver is accepted either way)"],
    outside="box geometry is enumerated on a 4x4x4 grid (interval relations of 2-3 boxes), not solver-quantified; StaticMultiMaterialObject shapes "
            "(spheres, cylinders, sub-pixel smoothing) and dispersive coefficient arrays are not covered; material values are concrete in paint-* cases; "
            "float round-off of 1/eps",
    bounds=dict(quick=dict(grid=(4, 4, 4), objects="2-3", geometries=9, material_sets=7), thorough=dict(grid=(4, 4, 4), objects="2-3", geometries="9 + all 100 ordered interval pairs on one axis", material_sets=7)),
    timeout_ms=dict(quick=30000, thorough=60000),
)

SPACING = 50e-9
F = lambda *a: tuple(tuple(x) for x in a)  # noqa: E731

GEOMS = {
    "partial": [F((0, 3), (0, 3), (0, 3)), F((1, 4), (1, 4), (1, 4))],
    "inside": [F((0, 4), (0, 4), (0, 4)), F((1, 3), (1, 3), (1, 3))],
    "equal": [F((1, 3), (1, 3), (1, 3)), F((1, 3), (1, 3), (1, 3))],
    "touching": [F((0, 2), (0, 4), (0, 4)), F((2, 4), (0, 4), (0, 4))],
    "mixed": [F((0, 2), (0, 4), (1, 3)), F((1, 4), (1, 3), (0, 4))],
    "starts-finishes": [F((0, 2), (0, 4), (0, 4)), F((0, 4), (2, 4), (0, 4))],
    "chain3": [F((0, 2), (0, 4), (0, 4)), F((1, 3), (0, 4), (0, 4)), F((2, 4), (0, 4), (0, 4))],
    "triple": [F((0, 3), (0, 3), (0, 3)), F((1, 4), (1, 4), (1, 4)), F((1, 3), (0, 4), (1, 3))],
    "nested3": [F((0, 4), (0, 4), (0, 4)), F((1, 4), (0, 3), (0, 4)), F((1, 3), (1, 2), (1, 3))],
}

FULL = ((2.0, 0.3, 0.1), (0.3, 2.5, 0.2), (0.1, 0.2, 3.0))
FULLC = ((0.5, 0.1, 0.0), (0.1, 0.7, 0.2), (0.0, 0.2, 0.9))

# material sets: keyword arguments per object (A, B, C) and for the volume
MATSETS = {
    "iso": dict(objs=[dict(permittivity=2.0), dict(permittivity=3.5), dict(permittivity=5.0)], vol={}),
    "diag": dict(objs=[dict(permittivity=2.0), dict(permittivity=(3.0, 4.0, 5.0)), dict(permittivity=6.0)], vol={}),
    "full": dict(objs=[dict(permittivity=2.0), dict(permittivity=FULL), dict(permittivity=(3.0, 4.0, 5.0))], vol={}),
    "magnetic": dict(objs=[dict(permittivity=2.0, permeability=1.5), dict(permittivity=3.0), dict(permittivity=4.0, permeability=(1.2, 1.1, 2.0))], vol={}),
    "conductive": dict(objs=[dict(permittivity=2.0, electric_conductivity=0.5), dict(permittivity=3.0, magnetic_conductivity=(0.1, 0.2, 0.3)), dict(permittivity=4.0, electric_conductivity=1.5)], vol={}),
    "cond-full": dict(objs=[dict(permittivity=2.0, electric_conductivity=FULLC), dict(permittivity=3.0, permeability=FULL), dict(permittivity=4.0, electric_conductivity=0.25)], vol={}),
    # object 1 is a multi-material Sphere whose materials dict also holds a sibling ("sib") with the SAME permittivity but
    # different secondary properties; the dict lists the designated material first or second (seeded change C28b)
    "tie-cond": dict(objs=[dict(permittivity=3.0), dict(permittivity=2.25, electric_conductivity=0.8), dict(permittivity=4.0)], vol={}, sib=dict(permittivity=2.25)),
    "tie-mag": dict(objs=[dict(permittivity=3.0, permeability=1.3), dict(permittivity=2.25, permeability=1.2), dict(permittivity=4.0)], vol={},
                    sib=dict(permittivity=2.25, permeability=1.5, magnetic_conductivity=0.4)),
    "volume-material": dict(objs=[dict(permittivity=2.0), dict(permittivity=3.0), dict(permittivity=4.0)], vol=dict(permittivity=1.5, permeability=2.0, electric_conductivity=0.1)),
}


def cases(tier, seed):
    out = []
    gn, mn = list(GEOMS), list(MATSETS)
    if tier == "quick":
        mn = [m for m in mn if not m.startswith("tie-")]
        for i, g in enumerate(gn):
            out.append(dict(name=f"paint-{g}-{mn[i % len(mn)]}", kind="paint", geoms=[[g, GEOMS[g]]], matset=mn[i % len(mn)]))
    else:
        mn = [m for m in mn if not m.startswith("tie-")]
        for g in gn:
            for m in mn:
                out.append(dict(name=f"paint-{g}-{m}", kind="paint", geoms=[[g, GEOMS[g]]], matset=m))
        # every ordered pair of intervals on the x axis (all interval relations of two boxes on an axis), partial overlap on y, full on z
        ivs = [(l, h) for l in range(4) for h in range(l + 1, 5)]
        pairs = [(a, b) for a in ivs for b in ivs]
        per = 10
        for k in range(0, len(pairs), per):
            geoms = [[f"x{a[0]}{a[1]}-{b[0]}{b[1]}", [F(a, (0, 3), (0, 4)), F(b, (1, 4), (0, 4))]] for a, b in pairs[k:k + per]]
            out.append(dict(name=f"paint-allen-{k // per}", kind="paint", geoms=geoms, matset=mn[(k // per) % len(mn)]))
    for ms_, first in (("tie-cond", "main"), ("tie-cond", "sib"), ("tie-mag", "main"), ("tie-mag", "sib")):
        out.append(dict(name=f"paint-multimat-{ms_}-{first}first", kind="paint", matset=ms_,
                        geoms=[["sphere-over-box", [F((0, 4), (0, 4), (0, 3)), F((0, 4), (0, 4), (0, 4))], dict(index=1, first=first)]]))
    out.append(dict(name="tiers-permittivity", kind="tiers", prop="permittivity"))
    out.append(dict(name="tiers-permeability", kind="tiers", prop="permeability"))
    out.append(dict(name="tiers-electric_conductivity", kind="tiers", prop="electric_conductivity"))
    out.append(dict(name="tiers-magnetic_conductivity", kind="tiers", prop="magnetic_conductivity"))
    return out


# ------------------------------------------------------------------------------------------------ oracle values
def norm9(v, default):
    """documented normalisation of a material property to a 3x3 tensor (independent of fdtdx)."""
    if v is None:
        v = default
    if isinstance(v, (int, float)):
        return np.diag([float(v)] * 3)
    a = np.asarray(v, dtype=float)
    if a.shape == (3,):
        return np.diag(a)
    return a.reshape(3, 3)


def tier_of(t):
    if np.any(np.abs(t - np.diag(np.diag(t))) > 0):
        return 9
    d = np.diag(t)
    return 1 if d[0] == d[1] == d[2] else 3


def comps(t, tier):
    if tier == 1:
        return np.array([t[0, 0]])
    if tier == 3:
        return np.diag(t).copy()
    return t.reshape(9).copy()


def expected_values(mkw, tiers):
    """per array kind the component vector a material paints (None if the array does not exist)."""
    eps, mu = norm9(mkw.get("permittivity"), 1.0), norm9(mkw.get("permeability"), 1.0)
    se, sm = norm9(mkw.get("electric_conductivity"), 0.0), norm9(mkw.get("magnetic_conductivity"), 0.0)
    out = {}
    out["inv_permittivities"] = comps(np.linalg.inv(eps), tiers["inv_permittivities"])
    out["inv_permeabilities"] = None if tiers["inv_permeabilities"] is None else comps(np.linalg.inv(mu), tiers["inv_permeabilities"])
    out["electric_conductivity"] = None if tiers["electric_conductivity"] is None else comps(se * SPACING, tiers["electric_conductivity"])
    out["magnetic_conductivity"] = None if tiers["magnetic_conductivity"] is None else comps(sm * SPACING, tiers["magnetic_conductivity"])
    return out


def expected_tiers(all_mkw):
    """widest tier any material needs; None = array absent (scalar 1.0 permeability / no conductivity array)."""
    eps = [norm9(m.get("permittivity"), 1.0) for m in all_mkw]
    mu = [norm9(m.get("permeability"), 1.0) for m in all_mkw]
    se = [norm9(m.get("electric_conductivity"), 0.0) for m in all_mkw]
    sm = [norm9(m.get("magnetic_conductivity"), 0.0) for m in all_mkw]
    t = {"inv_permittivities": max(tier_of(x) for x in eps)}
    t["inv_permeabilities"] = None if all(np.array_equal(x, np.eye(3)) for x in mu) else max(tier_of(x) for x in mu)
    t["electric_conductivity"] = None if all(not np.any(x) for x in se) else max(tier_of(x) for x in se)
    t["magnetic_conductivity"] = None if all(not np.any(x) for x in sm) else max(tier_of(x) for x in sm)
    return t


KINDS = ("inv_permittivities", "inv_permeabilities", "electric_conductivity", "magnetic_conductivity")


def build_scene(boxes, matset, orders=None, N=4, multi=None):
    import jax
    import jax.numpy as jnp

    import fdtdx

    ms = MATSETS[matset]
    cfg = fdtdx.SimulationConfig(time=1e-15, grid=fdtdx.UniformGrid(spacing=SPACING), backend="cpu", dtype=jnp.float64)
    vol = fdtdx.SimulationVolume(partial_grid_shape=(N, N, N), name="vol", **({"material": fdtdx.Material(**ms["vol"])} if ms["vol"] else {}))
    objs, cons = [vol], []
    for i, b in enumerate(boxes):
        kw = {} if orders is None else {"placement_order": int(orders[i])}
        if multi is not None and i == multi["index"]:
            mats = [("main", fdtdx.Material(**ms["objs"][i])), ("sib", fdtdx.Material(**ms["sib"]))]
            if multi["first"] == "sib":
                mats.reverse()
            o = fdtdx.Sphere(name=f"O{i}", radius=0.5 * (b[0][1] - b[0][0]) * SPACING, materials=dict(mats), material_name="main", **kw)
        else:
            o = fdtdx.UniformMaterialObject(name=f"O{i}", partial_grid_shape=tuple(h - l for l, h in b), material=fdtdx.Material(**ms["objs"][i]), **kw)
        objs.append(o)
        cons.append(o.set_grid_coordinates((0, 1, 2), ("-",) * 3, tuple(l for l, h in b)))
    return fdtdx.place_objects(object_list=objs, config=cfg, constraints=cons, key=jax.random.PRNGKey(0))


def arrays_np(arrays):
    out = {}
    for k in KINDS:
        v = getattr(arrays, k)
        if v is None:
            out[k] = None
        elif isinstance(v, (int, float)):
            out[k] = float(v)
        else:
            v = np.asarray(v)
            out[k] = float(v) if v.ndim == 0 else v
    return out


def cover_sets(boxes, N=4, masks=None):
    """cell -> tuple of covering object indices (1-based; 0 = volume covers everything).  ``masks`` (object index -> bool array
    over the domain) replaces the box footprint for shaped objects (the rasterisation itself is property C43)."""
    cov = {}
    for cell in itertools.product(range(N), repeat=3):
        cov[cell] = (0,) + tuple(i + 1 for i, b in enumerate(boxes)
                                 if (bool(masks[i][cell]) if masks and i in masks else all(b[a][0] <= cell[a] < b[a][1] for a in range(3))))
    return cov


def shape_masks(oc, multi, N=4):
    if multi is None:
        return None
    o = next(x for x in oc.objects if x.name == f"O{multi['index']}")
    m = np.zeros((N, N, N), dtype=bool)
    m[o.grid_slice] = np.asarray(o.get_voxel_mask_for_shape())
    if not m.any() or m.all():
        raise Inconclusive("sphere mask is empty or covers the whole domain (no painter boundary inside the box)")
    return {multi["index"]: m}


def concrete_check(boxes, matset, orders, A, N=4, masks=None):
    """independent concrete oracle: per cell the winner is the covering object with the largest (order, list index)."""
    ms = MATSETS[matset]
    mk = [ms["vol"]] + ms["objs"][: len(boxes)]
    tiers = expected_tiers(mk + ([ms["sib"]] if "sib" in ms else []))
    vals = [expected_values(m, tiers) for m in mk]
    ords = [-1000] + list(orders)
    bad = []
    for k in KINDS:
        a = A[k]
        if tiers[k] is None:
            ok = (a is None) if k != "inv_permeabilities" else (isinstance(a, float) and a == 1.0)
            if not ok:
                bad.append(f"{k}: expected {'scalar 1.0' if k == 'inv_permeabilities' else 'None'}, got {type(a).__name__ if not isinstance(a, np.ndarray) else a.shape}")
            continue
        if not isinstance(a, np.ndarray) or a.shape != (tiers[k], N, N, N):
            bad.append(f"{k}: expected shape {(tiers[k], N, N, N)}, got {None if a is None else getattr(a, 'shape', a)}")
            continue
        for cell, cs in cover_sets(boxes, N, masks).items():
            w = max(cs, key=lambda j: (ords[j], j))
            if not np.allclose(a[(slice(None),) + cell], vals[w][k], rtol=1e-9, atol=1e-18):
                bad.append(f"{k}{cell}: stored {a[(slice(None),) + cell].tolist()} but winner is object {w} with {vals[w][k].tolist()}")
                break
    return bad


# ------------------------------------------------------------------------------------------------ run
def run_case(c, case):
    if case["kind"] == "paint":
        return _paint(c, case)
    return _tiers(c, case)


def _paint(c, case):
    from fdtdx.fdtd.container import ObjectContainer
    from fdtdx.fdtd.initialization import _init_arrays

    c.functions.update(META["functions"][:2])
    matset = case["matset"]
    ms = MATSETS[matset]
    for gname, boxes, *rest in case["geoms"]:
        multi = rest[0] if rest else None
        boxes = [tuple(tuple(ax) for ax in b) for b in boxes]
        nb = len(boxes)
        oc, arrays0, params, config, info = build_scene(boxes, matset, multi=multi)
        masks = shape_masks(oc, multi)
        if multi is not None:
            c.functions.add("StaticMultiMaterialObject.get_material_mapping / materials.compute_ordered_names (Sphere with a permittivity tie in its materials dict)")
        ords, assume, ol = [], [], []
        for o in oc.objects:
            if o.name.startswith("O"):
                s, cc = pysym.fresh_int(f"order_{o.name}", -999, 999)
                ords.append(s)
                assume += cc
                o = o.aset("placement_order", s)
            ol.append(o)
        c.symvars += nb
        cont = ObjectContainer(object_list=ol, volume_idx=0)
        names = [o.name for o in ol]
        if names != ["vol"] + [f"O{i}" for i in range(nb)]:
            raise Inconclusive(f"unexpected object list order {names}")
        mk = [ms["vol"]] + ms["objs"][:nb]
        tiers = expected_tiers(mk + ([ms["sib"]] if multi is not None else []))
        vals = [expected_values(m, tiers) for m in mk]
        cov = cover_sets(boxes, masks=masks)
        zord = [z3.IntVal(-1000)] + [s.t for s in ords]

        def winner(j, cs):
            return z3.And(*[z3.Or(zord[k] < zord[j], z3.And(zord[k] == zord[j], z3.BoolVal(k < j))) for k in cs if k != j])

        seen_arrays = set()
        stats = dict(paths=0)

        def replay(m, boxes=boxes, multi=multi, masks=masks):
            orders = [int(model_value(m, s.t)) for s in ords]
            oc2, arr2, *_ = build_scene(boxes, matset, orders=orders, multi=multi)
            bad = concrete_check(boxes, matset, orders, arrays_np(arr2), masks=masks)
            return bool(bad), dict(geometry=gname, boxes=boxes, materials=matset, placement_orders=orders, list_order=["vol"] + [f"O{i}" for i in range(nb)], mismatches=bad[:4])

        def on_path(res, exc, pc):
            stats["paths"] += 1
            p = stats["paths"]
            if exc is not None:
                c.prove(f"[{gname}] _init_arrays does not raise #path{p}", z3.BoolVal(False), pc, replay, key=f"painter:exception:{matset}")
                return
            A = arrays_np(res[0])
            seen_arrays.add(tuple((k, None if A[k] is None else (A[k] if isinstance(A[k], float) else A[k].tobytes())) for k in KINDS))
            for k in KINDS:
                a = A[k]
                if tiers[k] is None:
                    ok = (a is None) if k != "inv_permeabilities" else (isinstance(a, float) and a == 1.0)
                    c.prove(f"[{gname}] {k} absent / scalar 1 #path{p}", z3.BoolVal(bool(ok)), pc, replay, key=f"tier:{k}:{matset}")
                    continue
                okshape = isinstance(a, np.ndarray) and a.shape == (tiers[k], 4, 4, 4)
                c.prove(f"[{gname}] {k} has {tiers[k]} components #path{p}", z3.BoolVal(bool(okshape)), pc, replay, key=f"tier:{k}:{matset}")
                if not okshape:
                    continue
                groups = {}
                for cell, cs in cov.items():
                    got = a[(slice(None),) + cell]
                    match = tuple(j for j in cs if np.allclose(got, vals[j][k], rtol=1e-9, atol=1e-18))
                    groups.setdefault((cs, match), cell)
                claim = z3.And(*[z3.Or(*[winner(j, cs) for j in match]) if match else z3.BoolVal(False) for (cs, match) in groups])
                c.prove(f"[{gname}] {k} painted by the highest order #path{p}", claim, pc, replay, key=f"painter:{k}:{matset}")

        ex = pysym.Explorer(assume, max_paths=400, timeout_ms=c.timeout_ms)
        try:
            ex.explore(lambda: _init_arrays(cont, config), on_path)
        except pysym.Budget as b:
            c.inconclusive.append(f"{c.name}: exploration budget: {b}")
        c.paths += ex.paths
        c.queries += ex.queries
        c.solver_s += ex.solver_s
        # vacuity twin: whenever two boxes share a cell the order really matters: at least two different arrays were produced
        overlapping = any(len(cs) > 2 for cs in cov.values())
        if overlapping:
            c.witness(f"[{gname}] different orders paint different arrays ({len(seen_arrays)} distinct results over {ex.paths} paths)", bool(len(seen_arrays) >= 2), assume)
        else:
            c.witness(f"[{gname}] orders are free", z3.BoolVal(True), assume)
        c.extra.setdefault("paths_per_geometry", {})[gname] = ex.paths


class _SymMath:
    """math module stand-in for the analysed module: isclose on symbolic numbers is its documented formula."""

    isclose = staticmethod(pysym.isclose)

    def __getattr__(self, name):
        return getattr(math, name)


def _tiers(c, case):
    import fdtdx
    from fdtdx import materials as matmod
    from fdtdx.fdtd.container import ObjectContainer

    c.functions.update(META["functions"][2:])
    prop = case["prop"]
    nobj = 2
    ent, assume, mats = [], [], []
    for i in range(nobj):
        es = []
        for j in range(9):
            diag = j in (0, 4, 8)
            if prop in ("permittivity", "permeability"):
                lo, hi = (Fraction(1, 2), 6) if diag else (-1, 1)
            else:
                lo, hi = (0, 3) if diag else (-1, 1)
            s, cc = pysym.fresh_real(f"{prop}_{i}_{j}", lo, hi)
            es.append(s)
            assume += cc
        ent.append(es)
        mats.append(fdtdx.Material(**{prop: tuple(es)}))
    c.symvars += 9 * nobj
    vol = fdtdx.SimulationVolume(name="vol", partial_grid_shape=(2, 2, 2))
    objs = [vol] + [fdtdx.UniformMaterialObject(name=f"O{i}", material=mats[i], partial_grid_shape=(1, 1, 1)) for i in range(nobj)]
    cont = ObjectContainer(object_list=objs, volume_idx=0)

    def zt(x):
        return x.t

    def iso(es, rel):
        d = [zt(es[0]), zt(es[4]), zt(es[8])]
        off = z3.And(*[zt(es[j]) == 0 for j in (1, 2, 3, 5, 6, 7)])
        if rel == 0:
            return z3.And(off, d[0] == d[1], d[1] == d[2])
        ab = lambda x: z3.If(x >= 0, x, -x)  # noqa: E731
        close = lambda a, b: ab(a - b) <= rel * z3.If(ab(a) >= ab(b), ab(a), ab(b))  # noqa: E731
        return z3.And(off, close(d[0], d[1]), close(d[1], d[2]))

    def diag(es):
        return z3.And(*[zt(es[j]) == 0 for j in (1, 2, 3, 5, 6, 7)])

    def is_const(es, v, rel):
        """tensor equals v * identity (exactly, or up to rel)."""
        off = z3.And(*[zt(es[j]) == 0 for j in (1, 2, 3, 5, 6, 7)])
        if rel == 0 or v == 0:
            return z3.And(off, *[zt(es[j]) == v for j in (0, 4, 8)])
        ab = lambda x: z3.If(x >= 0, x, -x)  # noqa: E731
        return z3.And(off, *[ab(zt(es[j]) - v) <= rel * z3.If(ab(zt(es[j])) >= v, ab(zt(es[j])), v) for j in (0, 4, 8)])

    short = {"permittivity": "permittivity", "permeability": "permeability", "electric_conductivity": "electric_conductivity", "magnetic_conductivity": "magnetic_conductivity"}[prop]
    preds = [(f"all_objects_isotropic_{short}", lambda rel: z3.And(*[iso(es, rel) for es in ent])),
             (f"all_objects_diagonally_anisotropic_{short}", lambda rel: z3.And(*[diag(es) for es in ent]))]
    if prop == "permeability":
        preds.append(("all_objects_non_magnetic", lambda rel: z3.And(*[is_const(es, 1, rel) for es in ent])))
    if prop == "electric_conductivity":
        preds.append(("all_objects_non_electrically_conductive", lambda rel: z3.And(*[is_const(es, 0, rel) for es in ent])))
    if prop == "magnetic_conductivity":
        preds.append(("all_objects_non_magnetically_conductive", lambda rel: z3.And(*[is_const(es, 0, rel) for es in ent])))
    REL = Fraction(1, 10**8)
    for pname, want in preds:
        def fn(pname=pname):
            return getattr(cont, pname)

        def post(res, exc, want=want):
            if exc is not None:
                return False
            got = res.t if isinstance(res, pysym.SymBool) else z3.BoolVal(bool(res))
            # needed tier is the exact one; math.isclose's relative tolerance may also accept a 1e-8 sliver
            return z3.And(z3.Implies(want(0), got), z3.Implies(got, want(REL)))

        def replay(m, pname=pname, want=want):
            vals = [[float(model_value(m, e.t)) for e in es] for es in ent]
            v, d = _replay_vals(vals, pname)
            if not v:
                # z3 likes witnesses that sit exactly on math.isclose's tolerance edge, where float rounding decides; try the
                # neighbouring witness with nearly-equal diagonal entries made exactly equal
                snapped = [list(t) for t in vals]
                for t in snapped:
                    for j in (4, 8):
                        if abs(t[j] - t[0]) <= 2e-9 * abs(t[0]):
                            t[j] = t[0]
                v, d = _replay_vals(snapped, pname)
            return v, d

        def _replay_vals(vals, pname):
            objs2 = [vol] + [fdtdx.UniformMaterialObject(name=f"O{i}", material=fdtdx.Material(**{prop: tuple(vals[i])}), partial_grid_shape=(1, 1, 1)) for i in range(nobj)]
            got = bool(getattr(ObjectContainer(object_list=objs2, volume_idx=0), pname))
            T = [np.array(v).reshape(3, 3) for v in vals]
            offzero = all(not np.any(t - np.diag(np.diag(t))) for t in T)
            relclose = lambda x, y: abs(x - y) <= 1e-8 * max(abs(x), abs(y))  # noqa: E731
            if "isotropic" in pname:
                exact = all(tier_of(t) == 1 for t in T)
                loose = offzero and all(relclose(t[0, 0], t[1, 1]) and relclose(t[1, 1], t[2, 2]) for t in T)
            elif "diagonally" in pname:
                exact = loose = offzero
            elif pname == "all_objects_non_magnetic":
                exact = all(np.array_equal(t, np.eye(3)) for t in T)
                loose = offzero and all(relclose(t[i, i], 1.0) for t in T for i in range(3))
            else:
                exact = loose = all(not np.any(t) for t in T)
            violated = (exact and not got) or (got and not loose)
            return violated, dict(predicate=pname, tensors=vals, got=got, needed=exact)

        with pysym.stub_module(matmod, math=_SymMath()):
            c.sym_explore(pname, fn, post, assume, replay, key=f"tier-predicate:{pname}", max_paths=3000)
        # vacuity twins: the predicate can be true and can be false
        c.witness(f"{pname} can hold", want(0), assume)
        c.witness(f"{pname} can fail", z3.Not(want(REL)), assume)
