"""C31 -- placement setups survive a JSON round trip (E2, structural; the string codec is replaced by its contract).

Weak claim, stated as such: for every serialisable kind (``JsonSetup.validate`` lists + config / grid / material /
constraint classes) a template instance is rebuilt with every float leaf a symbolic real, the listed count-like int
fields symbolic ints and up to four bool leaves symbolic bools (several None-patterns per kind as separate templates);
the real ``_export_json`` then ``_import_obj_from_json`` run on it under the concolic executor (constructors included:
both the original and the re-imported object are built by the real ``__init__`` / ``__post_init__``), and per path z3
discharges "same class, every public field equal" (leaf-wise term equality).  The exported tree is checked to consist
of JSON values only (str-keyed dicts, lists, numbers, strings, bools, None -- in particular no tuples, which
``json.dumps`` would silently turn into lists), which is what makes the ``json.dumps``/``json.loads`` pair an identity.
Because the symbolic leaves pass through the code untouched, the solver's part is small; the structural walk (field
sets, container kinds, None-patterns, constructor re-normalisation) is the content.  One concrete end-to-end scene per
tier (real ``JsonSetup.dumps``/``loads`` + ``place_objects`` on both) checks the link "equal public fields => same
grid slices and arrays".
"""
from __future__ import annotations

import dataclasses

import jax
import jax.numpy as jnp
import numpy as np
import z3

import fdtdx
import fdtdx.conversion.json as J
from fdtdx.core.jax.pytrees import TreeClass
from fdtdx.objects.object import GridCoordinateConstraint, PositionConstraint, SizeConstraint, SizeExtensionConstraint

from .. import pysym
from ..core import Inconclusive, model_value
from ..pysym import SymBool, SymNum

META = dict(
    functions=["conversion.json._export_json", "conversion.json._import_obj_from_json", "conversion.json.export_json_str / import_from_json (replay, e2e)",
               "conversion.json.JsonSetup.dumps / loads / validate (e2e)", "TreeClass.get_public_fields", "constructors (__init__/__post_init__) of every listed class"],
    assumptions=[
        "json.dumps/json.loads replaced by their contract: identity on JSON values (the exported tree is checked to contain only JSON values with string keys); float <-> decimal string conversion is Python's repr round trip (exact for finite floats)",
        "isinstance(x, float|int|str|bool) in conversion/json.py is rebound so that symbolic leaves count as numbers (harness-side stub of a builtin)",
        "symbolic leaves: all float fields; int fields named partial_grid_shape/grid_margins/grid_offsets/grid_offset/coordinates/interval/num_startup_periods/fixed_on_time_steps/mode_index; at most four bool fields per template; everything else (names, axes, directions, dtypes, arrays) is the template's concrete value",
        "paths on which the *original* object's constructor rejects the symbolic values are not legal inputs and are skipped",
        "jax arrays are exported as numpy arrays by design: array leaves are compared by shape and values, not by container type",
    ],
    outside="the placement equivalence itself beyond one concrete scene per tier (it follows from field equality by determinism of place_objects); classes not accepted by JsonSetup.validate (Sphere, Cylinder, Device, ...); non-finite floats; dict fields with non-string keys (export raises NotImplementedError by design)",
    bounds=dict(quick=dict(templates="about 45 over 27 classes"), thorough=dict(templates="about 45 over 27 classes, two symbolic-bool selections each")),
    timeout_ms=dict(quick=30000, thorough=60000),
)

INT_FIELDS = {"partial_grid_shape", "grid_margins", "grid_offsets", "grid_offset", "coordinates", "interval", "num_startup_periods",
              "fixed_on_time_steps", "mode_index"}
W = lambda **k: fdtdx.WaveCharacter(**k)  # noqa: E731


def _templates():
    """name -> thunk building a concrete, valid template instance."""
    vol = fdtdx.SimulationVolume(partial_grid_shape=(8, 8, 8))
    box = fdtdx.UniformMaterialObject(name="box", partial_grid_shape=(2, 3, None), partial_real_shape=(None, None, 1e-7), material=fdtdx.Material(permittivity=2.5))
    pmls, pcons = fdtdx.boundary_objects_from_config(fdtdx.BoundaryConfig.from_uniform_bound(thickness=2, boundary_type="pml"), vol)
    T = {}
    T["wave-wavelength"] = lambda: W(wavelength=1.55e-6)
    T["wave-period"] = lambda: W(period=5e-15, phase_shift=0.25)
    T["wave-frequency"] = lambda: W(frequency=2e14)
    T["switch-default"] = lambda: fdtdx.OnOffSwitch()
    T["switch-start-end"] = lambda: fdtdx.OnOffSwitch(start_time=1e-15, end_time=3e-15, interval=2)
    T["switch-periods"] = lambda: fdtdx.OnOffSwitch(start_after_periods=1.0, on_for_periods=2.5, period=4e-15)
    T["switch-end-duration"] = lambda: fdtdx.OnOffSwitch(end_after_periods=6.0, on_for_time=2e-15, period=4e-15, interval=3)
    T["switch-fixed"] = lambda: fdtdx.OnOffSwitch(fixed_on_time_steps=[1, 4, 5])
    T["switch-off"] = lambda: fdtdx.OnOffSwitch(is_always_off=True)
    T["profile-single"] = lambda: fdtdx.SingleFrequencyProfile(phase_shift=0.5, num_startup_periods=3)
    T["profile-gauss"] = lambda: fdtdx.GaussianPulseProfile(spectral_width=W(wavelength=4e-7), center_wave=W(frequency=2e14))
    T["material-scalar"] = lambda: fdtdx.Material(permittivity=2.25)
    T["material-diag"] = lambda: fdtdx.Material(permittivity=(2.0, 3.0, 4.0), permeability=1.5, electric_conductivity=(0.1, 0.2, 0.3))
    T["material-full"] = lambda: fdtdx.Material(permittivity=((2.0, 0.1, 0.0), (0.1, 3.0, 0.2), (0.0, 0.2, 4.0)), magnetic_conductivity=0.4)
    T["volume-grid"] = lambda: fdtdx.SimulationVolume(partial_grid_shape=(8, 6, 4))
    T["volume-real"] = lambda: fdtdx.SimulationVolume(partial_real_shape=(4e-7, 3e-7, None), partial_grid_shape=(None, None, 5), material=fdtdx.Material(permittivity=1.5))
    T["box-mixed"] = lambda: box
    T["box-position"] = lambda: fdtdx.UniformMaterialObject(name="b2", partial_real_shape=(1e-7, 2e-7, 3e-7), partial_real_position=(0.0, 1e-7, None), material=fdtdx.Material(permittivity=(2.0, 2.0, 3.0)))
    T["pml"] = lambda: list(pmls.values())[0]
    T["pml-other-face"] = lambda: list(pmls.values())[3]
    common = dict(wave_character=W(wavelength=1.2e-6), direction="+")
    T["source-uniform"] = lambda: fdtdx.UniformPlaneSource(name="s1", partial_grid_shape=(None, None, 1), fixed_E_polarization_vector=(1.0, 0.0, 0.0), amplitude=2.0, **common)
    T["source-uniform-tilted"] = lambda: fdtdx.UniformPlaneSource(name="s2", partial_grid_shape=(None, 1, None), fixed_H_polarization_vector=(0.0, 0.0, 1.0), azimuth_angle=10.0,
                                                               elevation_angle=5.0, switch=fdtdx.OnOffSwitch(start_time=1e-15), wave_character=W(period=4e-15), direction="-")
    T["source-gauss"] = lambda: fdtdx.GaussianPlaneSource(name="s3", partial_grid_shape=(None, None, 1), fixed_E_polarization_vector=(0.0, 1.0, 0.0), radius=3e-7, std=0.5,
                                                         temporal_profile=fdtdx.GaussianPulseProfile(spectral_width=W(wavelength=4e-7), center_wave=W(wavelength=1.2e-6)), **common)
    T["source-mode"] = lambda: fdtdx.ModePlaneSource(name="s4", partial_grid_shape=(1, None, None), mode_index=1, filter_pol="te", **common)
    T["det-energy"] = lambda: fdtdx.EnergyDetector(name="d1", partial_grid_shape=(2, 2, 2), reduce_volume=True)
    T["det-energy-slices"] = lambda: fdtdx.EnergyDetector(name="d2", partial_real_shape=(1e-7, None, None), as_slices=True, x_slice=1e-7, switch=fdtdx.OnOffSwitch(interval=2))
    T["det-field"] = lambda: fdtdx.FieldDetector(name="d3", partial_grid_shape=(2, 1, 2), components=("Ex", "Hz"), reduce_volume=False)
    T["det-poynting"] = lambda: fdtdx.PoyntingFluxDetector(name="d4", partial_grid_shape=(None, None, 1), direction="-", reduce_volume=True)
    T["det-phasor"] = lambda: fdtdx.PhasorDetector(name="d5", partial_grid_shape=(2, 2, 1), wave_characters=[W(wavelength=1.2e-6), W(frequency=2e14)], components=("Ey",))
    T["det-phasor-flux"] = lambda: fdtdx.PhasorPoyntingFluxDetector(name="d6", partial_grid_shape=(None, 1, None), wave_characters=(W(wavelength=1e-6),), direction="+")
    T["det-mode-overlap"] = lambda: fdtdx.ModeOverlapDetector(name="d7", partial_grid_shape=(1, None, None), wave_characters=(W(wavelength=1e-6),), direction="+", mode_index=0)
    T["det-closed-surface"] = lambda: fdtdx.ClosedSurfacePoyntingFluxDetector(name="d8", partial_grid_shape=(3, 3, 3))
    T["det-closed-surface-phasor"] = lambda: fdtdx.ClosedSurfacePhasorPoyntingFluxDetector(name="d9", partial_grid_shape=(3, 3, 3), wave_characters=(W(wavelength=1e-6),))
    T["con-position"] = lambda: box.place_relative_to(vol, axes=(0, 2), own_positions=(-1.0, 0.5), other_positions=(1.0, -0.5), margins=(1e-8, 0.0), grid_margins=(1, 0))
    T["con-center"] = lambda: box.place_at_center(vol)
    T["con-size"] = lambda: box.size_relative_to(vol, axes=(0, 1), proportions=(0.5, 0.25), offsets=(1e-8, 0.0), grid_offsets=(0, 2))
    T["con-same-size"] = lambda: box.same_size(vol, axes=(2,))
    T["con-extend"] = lambda: box.extend_to(vol, axis=1, direction="+", other_position=-1.0, offset=2e-8, grid_offset=1)
    T["con-extend-none"] = lambda: box.extend_to(None, axis=2, direction="-")
    T["con-grid-coordinates"] = lambda: box.set_grid_coordinates(axes=(0, 1), sides=("-", "+"), coordinates=(1, 6))
    T["con-pml"] = lambda: pcons[0]
    T["grid-uniform"] = lambda: fdtdx.UniformGrid(spacing=5e-8)
    T["grid-rectilinear"] = lambda: fdtdx.RectilinearGrid(x_edges=jnp.asarray([0.0, 1e-8, 3e-8, 4e-8]), y_edges=jnp.asarray([0.0, 2e-8, 3e-8]), z_edges=np.asarray([0.0, 1e-8, 2e-8]))
    T["config-uniform"] = lambda: fdtdx.SimulationConfig(time=1e-13, grid=fdtdx.UniformGrid(spacing=5e-8), backend="cpu", dtype=jnp.float32, courant_factor=0.9)
    T["config-rectilinear-f64"] = lambda: fdtdx.SimulationConfig(time=2e-14, grid=T["grid-rectilinear"](), backend="cpu", dtype=jnp.float64, use_complex_fields=True, symmetry=(0, 1, 0))
    return T


def cases(tier, seed):
    names = list(_templates())
    out = []
    groups = {}
    for n in names:
        groups.setdefault(n.split("-")[0], []).append(n)
    for g, ns in groups.items():
        out.append(dict(name=f"roundtrip-{g}", kind="roundtrip", templates=ns))
    out.append(dict(name="e2e-placement", kind="e2e"))
    return out


# ------------------------------------------------------------------------------------------------------- symbolisation
class _Sym:
    def __init__(self, prefix, max_bools, bool_offset):
        self.prefix, self.leaves, self.cons = prefix, [], []
        self.max_bools, self.bool_seen, self.bool_offset, self.bool_used = max_bools, 0, bool_offset, 0

    def leaf(self, v, path, intfield):
        nm = f"{self.prefix}:{path}"
        if isinstance(v, bool):
            self.bool_seen += 1
            if self.bool_seen > self.bool_offset and self.bool_used < self.max_bools:
                self.bool_used += 1
                s = pysym.fresh_bool(nm)
                self.leaves.append((nm, s, v))
                return s
            return v
        if isinstance(v, float):
            s, _ = pysym.fresh_real(nm)
            self.leaves.append((nm, s, v))
            return s
        if isinstance(v, int) and intfield:
            s, _ = pysym.fresh_int(nm)
            self.cons.append(s.t >= 0)  # counts / indices
            self.leaves.append((nm, s, v))
            return s
        return v

    def plan(self, v, path="", intfield=False):
        """value -> builder thunk taking a substitution {leaf name: value}."""
        if isinstance(v, TreeClass):
            cls = type(v)
            parts = {f.name: self.plan(f.value, f"{path}.{f.name}", f.name in INT_FIELDS) for f in v.get_public_fields()}
            return lambda sub: cls(**{k: p(sub) for k, p in parts.items()})
        if dataclasses.is_dataclass(v) and not isinstance(v, type):
            cls = type(v)
            parts = {f.name: self.plan(getattr(v, f.name), f"{path}.{f.name}", f.name in INT_FIELDS) for f in dataclasses.fields(v) if f.init}
            return lambda sub: cls(**{k: p(sub) for k, p in parts.items()})
        if isinstance(v, (tuple, list)):
            cls = type(v)
            parts = [self.plan(x, f"{path}[{i}]", intfield) for i, x in enumerate(v)]
            return lambda sub: cls(p(sub) for p in parts)
        if isinstance(v, dict):
            parts = {k: self.plan(x, f"{path}[{k}]", intfield) for k, x in v.items()}
            return lambda sub: {k: p(sub) for k, p in parts.items()}
        if isinstance(v, (bool, int, float)) and not isinstance(v, (np.generic,)):
            s = self.leaf(v, path, intfield)
            if isinstance(s, (SymNum, SymBool)):
                nm = f"{self.prefix}:{path}"
                return lambda sub: sub[nm]
        return lambda sub: v


# ------------------------------------------------------------------------------------------------------- comparison
class _Diff(Exception):
    pass


def _same(a, b, path, eqs):
    """structural equality of original and re-imported value; symbolic leaves contribute z3 equalities to ``eqs``."""
    if isinstance(a, (SymNum, SymBool)) or isinstance(b, (SymNum, SymBool)):
        if type(a) is not type(b):
            raise _Diff(f"{path}: {type(a).__name__} became {type(b).__name__}")
        if a.t.sort() != b.t.sort():
            raise _Diff(f"{path}: sort {a.t.sort()} became {b.t.sort()}")
        eqs.append(a.t == b.t)
        return
    if isinstance(a, TreeClass):
        if type(a) is not type(b):
            raise _Diff(f"{path}: class {type(a).__name__} became {type(b).__name__}")
        fa, fb = {f.name: f.value for f in a.get_public_fields()}, {f.name: f.value for f in b.get_public_fields()}
        for k in fa:
            _same(fa[k], fb[k], f"{path}.{k}", eqs)
        return
    if dataclasses.is_dataclass(a) and not isinstance(a, type):
        if type(a) is not type(b):
            raise _Diff(f"{path}: class {type(a).__name__} became {type(b).__name__}")
        for f in dataclasses.fields(a):
            _same(getattr(a, f.name), getattr(b, f.name), f"{path}.{f.name}", eqs)
        return
    if isinstance(a, (np.ndarray, jax.Array)):
        if not isinstance(b, (np.ndarray, jax.Array)) or np.shape(a) != np.shape(b) or not np.array_equal(np.asarray(a), np.asarray(b)):
            raise _Diff(f"{path}: array changed")
        return
    if isinstance(a, (tuple, list)):
        if type(a) is not type(b) or len(a) != len(b):
            raise _Diff(f"{path}: {type(a).__name__}[{len(a)}] became {type(b).__name__}[{len(b) if hasattr(b, '__len__') else '?'}]")
        for i, (x, y) in enumerate(zip(a, b)):
            _same(x, y, f"{path}[{i}]", eqs)
        return
    if isinstance(a, dict):
        if not isinstance(b, dict) or set(a) != set(b):
            raise _Diff(f"{path}: dict keys changed")
        for k in a:
            _same(a[k], b[k], f"{path}[{k}]", eqs)
        return
    if type(a) is not type(b) and not (isinstance(a, type) and isinstance(b, type)):
        raise _Diff(f"{path}: {type(a).__name__} became {type(b).__name__}")
    if isinstance(a, float) and a != a and b != b:
        return
    if not (a is b or a == b):
        raise _Diff(f"{path}: {a!r} became {b!r}")


def _json_only(d, path="$"):
    """the exported tree must be a JSON value (what json.dumps/loads reproduce identically)."""
    if d is None or isinstance(d, (str, bool, int, float, SymNum, SymBool)):
        return
    if isinstance(d, list):
        for i, x in enumerate(d):
            _json_only(x, f"{path}[{i}]")
        return
    if isinstance(d, dict):
        for k, x in d.items():
            if not isinstance(k, str):
                raise _Diff(f"{path}: non-string key {k!r}")
            _json_only(x, f"{path}.{k}")
        return
    raise _Diff(f"{path}: {type(d).__name__} is not a JSON value")


def _sym_isinstance(o, tp):
    if isinstance(o, (SymNum, SymBool)):
        try:
            return any(t in (float, int, bool) for t in getattr(tp, "__args__", (tp,) if isinstance(tp, type) else tp))
        except TypeError:
            return False
    return isinstance(o, tp)


# ------------------------------------------------------------------------------------------------------- cases
def run_case(c, case):
    c.functions.update(META["functions"])
    if case["kind"] == "e2e":
        return _e2e(c)
    T = _templates()
    for tn in case["templates"]:
        template = T[tn]()
        for sel in ((0,) if c.tier == "quick" else (0, 4)):
            sy = _Sym(tn, 4, sel)
            build = sy.plan(template)
            if sel and sy.bool_used == 0:
                continue
            sub = {nm: s for nm, s, _ in sy.leaves}
            c.symvars += len(sub)

            def fn(build=build, sub=sub):
                try:
                    orig = build(sub)
                except pysym.PathAbort:
                    raise
                except Exception as ex:  # noqa: BLE001  (the symbolic values are not a legal instance on this path)
                    return ("illegal", repr(ex)[:100])
                with pysym.stub_module(J, isinstance=_sym_isinstance):
                    d = J._export_json(orig)
                    _json_only(d)
                    back = J._import_obj_from_json(d)
                return ("ok", orig, back)

            stat = {"ok": 0, "illegal": 0, "exc": 0}

            def post(res, exc, stat=stat):
                if exc is not None:
                    stat["exc"] += 1
                    return False
                if res[0] == "illegal":
                    stat["illegal"] += 1
                    return True
                stat["ok"] += 1
                eqs = []
                try:
                    _same(res[1], res[2], tn, eqs)
                except _Diff:
                    return False
                return z3.And(*eqs) if eqs else True

            def replay(m, build=build, leaves=sy.leaves):
                conc = {nm: model_value(m, s.t) for nm, s, _ in leaves}
                try:
                    orig = build(conc)
                except Exception as ex:  # noqa: BLE001
                    raise Inconclusive(f"witness is not a legal instance: {ex!r}"[:200])
                try:
                    back = J.import_from_json(J.export_json_str(orig))
                except Exception as ex:  # noqa: BLE001
                    return True, dict(template=tn, leaves=conc, raised=repr(ex)[:300])
                try:
                    _same(orig, back, tn, [])
                except _Diff as dd:
                    return True, dict(template=tn, leaves=conc, difference=str(dd))
                return False, dict(template=tn, leaves=conc)

            ex = c.sym_explore(f"{tn}[bools from {sel}]", fn, post, sy.cons, replay, key=f"roundtrip:{tn}", max_paths=600, int_range=8)
            c.extra[f"{tn}[{sel}]"] = dict(stat, symbolic_leaves=len(sub))
            if stat["ok"] == 0 and stat["exc"] == 0:
                raise Inconclusive(f"{tn}: no path on which the symbolic instance is legal ({stat}) -- the round trip was never exercised")
        # the template itself through the real string codec (ties the stubbed codec to the real one)
        back = J.import_from_json(J.export_json_str(template))
        try:
            _same(template, back, tn, [])
            c.prove(f"{tn}: concrete template survives export_json_str / import_from_json", True)
        except _Diff as dd:
            c.fail_concrete(f"{tn}: concrete template changes in the real round trip", dict(template=tn, difference=str(dd)), key=f"roundtrip:{tn}")
    x = z3.Real("x")
    c.witness("twin: leaves are unconstrained", x != 0, [])


def _e2e(c):
    """one concrete scene through the real JsonSetup string round trip and place_objects on both sides."""
    from fdtdx.conversion.json import JsonSetup

    cfg = fdtdx.SimulationConfig(time=4e-15, grid=fdtdx.UniformGrid(spacing=5e-8), backend="cpu", dtype=jnp.float64)
    vol = fdtdx.SimulationVolume(partial_grid_shape=(10, 8, 8), material=fdtdx.Material(permittivity=1.5))
    pmls, pcons = fdtdx.boundary_objects_from_config(fdtdx.BoundaryConfig.from_uniform_bound(thickness=2, boundary_type="pml"), vol)
    box = fdtdx.UniformMaterialObject(name="box", partial_grid_shape=(3, 2, None), partial_real_shape=(None, None, 1e-7), material=fdtdx.Material(permittivity=(2.0, 3.0, 4.0)))
    src = fdtdx.UniformPlaneSource(name="src", partial_grid_shape=(1, None, None), wave_character=W(wavelength=6e-7), direction="+", fixed_E_polarization_vector=(0.0, 1.0, 0.0))
    det = fdtdx.EnergyDetector(name="det", partial_grid_shape=(2, 2, 2), switch=fdtdx.OnOffSwitch(interval=2))
    cons = list(pcons) + [box.place_relative_to(vol, axes=(0, 1, 2), own_positions=(-1, 0, 0), other_positions=(0.0, 0, 0), grid_margins=(1, 0, 0)),
                          src.set_grid_coordinates(axes=(0,), sides=("-",), coordinates=(3,)), det.place_at_center(vol)]
    objs = [vol] + list(pmls.values()) + [box, src, det]
    setup = JsonSetup(config=cfg, object_list=objs, constraints=cons)
    try:
        back = JsonSetup.loads(setup.dumps())
    except Exception as ex:  # noqa: BLE001
        c.fail_concrete("e2e: JsonSetup.dumps / loads raises on a legal setup", dict(exception=f"{type(ex).__name__}: {ex}"[:400]), key="e2e:exception")
        c.witness("twin (concrete case): solver reachable", z3.Real("x") != 0, [])
        return
    key = jax.random.PRNGKey(0)
    a = fdtdx.place_objects(object_list=setup.object_list, config=setup.config, constraints=setup.constraints, key=key)
    b = fdtdx.place_objects(object_list=back.object_list, config=back.config, constraints=back.constraints, key=key)
    sa = {o.name: o.grid_slice_tuple for o in a[0].objects}
    sb = {o.name: o.grid_slice_tuple for o in b[0].objects}
    if sa != sb:
        c.fail_concrete("e2e: grid slices differ after the JSON round trip", dict(original=sa, imported=sb), key="e2e:slices")
    else:
        c.prove("e2e: same grid slices", True)
    la, lb = jax.tree_util.tree_leaves(a[1]), jax.tree_util.tree_leaves(b[1])
    same = len(la) == len(lb) and all(np.shape(x) == np.shape(y) and np.array_equal(np.asarray(x), np.asarray(y)) for x, y in zip(la, lb))
    if not same:
        c.fail_concrete("e2e: material / field arrays differ after the JSON round trip", dict(leaves=len(la), leaves_imported=len(lb)), key="e2e:arrays")
    else:
        c.prove("e2e: same material and field arrays", True)
    c.extra["e2e_objects"] = len(objs)
    x = z3.Real("x")
    c.witness("twin (concrete case): solver reachable", x != 0, [])
