"""C41 -- wave descriptions and temporal profiles are self-consistent (E2 for WaveCharacter, E1 + UF cos/exp for profiles).

* ``WaveCharacter.get_period/get_frequency/get_wavelength`` run under pysym with the one given quantity a symbolic
  positive real: period*frequency = 1, wavelength = c*period (c = 299792458 m/s, written here), the given getter
  returns the given value.
* ``CustomTimeSignalProfile.get_amplitude`` traced with the whole signal and the time symbolic (``floor`` -> ToInt,
  the gathers -> If chains): exact at every sample time, linear between consecutive samples, ``outside_value`` outside.
* ``SingleFrequencyProfile`` / ``GaussianPulseProfile`` / ``gaussian_envelope`` / ``linear_rampup`` traced with time,
  period / frequencies / phase symbolic; cos/exp of symbolic arguments are uninterpreted functions with sound axioms:
  |amplitude| <= 1 everywhere, CW amplitude bounded by the linear ramp and equal to it when the carrier phase is 0.
"""
from __future__ import annotations

import math
import time
from fractions import Fraction

import numpy as np
import z3

from .. import jx2smt as jx
from .. import pysym, sc
from ..core import Inconclusive, model_array, model_value
from ..sc import isz

C0 = 299792458  # speed of light in vacuum, m/s (exact SI value) -- the harness' own constant

META = dict(
    functions=["core.wavelength.WaveCharacter.get_period/get_frequency/get_wavelength", "objects.sources.profile.CustomTimeSignalProfile.get_amplitude",
               "SingleFrequencyProfile.get_amplitude", "GaussianPulseProfile.get_amplitude", "core.window.gaussian_envelope", "core.window.linear_rampup"],
    assumptions=[
        "reals instead of floats; cos/exp are uninterpreted functions with sound axioms (|cos|<=1, cos 0 = 1, exp>0, exp 0 = 1, exp monotone)",
        "the given wave quantity is a positive real; period > 0, spectral width > 0, sigma > 0, ramp duration > 0",
        "CustomTimeSignalProfile: time_step_duration / start_time are enumerated concrete floats (taken as exact rationals), signal and time symbolic; "
        "'between samples' = between consecutive sample times start+k*dt, k < N-1; 'outside' = t < start or t >= start+N*dt (documented outside_value)",
        "CW profile: 'ramps up' = |amplitude| <= clip(t/(num_startup_periods*period),0,1), 0 for t<=0, and equal to that ramp when the carrier phase is 0",
    ],
    outside="float round-off of t*dt at sample boundaries; TukeyWindow; plotting / spectrum helpers; signals longer than the listed N; nearest-mode values between samples",
    bounds=dict(quick=dict(N=[2, 4], dt_start=[(0.5, 0.25), (1e-16, 3e-16)], startup_periods=[4, 1]),
                thorough=dict(N=[2, 3, 4, 6], dt_start=[(0.5, 0.25), (1e-16, 3e-16), (0.3, -0.7)], startup_periods=[4, 1, 3])),
    timeout_ms=dict(quick=30000, thorough=120000),
)


def cases(tier, seed):
    out = [dict(name="wavecharacter", kind="wave")]
    cust = [(4, 0.5, 0.25, "linear", 0.0), (2, 1e-16, 3e-16, "linear", -2.5), (4, 1e-16, 3e-16, "nearest", 0.0)]
    if tier != "quick":
        cust += [(3, 0.3, -0.7, "linear", 1.5), (6, 0.5, 0.25, "linear", 0.0), (6, 0.3, -0.7, "nearest", 0.25), (2, 0.5, 0.0, "nearest", 0.0)]
    for n, dt, st, mode, ov in cust:
        out.append(dict(name=f"custom-{mode}-N{n}-dt{dt}-start{st}", kind="custom", N=n, dt=dt, start=st, mode=mode, outside=ov))
    for n in ([4, 1] if tier == "quick" else [4, 1, 3]):
        out.append(dict(name=f"single-frequency-n{n}", kind="sf", n=n))
    for given in (["frequency", "wavelength"] if tier == "quick" else ["frequency", "wavelength", "period"]):
        out.append(dict(name=f"gaussian-pulse-width-by-{given}", kind="gauss", given=given))
    out.append(dict(name="window-functions", kind="window"))
    return out


def _scalar(a):
    return jx.lift(a).reshape(-1)[0]


# ------------------------------------------------------------------------------------------------ WaveCharacter (E2)
def _wave(c, case):
    from fdtdx.core import wavelength as wl

    c.functions.update(META["functions"][:1])
    for given in ("period", "wavelength", "frequency"):
        v, cons = pysym.fresh_real("v_" + given, 0, None, lo_strict=True)
        ph, _ = pysym.fresh_real("phase")
        c.symvars += 2

        def fn(given=given, v=v, ph=ph):
            w = wl.WaveCharacter(phase_shift=ph, **{given: v})
            return w.get_period(), w.get_frequency(), w.get_wavelength()

        def post(res, exc, given=given, v=v):
            if exc is not None:
                return False
            p, f, lam = (pysym.term(x) for x in res)
            p, f, lam = (z3.ToReal(x) if z3.is_int(x) else x for x in (p, f, lam))
            own = dict(period=p, frequency=f, wavelength=lam)[given]
            return z3.And(p * f == 1, lam == C0 * p, own == v.t)

        def replay(m, given=given, v=v):
            x = model_value(m, v.t)
            w = wl.WaveCharacter(**{given: x})
            p, f, lam = w.get_period(), w.get_frequency(), w.get_wavelength()
            bad = abs(p * f - 1) > 1e-12 or abs(lam - C0 * p) > 1e-12 * abs(lam) or dict(period=p, frequency=f, wavelength=lam)[given] != x
            return bool(bad), dict(given=given, value=x, period=p, frequency=f, wavelength=lam)

        with pysym.stub_module(wl):
            c.sym_explore(f"given {given}", fn, post, cons, replay, key=f"wavecharacter:{given}")
    v, cons = pysym.fresh_real("v", 0, None, lo_strict=True)
    c.witness("twin: period != wavelength for the same description", v.t / C0 != v.t, cons)


# ------------------------------------------------------------------------------------------------ custom signal (E1)
def _custom(c, case):
    import jax.numpy as jnp

    from fdtdx.objects.sources.profile import CustomTimeSignalProfile

    N, DT, ST, mode, OV = case["N"], case["dt"], case["start"], case["mode"], case["outside"]
    c.functions.update([META["functions"][1]])
    sig, tt = jx.symarr("s", (N,)), jx.symarr("t", (2,))
    c.symvars += N + 2

    def fn(s, t):
        p = CustomTimeSignalProfile(signal=s, time_step_duration=DT, start_time=ST, interpolation=mode, outside_value=OV)
        return p.get_amplitude(t, 1.0, 0.3)

    t0 = time.time()
    it = jx.Interp()
    out, tr = jx.call(fn, sig, tt, interp=it)
    c.interp_s += time.time() - t0
    out = jx.lift(out)
    rng = np.random.default_rng(c.seed + 41)
    s0, tq = rng.normal(size=N), np.array([ST + 0.37 * DT * (N - 1), ST + 0.81 * DT])
    c.validate(jx.to_numeric(tr(jx.fracarr(s0), jx.fracarr(tq))), np.asarray(fn(jnp.asarray(s0), jnp.asarray(tq))), "custom profile")
    dt, st, ov = Fraction(DT), Fraction(ST), Fraction(OV)
    key = f"custom:{mode}"

    def oracle(sv, tv):
        """exact-rational reference: (value or None where the statement is silent, distance to the nearest class boundary in units of dt)"""
        x = (Fraction(float(tv)) - st) / dt
        k = math.floor(x)
        margin = float(min(abs(x - j) for j in (0, N - 1, N)))
        if x < 0 or x >= N:
            return ov, margin
        if k >= N - 1:
            return (Fraction(float(sv[N - 1])) if x == N - 1 else None), margin
        f = x - k
        if mode == "linear":
            return (1 - f) * Fraction(float(sv[k])) + f * Fraction(float(sv[k + 1])), margin
        return (Fraction(float(sv[k])) if f == 0 else None), margin

    for j in range(2):
        T, A = tt[j], out[j]
        assume = []

        def replay(m, j=j):
            sv, tv = model_array(m, sig), model_array(m, tt)
            got = np.asarray(fn(jnp.asarray(sv), jnp.asarray(tv)))[j]
            want, margin = oracle(sv, tv[j])
            if want is None:
                return False, dict(note="oracle silent at the witness", t=float(tv[j]))
            bad = abs(float(got) - float(want)) > 1e-9 * (1 + float(np.max(np.abs(sv))) + abs(OV))
            if bad and margin < 1e-9 and abs(float(want) - OV) > 0 and (margin > 0 or not _dyadic(DT, ST)):
                raise Inconclusive("witness sits on the edge of the sampled window where float rounding of (t-start)/dt decides")
            return bool(bad), dict(signal=sv, t=tv, entry=j, got=float(got), want=float(want))

        for k in range(N):
            c.prove(f"t[{j}] exact at sample {k}", z3.Implies(T == z3.RealVal(st + k * dt), A == sig[k]), assume, replay, key=key + ":exact-at-sample")
        if mode == "linear":
            for k in range(N - 1):
                lo, hi = z3.RealVal(st + k * dt), z3.RealVal(st + (k + 1) * dt)
                c.prove(f"t[{j}] linear between samples {k},{k + 1}",
                        z3.Implies(z3.And(T >= lo, T <= hi), A * z3.RealVal(dt) == sig[k] * (hi - T) + sig[k + 1] * (T - lo)), assume, replay, key=key + ":linear-between")
        c.prove(f"t[{j}] outside the sampled window => outside_value", z3.Implies(z3.Or(T < z3.RealVal(st), T >= z3.RealVal(st + N * dt)), A == z3.RealVal(ov)),
                assume, replay, key=key + ":outside")
    for kind, cond, desc in it.side:
        c.prove(f"definedness {kind}", cond, [], None, key=key + ":definedness")
    c.witness("twin: amplitude differs from the first sample and from outside_value", z3.And(out[0] != sig[0], out[0] != z3.RealVal(ov), out[1] != out[0]), [])


def _dyadic(*vals):
    for v in vals:
        d = Fraction(v).denominator
        if d & (d - 1) or d > 2**20:
            return False
    return True


# ------------------------------------------------------------------------------------------------ CW profile (E1 + UF cos)
def _sf(c, case):
    import jax.numpy as jnp

    from fdtdx.objects.sources.profile import SingleFrequencyProfile

    n = case["n"]
    c.functions.update([META["functions"][2], META["functions"][5]])
    t, per, ph = (jx.symarr(x, ()) for x in ("t", "per", "ph"))
    T, P, PH = t[()], per[()], ph[()]
    c.symvars += 3
    prof = SingleFrequencyProfile(num_startup_periods=n)
    own_phase = Fraction(float(prof.phase_shift))

    def fn(t, per, ph):
        return prof.get_amplitude(t, per, ph)

    t0 = time.time()
    it = jx.Interp()
    out, tr = jx.call(fn, t, per, ph, interp=it)
    c.interp_s += time.time() - t0
    A = _scalar(out)
    cv = (0.7e-15, 1.3e-15, 0.4)
    c.validate(jx.to_numeric(tr(*[jx.fracarr(np.asarray(v)) for v in cv])), np.asarray(fn(*[jnp.asarray(v) for v in cv])), "single frequency profile")
    dom = [P > 0]
    x = T / (n * P)
    ramp = z3.If(x < 0, z3.RealVal(0), z3.If(x > 1, z3.RealVal(1), x))
    carrier_phase = z3.RealVal(Fraction(2 * math.pi)) * T / P + PH + z3.RealVal(own_phase)
    ax = sc.axioms_for([A])
    key = f"single-frequency:n{n}"

    def run(m):
        tv, pv, hv = model_value(m, T), model_value(m, P), model_value(m, PH)
        a = float(fn(jnp.asarray(tv), jnp.asarray(pv), jnp.asarray(hv)))
        r = min(max(tv / (n * pv), 0.0), 1.0)
        return a, r, dict(t=tv, period=pv, phase_shift=hv, amplitude=a, ramp=r)

    def rp(check):
        def replay(m):
            a, r, d = run(m)
            return bool(check(a, r, d)), d
        return replay

    c.prove("|amplitude| <= 1", z3.And(A <= 1, A >= -1), dom + ax, rp(lambda a, r, d: abs(a) > 1 + 1e-12), key=key + ":unit-bound")
    c.prove("|amplitude| <= linear ramp", z3.And(A <= ramp, A >= -ramp), dom + ax, rp(lambda a, r, d: abs(a) > r + 1e-9), key=key + ":ramp-bound")
    c.prove("t <= 0 => amplitude == 0", z3.Implies(T <= 0, A == 0), dom + ax, rp(lambda a, r, d: d["t"] <= 0 and a != 0), key=key + ":zero-before-start")
    # carrier phase 0 (cos = 1): the amplitude is the ramp itself -- linear from 0 at t=0 to 1 at t = n*period, 1 afterwards
    zero = [carrier_phase == 0]

    def rzero(m):
        # choose the phase so that the float carrier phase is (numerically) a multiple of 2*pi at the witness time
        tv, pv = model_value(m, T), model_value(m, P)
        hv = -(2 * math.pi * tv / pv + float(own_phase))
        a = float(fn(jnp.asarray(tv), jnp.asarray(pv), jnp.asarray(hv)))
        r = min(max(tv / (n * pv), 0.0), 1.0)
        if abs(tv / pv) > 1e6:
            raise Inconclusive("witness time is more than 1e6 periods from 0: float carrier phase not controllable")
        return abs(a - r) > 1e-6, dict(t=tv, period=pv, phase_shift=hv, amplitude=a, ramp=r)

    c.prove("carrier phase 0 => amplitude == ramp(t)", A == ramp, dom + zero + ax, rzero, key=key + ":ramp-shape")
    for kind, cond, desc in it.side:
        c.prove(f"definedness {kind}", cond, dom, rp(lambda a, r, d: not math.isfinite(a)), key=key + ":definedness")
    c.witness("twin: amplitude strictly inside the ramp-up", z3.And(A > 0, A < 1, T > 0, T < n * P), dom + zero + ax)
    c.witness("twin: full amplitude after the ramp", z3.And(A == 1, T > n * P), dom + zero + ax)


# ------------------------------------------------------------------------------------------------ Gaussian pulse (E1 + UF exp/cos)
def _gauss(c, case):
    import jax.numpy as jnp

    from fdtdx.core.wavelength import WaveCharacter
    from fdtdx.objects.sources.profile import GaussianPulseProfile

    given = case["given"]
    c.functions.update([META["functions"][3], META["functions"][4], META["functions"][0]])
    t, w, fc, ph, cph = (jx.symarr(x, ()) for x in ("t", "w", "fc", "ph", "cph"))
    T, W, FC, PH, CPH = t[()], w[()], fc[()], ph[()], cph[()]
    c.symvars += 5

    def fn(t, w, fc, ph, cph):
        prof = GaussianPulseProfile(spectral_width=WaveCharacter(**{given: w}), center_wave=WaveCharacter(frequency=fc, phase_shift=cph))
        return prof.get_amplitude(t, 1.0, ph)

    t0 = time.time()
    it = jx.Interp()
    out, tr = jx.call(fn, t, w, fc, ph, cph, interp=it)
    c.interp_s += time.time() - t0
    A = _scalar(out)
    wv = dict(frequency=2.0e13, wavelength=1.5e-5, period=5e-14)[given]
    cv = (1.1e-14, wv, 3.0e14, 0.2, -0.4)
    c.validate(jx.to_numeric(tr(*[jx.fracarr(np.asarray(v)) for v in cv])), np.asarray(fn(*[jnp.asarray(v) for v in cv])), "gaussian pulse profile")
    dom = [W > 0]
    ax = sc.axioms_for([A])
    key = f"gaussian-pulse:{given}"
    twopi = z3.RealVal(Fraction(2 * math.pi))
    carrier_phase = twopi * FC * T + PH + CPH

    def replay_free(m):
        v = [model_value(m, q) for q in (T, W, FC, PH, CPH)]
        a = float(fn(*[jnp.asarray(q) for q in v]))
        return not (abs(a) <= 1 + 1e-12), dict(inputs=v, amplitude=a)

    def replay_zero(m):
        v = [model_value(m, q) for q in (T, W, FC, PH, CPH)]
        v[3] = -(2 * math.pi * v[2] * v[0] + v[4])  # carrier phase 0 at the witness time
        if abs(v[2] * v[0]) > 1e6:
            raise Inconclusive("witness more than 1e6 carrier periods from 0")
        a = float(fn(*[jnp.asarray(q) for q in v]))
        return not (0 <= a <= 1 + 1e-12), dict(inputs=v, amplitude=a)

    c.prove("|amplitude| <= 1", z3.And(A <= 1, A >= -1), dom + ax, replay_free, key=key + ":unit-bound")
    c.prove("carrier phase 0 => amplitude = envelope in (0, 1]", z3.And(A > 0, A <= 1), dom + [carrier_phase == 0] + ax, replay_zero, key=key + ":envelope-bound")
    for kind, cond, desc in it.side:
        c.prove(f"definedness {kind}", cond, dom, replay_free, key=key + ":definedness")
    c.witness("twin: amplitude can be positive and below 1", z3.And(A > 0, A < 1), dom + ax)
    c.witness("twin: amplitude can be negative", A < 0, dom + ax)


# ------------------------------------------------------------------------------------------------ window functions (E1)
def _window(c, case):
    import jax.numpy as jnp

    from fdtdx.core.window import gaussian_envelope, linear_rampup

    c.functions.update(META["functions"][4:])
    t, u, ce, sg, du = (jx.symarr(x, ()) for x in ("t", "u", "center", "sigma", "dur"))
    T, U, CE, SG, D = t[()], u[()], ce[()], sg[()], du[()]
    c.symvars += 5
    # gaussian envelope
    itg = jx.Interp()
    g, trg = jx.call(lambda t, ce, sg: gaussian_envelope(t, ce, sg), t, ce, sg, interp=itg)
    G = _scalar(g)
    cv = (0.3, 0.5, 0.2)
    c.validate(jx.to_numeric(trg(*[jx.fracarr(np.asarray(v)) for v in cv])), np.asarray(gaussian_envelope(*[jnp.asarray(v) for v in cv])), "gaussian envelope")
    dom = [SG > 0]

    def rg(m):
        v = [model_value(m, q) for q in (T, CE, SG)]
        a = float(gaussian_envelope(*[jnp.asarray(q) for q in v]))
        return not (0 <= a <= 1 + 1e-12) or (v[0] == v[1] and abs(a - 1) > 1e-12), dict(t=v[0], center=v[1], sigma=v[2], envelope=a)

    c.prove("gaussian envelope in (0, 1]", z3.And(G > 0, G <= 1), dom + sc.axioms_for([G]), rg, key="gaussian-envelope:unit-bound")
    c.prove("gaussian envelope is 1 at its centre", z3.Implies(T == CE, G == 1), dom + sc.axioms_for([G]), rg, key="gaussian-envelope:peak")
    for kind, cond, desc in itg.side:
        c.prove(f"gaussian definedness {kind}", cond, dom, rg, key="gaussian-envelope:definedness")
    c.witness("twin: envelope below 1 away from the centre", z3.And(G < 1, T != CE), dom + sc.axioms_for([G]))
    # linear ramp
    itr = jx.Interp()
    r, trr = jx.call(lambda t, d: linear_rampup(t, d), t, du, interp=itr)
    R = _scalar(r)
    R2 = _scalar(trr(u, du, interp=jx.Interp()))
    dom = [D > 0]

    def rr(m):
        tv, uv, dv = model_value(m, T), model_value(m, U), model_value(m, D)
        a, b = float(linear_rampup(jnp.asarray(tv), dv)), float(linear_rampup(jnp.asarray(uv), dv))
        want = min(max(tv / dv, 0.0), 1.0)
        bad = abs(a - want) > 1e-12 or (tv <= uv and a > b + 1e-12)
        return bool(bad), dict(t=tv, u=uv, duration=dv, ramp_t=a, ramp_u=b, want_t=want)

    c.prove("ramp in [0,1]", z3.And(R >= 0, R <= 1), dom, rr, key="linear-rampup:range")
    c.prove("ramp is 0 up to t=0, 1 from t=duration", z3.And(z3.Implies(T <= 0, R == 0), z3.Implies(T >= D, R == 1)), dom, rr, key="linear-rampup:ends")
    c.prove("ramp is linear in between", z3.Implies(z3.And(T >= 0, T <= D), R * D == T), dom, rr, key="linear-rampup:linear")
    c.prove("ramp is non-decreasing", z3.Implies(T <= U, R <= R2), dom, rr, key="linear-rampup:monotone")
    for kind, cond, desc in itr.side:
        c.prove(f"ramp definedness {kind}", cond, dom, rr, key="linear-rampup:definedness")
    c.witness("twin: ramp strictly between 0 and 1", z3.And(R > 0, R < 1), dom)


def run_case(c, case):
    return dict(wave=_wave, custom=_custom, sf=_sf, gauss=_gauss, window=_window)[case["kind"]](c, case)
