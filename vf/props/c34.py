"""C34 -- symmetric placement bookkeeping (E2: pysym over fdtd/symmetry.py, core/misc.py).

``reduce_resolved_slices`` is executed concolically with the volume slice (start and cell count per axis) and one
object box fully symbolic (ints), three more objects tied to the symbolic volume (lowest cell, min-side and max-side
Bloch layers, so the drop / survive / boundary branches are all taken), the symmetry tuple enumerated.
``make_symmetry_walls`` runs with a symbolic reduced shape; ``validate_symmetric_axis_cells`` with a symbolic count.
The oracle (``_expected``) is the property text: even count required, upper half kept and shifted to 0, objects
clipped to the kept half, dropped iff the intersection is empty, unclipped extent shifted by the plane index, PEC wall
exactly on the electric planes.  A last case drives the real ``place_objects`` on concrete scenes and compares what
the placed objects carry with the same oracle (wiring of the bookkeeping into placement; not solver-decided).
"""
from __future__ import annotations

import itertools

import numpy as np
import z3

from ..core import model_value
from ..pysym import SymNum, fresh_int

META = dict(
    functions=["fdtd.symmetry.reduce_resolved_slices", "fdtd.symmetry.make_symmetry_walls", "core.misc.validate_symmetric_axis_cells",
               "SimulationObject.place_on_grid", "fdtd.initialization.place_objects (symmetry steps 4-8, concrete cross-check)"],
    assumptions=["object boxes are non-empty and lie inside the volume (what constraint resolution delivers)",
                 "volume start index in [0, 2], cell count in [0, 12] per axis; reduced shape entries in [1, 40]",
                 "loguru warnings are not part of the property"],
    outside="counts above the bound; grid edge slicing (C37 reduce_symmetric); field/detector unfolding (C32, C33); mode-object symmetry",
    bounds=dict(quick=dict(symmetry_tuples=9, volume_cells="0..12 (symbolic)", objects="1 symbolic + 3 volume-relative"),
                thorough=dict(symmetry_tuples=27, volume_cells="0..12 (symbolic)", objects="1 symbolic + 3 volume-relative")),
    timeout_ms=dict(quick=30000, thorough=120000),
)

QUICK_SYMS = [(-1, 0, 0), (0, 1, 0), (0, 0, -1), (1, -1, 0), (-1, 0, 1), (0, 1, 1), (1, 1, -1), (-1, -1, -1), (-1, 1, -1)]
ALL_SYMS = list(itertools.product((-1, 0, 1), repeat=3))


def _sname(sym):
    return "".join({-1: "e", 0: "o", 1: "m"}[s] for s in sym)


def cases(tier, seed):
    out = [dict(name="validate-count", kind="validate")]
    syms = QUICK_SYMS if tier == "quick" else ALL_SYMS
    for sym in syms:
        out.append(dict(name=f"reduce-{_sname(sym)}", kind="reduce", sym=list(sym)))
    grp = [ALL_SYMS[i::3] for i in range(3)]
    for i, g in enumerate(grp):
        out.append(dict(name=f"walls-{i}", kind="walls", syms=[list(s) for s in g]))
    out.append(dict(name="place-objects-wiring", kind="wiring", n=3 if tier == "quick" else 8))
    return out


def zi(x):
    return x.t if isinstance(x, SymNum) else (x if isinstance(x, z3.ExprRef) else z3.IntVal(int(x)))


# ------------------------------------------------------------------------------------------------ oracle
def _expected(sym, vol, boxes):
    """The property text.  sym: 3 ints; vol: [(v0, v1)]*3 and boxes: {name: [(s0, s1)]*3} as z3 Int terms.
    Returns dict(bad=z3 Bool (an odd / <2 count on a symmetric axis), shape=[..], vol_new=[..], vol_unreduced=[..],
    objs={name: dict(dropped=Bool, new=[(lo, hi)]*3, unreduced=[(lo, hi)]*3)})."""
    n = [vol[a][1] - vol[a][0] for a in range(3)]
    bad = z3.Or(*[z3.BoolVal(False)] + [z3.Or(n[a] < 2, n[a] % 2 != 0) for a in range(3) if sym[a] != 0])
    half = [n[a] / 2 for a in range(3)]  # integer division; only used where n is even
    plane = [vol[a][0] + half[a] for a in range(3)]  # index of the symmetry plane = start of the kept (upper) half
    out = dict(bad=bad, shape=[], vol_new=[], vol_unreduced=[], objs={})
    for a in range(3):
        if sym[a] != 0:
            out["shape"].append(half[a])
            out["vol_new"].append((z3.IntVal(0), half[a]))
            out["vol_unreduced"].append((vol[a][0] - plane[a], vol[a][1] - plane[a]))
        else:
            out["shape"].append(n[a])
            out["vol_new"].append(vol[a])
            out["vol_unreduced"].append(vol[a])
    for name, box in boxes.items():
        new, unred, empty = [], [], []
        for a in range(3):
            s0, s1 = box[a]
            if sym[a] != 0:
                lo = z3.If(s0 > plane[a], s0, plane[a])  # intersection with the kept half [plane, v1)
                hi = z3.If(s1 < vol[a][1], s1, vol[a][1])
                empty.append(hi <= lo)
                new.append((lo - plane[a], hi - plane[a]))
                unred.append((s0 - plane[a], s1 - plane[a]))
            else:
                new.append((s0, s1))
                unred.append((s0, s1))
        out["objs"][name] = dict(dropped=z3.Or(*[z3.BoolVal(False)] + empty), new=new, unreduced=unred)
    return out


def _claim(sym, vol, boxes, volname, res, exc):
    """z3 Bool: the result of reduce_resolved_slices agrees with the oracle."""
    ex = _expected(sym, vol, boxes)
    if exc is not None:
        return z3.And(z3.BoolVal(isinstance(exc, ValueError)), ex["bad"])
    new, unred, dropped, shape = res
    cl = [z3.Not(ex["bad"])]
    cl += [zi(shape[a]) == ex["shape"][a] for a in range(3)]
    cl.append(z3.BoolVal(len(shape) == 3 and volname in new and volname in unred and volname not in dropped))
    if volname in new and volname in unred:
        for a in range(3):
            cl += [zi(new[volname][a][0]) == ex["vol_new"][a][0], zi(new[volname][a][1]) == ex["vol_new"][a][1]]
            cl += [zi(unred[volname][a][0]) == ex["vol_unreduced"][a][0], zi(unred[volname][a][1]) == ex["vol_unreduced"][a][1]]
    cl.append(z3.BoolVal(set(new) <= set(boxes) | {volname} and set(unred) == set(new) and set(dropped) <= set(boxes)))
    for name, e in ex["objs"].items():
        isd = name in dropped
        cl.append(e["dropped"] == z3.BoolVal(isd))
        cl.append(z3.BoolVal((name in new) == (not isd) and (name in unred) == (not isd)))
        if not isd and name in new and name in unred:
            for a in range(3):
                cl += [zi(new[name][a][0]) == e["new"][a][0], zi(new[name][a][1]) == e["new"][a][1]]
                cl += [zi(unred[name][a][0]) == e["unreduced"][a][0], zi(unred[name][a][1]) == e["unreduced"][a][1]]
    return z3.And(*cl)


def _concrete_ok(sym, vol, boxes, volname, res, exc):
    f = _claim(sym, [(z3.IntVal(a), z3.IntVal(b)) for a, b in vol], {k: [(z3.IntVal(a), z3.IntVal(b)) for a, b in v] for k, v in boxes.items()}, volname, res, exc)
    return z3.is_true(z3.simplify(f))


# ------------------------------------------------------------------------------------------------ cases
def run_case(c, case):
    c.functions.update(META["functions"][:4])
    globals()["_case_" + case["kind"]](c, case)


def _case_validate(c, case):
    from fdtdx.core.misc import validate_symmetric_axis_cells

    n, cn = fresh_int("n", -4, 60)
    c.symvars += 1
    c.sym_explore("validate_symmetric_axis_cells", lambda: validate_symmetric_axis_cells(n, "x", subject="grid"),
                  lambda res, exc: (z3.And(z3.BoolVal(isinstance(exc, ValueError)), z3.Or(n.t < 2, n.t % 2 != 0)) if exc is not None
                                    else z3.And(n.t >= 2, n.t % 2 == 0)),
                  cn, lambda m: _replay_validate(m, n), key="validate_symmetric_axis_cells")
    c.witness("twin: even and odd counts exist", z3.And(n.t > 2, n.t % 2 == 1), cn)


def _replay_validate(m, n):
    from fdtdx.core.misc import validate_symmetric_axis_cells

    v = model_value(m, n.t)
    try:
        validate_symmetric_axis_cells(v, "x")
        raised = False
    except ValueError:
        raised = True
    return raised != (v < 2 or v % 2 != 0), dict(n=v, raised=raised)


def _objects():
    import fdtdx

    mat = fdtdx.Material(permittivity=2.0)
    A = fdtdx.UniformMaterialObject(name="A", partial_grid_shape=(None, None, None), material=mat)
    B = fdtdx.UniformMaterialObject(name="B", partial_grid_shape=(1, 1, 1), material=mat)
    Cb = fdtdx.BlochBoundary(name="Cmax", axis=0, direction="+", partial_grid_shape=(1, None, None))
    Db = fdtdx.BlochBoundary(name="Dmin", axis=0, direction="-", partial_grid_shape=(1, None, None))
    V = fdtdx.SimulationVolume(name="vol", partial_grid_shape=(4, 4, 4))
    return dict(A=A, B=B, Cmax=Cb, Dmin=Db, vol=V)


def _case_reduce(c, case):
    import fdtdx
    from fdtdx.config import SimulationConfig
    from fdtdx.fdtd.symmetry import reduce_resolved_slices

    sym = tuple(case["sym"])
    cfg = SimulationConfig(time=1e-15, grid=fdtdx.UniformGrid(spacing=1.0), backend="cpu", symmetry=sym)
    omap = _objects()
    assume, vol, box = [], [], []
    for a in range(3):
        v0, c0 = fresh_int(f"v0_{a}", 0, 2)
        n, cn = fresh_int(f"n_{a}", 0, 12)
        s0, _ = fresh_int(f"s0_{a}")
        s1, _ = fresh_int(f"s1_{a}")
        v1 = v0 + n
        assume += c0 + cn + [s0.t >= v0.t, s0.t < s1.t, s1.t <= v1.t]
        vol.append((v0, v1))
        box.append((s0, s1))
        c.symvars += 4
    boxes = dict(
        A=box,
        B=[(vol[a][0], vol[a][0] + 1) for a in range(3)],
        Cmax=[(vol[0][1] - 1, vol[0][1]), vol[1], vol[2]],
        Dmin=[(vol[0][0], vol[0][0] + 1), vol[1], vol[2]],
    )
    order = ["Dmin", "A", "vol", "B", "Cmax"]  # the volume is neither first nor last

    def slices(vol_, boxes_):
        return {k: (tuple(vol_) if k == "vol" else tuple(tuple(p) for p in boxes_[k])) for k in order}

    def fn():
        return reduce_resolved_slices(slices([tuple(p) for p in vol], boxes), omap, cfg, "vol")

    zvol = [(zi(a), zi(b)) for a, b in vol]
    zboxes = {k: [(zi(a), zi(b)) for a, b in v] for k, v in boxes.items()}

    def post(res, exc):
        return _claim(sym, zvol, zboxes, "vol", res, exc)

    def replay(m):
        cv = [(model_value(m, a), model_value(m, b)) for a, b in zvol]
        cb = {k: [(model_value(m, a), model_value(m, b)) for a, b in v] for k, v in zboxes.items()}
        res = exc = None
        try:
            res = reduce_resolved_slices(slices(cv, cb), omap, cfg, "vol")
        except Exception as e:  # noqa: BLE001
            exc = e
        ok = _concrete_ok(sym, cv, cb, "vol", res, exc)
        return (not ok), dict(symmetry=sym, volume=cv, boxes=cb, result=None if res is None else [res[0], res[1], sorted(res[2]), res[3]],
                              raised=repr(exc) if exc is not None else None)

    c.sym_explore(f"reduce_resolved_slices{sym}", fn, post, assume, replay, key=f"reduce_resolved_slices:{_sname(sym)}", max_paths=20000)
    # vacuity twins: each outcome class of the symbolic object is inhabited
    ex = _expected(sym, zvol, zboxes)
    c.witness("twin: even counts, object A survives clipped", z3.And(z3.Not(ex["bad"]), z3.Not(ex["objs"]["A"]["dropped"]),
                                                                       *[zboxes["A"][a][0] < zvol[a][0] + (zvol[a][1] - zvol[a][0]) / 2 for a in range(3) if sym[a] != 0]), assume)
    if any(sym):
        c.witness("twin: object A dropped", z3.And(z3.Not(ex["bad"]), ex["objs"]["A"]["dropped"]), assume)
        c.witness("twin: odd count", ex["bad"], assume)


def _case_walls(c, case):
    import jax

    import fdtdx
    from fdtdx.config import SimulationConfig
    from fdtdx.fdtd.symmetry import make_symmetry_walls
    from fdtdx.objects.boundaries.pec import PerfectElectricConductor

    key = jax.random.PRNGKey(0)
    shape, assume = [], []
    for a in range(3):
        s, cs = fresh_int(f"N{a}", 1, 40)
        shape.append(s)
        assume += cs
    c.symvars += 3
    for sym in case["syms"]:
        sym = tuple(sym)
        cfg = SimulationConfig(time=1e-15, grid=fdtdx.UniformGrid(spacing=1.0), backend="cpu", symmetry=sym)
        for existing in (set(), {"_sym_wall_x", "_sym_wall_z", "_sym_wall_z_1", "vol"}):
            def check_walls(walls, shp, sym=sym, existing=existing):
                """z3 Bool / bool: one PEC wall per electric (-1) axis and nothing else, on the min face of the reduced volume."""
                axes = [a for a in range(3) if sym[a] == -1]
                if len(walls) != len(axes):
                    return z3.BoolVal(False)
                cl = []
                names = [w.name for w in walls]
                cl.append(z3.BoolVal(len(set(names)) == len(names) and not (set(names) & existing)))
                for w, a in zip(walls, axes):
                    cl.append(z3.BoolVal(type(w) is PerfectElectricConductor and w.axis == a and w.direction == "-" and bool(w._is_symmetry_wall)
                                         and w.name.startswith("_sym_wall_" + "xyz"[a])))
                    gs = w._grid_slice_tuple
                    for b in range(3):
                        cl += [zi(gs[b][0]) == 0, zi(gs[b][1]) == (1 if b == a else zi(shp[b]))]
                return z3.And(*cl)

            def fn(cfg=cfg, existing=existing):
                return make_symmetry_walls(cfg, tuple(shape), key, set(existing))

            def post(res, exc, check_walls=check_walls):
                return z3.BoolVal(False) if exc is not None else check_walls(res, shape)

            def replay(m, cfg=cfg, existing=existing, check_walls=check_walls, sym=sym):
                shp = tuple(model_value(m, s.t) for s in shape)
                try:
                    walls = make_symmetry_walls(cfg, shp, key, set(existing))
                except Exception as e:  # noqa: BLE001
                    return True, dict(symmetry=sym, shape=shp, raised=repr(e))
                ok = z3.is_true(z3.simplify(check_walls(walls, shp)))
                return (not ok), dict(symmetry=sym, shape=shp, walls=[(type(w).__name__, w.name, w.axis, w.direction, w._grid_slice_tuple) for w in walls])

            c.sym_explore(f"make_symmetry_walls{sym}{'+names' if existing else ''}", fn, post, assume, replay, key=f"make_symmetry_walls:{_sname(sym)}")
    c.witness("twin: non-cubic reduced shape", z3.And(shape[0].t != shape[1].t, shape[1].t != shape[2].t), assume)


def _case_wiring(c, case):
    """real place_objects on concrete symmetric scenes: the placed objects carry exactly the oracle's clipped slice and
    shifted unclipped extent, dropped objects are absent, the grid / arrays have the reduced shape, walls as demanded."""
    import fdtdx
    from fdtdx.objects.boundaries.pec import PerfectElectricConductor

    from ..scenes import box_detector, build_scene, material_box

    c.functions.add(META["functions"][4])
    rng = np.random.default_rng(c.seed + 34)
    mat = fdtdx.Material(permittivity=2.25)
    done = 0
    for k in range(case["n"]):
        sym = ALL_SYMS[int(rng.integers(0, 27))] if k else (-1, 1, 0)
        if not any(sym):
            sym = (0, -1, 1)
        shape = tuple(int(2 * rng.integers(1, 4)) for _ in range(3))
        boxes = {}
        extra = []
        for j in range(3):
            lo = [int(rng.integers(0, n)) for n in shape]
            sz = [int(rng.integers(1, n - l + 1)) for n, l in zip(shape, lo)]
            nm = f"box{j}"
            boxes[nm] = [(l, l + s) for l, s in zip(lo, sz)]
            extra.append(material_box(nm, lo, sz, mat) if j < 2 else box_detector(fdtdx.EnergyDetector, nm, lo, sz))
        try:
            S = build_scene(shape, None, steps=2, extra_objects=extra, symmetry=sym)
        except Exception as e:  # noqa: BLE001
            c.fail_concrete(f"scene{k}: place_objects raised on a legal symmetric scene", dict(symmetry=sym, shape=shape, boxes=boxes, raised=repr(e)), key="place_objects:raised")
            done += 1
            continue
        vol = [(0, n) for n in shape]
        ex = _expected(sym, [(z3.IntVal(a), z3.IntVal(b)) for a, b in vol], {k_: [(z3.IntVal(a), z3.IntVal(b)) for a, b in v] for k_, v in boxes.items()})
        ev = lambda t: z3.simplify(t).as_long()  # noqa: E731
        oc = S["objects"]
        placed = {o.name: o for o in oc.objects}
        want_shape = tuple(ev(x) for x in ex["shape"])
        detail = dict(symmetry=sym, shape=shape, boxes=boxes)
        c.prove(f"scene{k}: reduced volume / grid / field shapes", bool(tuple(oc.volume.grid_shape) == want_shape and tuple(S["config"].grid.shape) == want_shape
                                                                        and tuple(S["arrays"].fields.E.shape[1:]) == want_shape),
                replay=lambda m, d=detail: (True, d), key="place_objects:reduced-shape")
        for nm, e in ex["objs"].items():
            dropped = z3.is_true(z3.simplify(e["dropped"]))
            if dropped:
                ok = nm not in placed
            else:
                o = placed.get(nm)
                ok = o is not None and all(tuple(o.grid_slice_tuple[a]) == (ev(e["new"][a][0]), ev(e["new"][a][1])) and
                                           tuple(o.unreduced_grid_slice_tuple[a]) == (ev(e["unreduced"][a][0]), ev(e["unreduced"][a][1])) for a in range(3))
            c.prove(f"scene{k}: object {nm} {'dropped' if dropped else 'clipped + unclipped extent'}", bool(ok),
                    replay=lambda m, d=dict(detail, object=nm, got=None if nm not in placed else [placed[nm].grid_slice_tuple, placed[nm].unreduced_grid_slice_tuple]): (True, d),
                    key="place_objects:object-slices")
        walls = [o for o in oc.objects if getattr(o, "_is_symmetry_wall", False)]
        okw = sorted(w.axis for w in walls) == [a for a in range(3) if sym[a] == -1] and all(type(w) is PerfectElectricConductor for w in walls) and \
            not any(isinstance(o, fdtdx.PerfectMagneticConductor) for o in oc.objects)
        c.prove(f"scene{k}: PEC wall exactly on the electric planes", bool(okw), replay=lambda m, d=detail: (True, d), key="place_objects:walls")
        done += 1
    # odd count on a symmetric axis is rejected by placement
    try:
        build_scene((3, 2, 2), None, steps=2, symmetry=(1, 0, 0))
        c.fail_concrete("odd cell count on a symmetric axis accepted by place_objects", dict(shape=(3, 2, 2), symmetry=(1, 0, 0)), key="place_objects:odd-count")
    except ValueError:
        c.prove("odd cell count on a symmetric axis rejected by place_objects", True)
    c.witness("twin: scenes were built", done == case["n"], [])
