"""C18 -- device parameters -> materials through ``apply_params``  (E1).

Per case a tiny real scene with one or two ``Device`` objects is placed with the public API; ``apply_params`` is traced and
interpreted with the pre-existing ``inv_permittivities`` (every cell, positive), the pre-existing dispersive coefficient
arrays and the device parameters as solver variables.  Oracles, written from the property text:

* continuous chain output v in [0,1]:  device cell = inverse of  eps_lo + v (eps_hi - eps_lo)  (per component; for full
  tensors: cell tensor times blended tensor = identity) and, for isotropic / diagonal materials, between 1/eps_hi and 1/eps_lo;
  a design voxel covers its block of ``partial_voxel_grid_shape`` simulation cells;
* discrete chain output: some device material m has cell == 1/eps_m in every component and every dispersive coefficient
  of the cell equals that same material's coefficient (0 for non-dispersive materials / padded poles);
* every cell outside all devices keeps every material array entry;
* apply(p2, apply(p1, A)) == apply(p2, A) for an arbitrary state A (so, by induction, for any sequence), etched devices included.
"""
from __future__ import annotations

import time
from fractions import Fraction

import jax
import jax.numpy as jnp
import numpy as np
import z3

import fdtdx
from fdtdx import Material
from fdtdx.dispersion import DispersionModel, DrudePole, LorentzPole, compute_pole_coefficients
from fdtdx.objects.device.parameters.continuous import StandardToCustomRange
from fdtdx.objects.device.parameters.discretization import ClosestIndex
from fdtdx.objects.device.parameters.projection import TanhProjection

from .. import jx2smt as jx
from .. import sc
from ..core import Inconclusive, model_array
from ..scenes import at, build_scene, material_box

META = dict(
    functions=["fdtd.initialization.apply_params", "fdtd.initialization._invert_property", "objects.device.device.Device.__call__",
               "Device._resample_design_params_to_sim_grid", "core.misc.expand_matrix", "core.jax.ste.straight_through_estimator",
               "materials.compute_allowed_permittivities", "materials.compute_allowed_dispersive_coefficients",
               "materials.compute_ordered_material_name_tuples", "ClosestIndex.__call__ (as chain element)"],
    assumptions=[
        "reals instead of floats; device materials are concrete (decimal permittivities; tensors concrete) -- a tolerance (1e-9 relative) absorbs the float64 "
        "rounding of eps_hi-eps_lo, 1/eps and of the pole coefficients; a counterexample to a 1e-9 claim is re-derived with a 1e-4 margin before it is replayed",
        "pre-existing inverse permittivities > 0; continuous chain output within [0,1] (the property's precondition; with no transform: 0<=p<=1)",
        "blend direction: chain output 0 = the material of lowest permittivity (fdtdx's documented material order), 1 = the other one",
        "transform chains (TanhProjection, StandardToCustomRange): the chain output v is obtained by interpreting the transform itself (not part of this property); "
        "the oracle expands v over the voxel blocks and blends",
        "etched device: the state before an apply has inv_permittivities equal to the etch backup outside the device (invariant of place_objects/apply_params)",
        "history: two-step identity on an arbitrary symbolic state; longer sequences follow by induction because the state after an apply is again such a state",
        "per-material dispersive coefficients are taken from fdtdx.dispersion.compute_pole_coefficients (their values are property C35, not this one)",
        "full-tensor continuous devices: 3x3 inverse through the exact adjugate stub; non-singularity of the blended tensor (det != 0 on [0,1]) is proved, not assumed",
    ],
    outside="physical-size design voxels on non-uniform grids (einsum resampling); transforms other than those listed; sources/detectors overlapping a device "
            "(object re-application is C29); gradients; float round-off; grids beyond the listed shapes",
    bounds=dict(quick=dict(grid="(4,3,2)/(5,3,2)", devices="1-2 devices of 2-4 cells, voxel blocks (1,1,1),(1,2,1),(2,1,1)", materials="iso / diagonal / full tensor, 2-3 materials, 0-2 poles"),
                thorough=dict(grid="adds (5,4,3)", devices="adds 2x2x2-cell devices and (2,2,1) blocks", materials="adds seeded decimal sets")),
    timeout_ms=dict(quick=60000, thorough=300000),
)

TOL = Fraction(1, 10**9)
LOOSE = Fraction(1, 10**4)  # a witness violating the claim by this margin reproduces robustly in float64

# ------------------------------------------------------------------------------------------------------------ material sets
_FULL_HI = ((4.0, 0.5, 0.25), (0.5, 5.0, 0.5), (0.25, 0.5, 6.0))
_FULL_LO = ((2.0, 0.25, 0.0), (0.25, 2.5, 0.125), (0.0, 0.125, 3.0))
_FULL_MID = ((3.0, 0.0, 0.5), (0.0, 3.5, 0.0), (0.5, 0.0, 2.75))
_POLES = {
    "lor": [("L", 2e15, 1e13, 1.5)],
    "dru2": [("D", 1.37e16, 1e14), ("L", 1e15, 1e13, 1.0)],
}
MATSETS = {
    # name: list of (eps, poles-key or None) in *dict insertion order* (deliberately not sorted)
    "iso_dyadic": [(12.25, None), (2.25, None)],
    "iso_generic": [(1.0, None), (11.7, None)],
    "iso3": [(12.25, None), (2.25, None), (4.0, None)],
    "iso3_generic": [(3.9, None), (11.7, None), (1.0, None)],
    "diag": [((12.25, 1.0, 4.0), None), ((2.25, 5.0, 1.5), None)],
    "diag3": [((12.25, 1.0, 4.0), None), ((2.25, 5.0, 1.5), None), ((6.0, 6.0, 2.0), None)],
    "full": [(_FULL_HI, None), (_FULL_LO, None)],
    "full3": [(_FULL_HI, None), (_FULL_LO, None), (_FULL_MID, None)],
    "disp2": [(2.0, "lor"), (1.0, None)],
    "disp3": [(3.0, "dru2"), (1.0, None), (2.0, "lor")],
    "etch_air": [(1.0, None)],
    "etch_diag": [((1.5, 1.0, 2.0), None)],
}


def _material(eps, poles):
    kw = {}
    if poles is not None:
        ps = []
        for s in _POLES[poles]:
            ps.append(LorentzPole(resonance_frequency=s[1], damping=s[2], delta_epsilon=s[3]) if s[0] == "L" else DrudePole(plasma_frequency=s[1], damping=s[2]))
        kw["dispersion"] = DispersionModel(poles=tuple(ps))
    return Material(permittivity=eps, **kw)


def _eps_components(eps, ncomp):
    """permittivity spec -> list of ncomp exact Fractions (1: iso, 3: diagonal, 9: row-major tensor)."""
    F = lambda v: Fraction(str(v))
    if isinstance(eps, (int, float)):
        d = [F(eps)] * 3
        full = [[d[i] if i == j else Fraction(0) for j in range(3)] for i in range(3)]
    elif isinstance(eps[0], (int, float)):
        d = [F(v) for v in eps]
        full = [[d[i] if i == j else Fraction(0) for j in range(3)] for i in range(3)]
    else:
        full = [[F(v) for v in row] for row in eps]
        d = [full[i][i] for i in range(3)]
    if ncomp == 1:
        return [d[0]]
    if ncomp == 3:
        return d
    return [full[i][j] for i in range(3) for j in range(3)]


def _first(eps):
    return float(eps) if isinstance(eps, (int, float)) else (float(eps[0]) if isinstance(eps[0], (int, float)) else float(eps[0][0]))


# ------------------------------------------------------------------------------------------------------------ cases
def cases(tier, seed):
    q = tier == "quick"
    out = []

    def dev(name, lo, gshape, vox, mats, chain="none", etch=False):
        return dict(name=name, lo=list(lo), gshape=list(gshape), vox=list(vox), mats=mats, chain=chain, etch=etch)

    def case(name, grid, devices, bg="iso", exact=False, under=None):
        out.append(dict(name=name, grid=list(grid), devices=devices, bg=bg, exact=exact, under=under))

    G = (4, 3, 2)
    case("cont-iso-dyadic", G, [dev("dev", (1, 0, 0), (2, 2, 2), (1, 1, 1), "iso_dyadic")], exact=True)
    case("cont-iso-generic", G, [dev("dev", (1, 1, 0), (2, 2, 2), (2, 1, 1), "iso_generic")])
    case("cont-diag", G, [dev("dev", (0, 0, 0), (2, 2, 1), (1, 1, 1), "diag")], bg="diag", exact=True)
    case("cont-full", G, [dev("dev", (2, 1, 0), (2, 1, 2), (1, 1, 2), "full")], bg="full")
    case("cont-tanh", G, [dev("dev", (1, 0, 1), (2, 2, 1), (1, 2, 1), "iso_dyadic", chain="tanh")])
    case("cont-range", (5, 3, 2), [dev("dev", (0, 1, 0), (4, 2, 2), (2, 1, 2), "iso_generic", chain="range")])
    case("disc-iso3", G, [dev("dev", (1, 0, 1), (2, 2, 1), (1, 2, 1), "iso3", chain="closest")], under=(0, 0, 0))
    case("disc-diag3", G, [dev("dev", (0, 1, 0), (2, 1, 2), (1, 1, 1), "diag3", chain="closest")], bg="diag")
    case("disc-full3", G, [dev("dev", (2, 0, 0), (2, 2, 1), (2, 1, 1), "full3", chain="closest")], bg="full")
    case("disc-dispersive", G, [dev("dev", (1, 1, 0), (2, 1, 2), (1, 1, 1), "disp3", chain="closest")])
    case("cont-dispersive", G, [dev("dev", (1, 0, 0), (2, 2, 1), (1, 1, 1), "disp2")])
    case("etch-iso", G, [dev("dev", (1, 0, 1), (2, 2, 1), (1, 2, 1), "etch_air", etch=True)], under=(0, 0, 0))
    case("etch-diag", G, [dev("dev", (0, 1, 0), (2, 2, 1), (1, 1, 1), "etch_diag", etch=True)], bg="diag")
    case("two-devices", (5, 3, 2), [dev("dA", (0, 0, 0), (2, 2, 1), (1, 2, 1), "iso_dyadic"), dev("dB", (3, 1, 0), (2, 1, 2), (1, 1, 1), "iso3_generic", chain="closest")])
    case("etch-plus-device", (5, 3, 2), [dev("dA", (0, 0, 1), (2, 2, 1), (1, 1, 1), "etch_air", etch=True), dev("dB", (3, 0, 0), (2, 2, 1), (2, 1, 1), "iso_generic")])
    # device order matters for the etch backup handling: an etched device that is NOT first in the list, and two etched devices
    case("device-then-etch", (5, 3, 2), [dev("dA", (3, 0, 0), (2, 2, 1), (2, 1, 1), "iso_generic"), dev("dB", (0, 0, 1), (2, 2, 1), (1, 1, 1), "etch_air", etch=True)])
    case("etch-then-etch", (5, 3, 2), [dev("dA", (0, 0, 0), (2, 2, 1), (1, 1, 1), "etch_air", etch=True), dev("dB", (3, 1, 0), (2, 2, 2), (1, 1, 1), "etch_air", etch=True)])
    # several design voxels along EVERY axis, each more than one cell thick (voxel expansion must repeat, not tile; seeded change C18b)
    case("cont-blocks-xyz", (4, 2, 4), [dev("dev", (0, 0, 0), (4, 2, 4), (2, 1, 2), "iso_generic")])
    case("disc-blocks-z", (3, 3, 4), [dev("dev", (1, 0, 0), (2, 2, 4), (1, 2, 2), "iso3", chain="closest")])
    if not q:
        G2 = (5, 4, 3)
        case("T-cont-blocks-yz", (3, 4, 6), [dev("dev", (0, 0, 0), (2, 4, 6), (1, 2, 3), "diag")], bg="diag", exact=True)
        case("T-cont-iso-222", G2, [dev("dev", (1, 1, 1), (2, 2, 2), (1, 1, 1), "iso_generic")])
        case("T-cont-diag-blocks", G2, [dev("dev", (1, 0, 0), (4, 2, 2), (2, 2, 1), "diag")], bg="diag", exact=True)
        case("T-cont-full-222", G2, [dev("dev", (0, 2, 1), (2, 2, 2), (2, 1, 1), "full")], bg="full")
        case("T-disc-iso3-generic", G2, [dev("dev", (3, 0, 0), (2, 4, 1), (1, 2, 1), "iso3_generic", chain="closest")])
        case("T-disc-dispersive-222", G2, [dev("dev", (1, 1, 0), (2, 2, 2), (1, 1, 2), "disp3", chain="closest")], under=(0, 0, 0))
        case("T-etch-222", G2, [dev("dev", (2, 1, 1), (2, 2, 2), (1, 2, 1), "etch_air", etch=True)], under=(1, 0, 0))
        case("T-two-cont", G2, [dev("dA", (0, 0, 0), (2, 2, 2), (1, 1, 1), "disp2"), dev("dB", (3, 2, 1), (2, 2, 2), (2, 2, 1), "disp2", chain="tanh")])
        rng = np.random.default_rng(1800 + seed)
        v = sorted({float(x) for x in np.round(rng.uniform(1.0, 13.0, size=6), 3)})[:3]
        MATSETS_SEEDED = [(v[2], None), (v[0], None), (v[1], None)]
        out.append(dict(name="T-disc-seeded", grid=list(G2), devices=[dev("dev", (1, 0, 1), (2, 2, 1), (1, 1, 1), "seeded", chain="closest")], bg="iso", exact=False, under=None, seeded=MATSETS_SEEDED))
        out.append(dict(name="T-cont-seeded", grid=list(G2), devices=[dev("dev", (1, 2, 0), (2, 2, 2), (1, 1, 1), "seeded2")], bg="iso", exact=False, under=None, seeded=MATSETS_SEEDED[:2]))
    return out


# ------------------------------------------------------------------------------------------------------------ scene
def _matlist(case, d):
    if d["mats"].startswith("seeded"):
        return [(e, p) for e, p in case["seeded"]]
    return MATSETS[d["mats"]]


def _chain(kind):
    if kind == "none":
        return [], {}
    if kind == "closest":
        return [ClosestIndex()], {}
    if kind == "tanh":
        return [TanhProjection()], dict(beta=2.0)
    if kind == "range":
        return [StandardToCustomRange(min_value=0.25, max_value=0.875)], {}
    raise ValueError(kind)


def _scene(case):
    bg = {"iso": Material(permittivity=3.0), "diag": Material(permittivity=(3.0, 2.0, 1.5)),
          "full": Material(permittivity=((3.0, 0.1, 0.0), (0.1, 3.5, 0.2), (0.0, 0.2, 2.5)))}[case["bg"]]
    objs, kwargs = [], {}
    if case.get("under") is not None:
        objs.append(material_box("slab", case["under"], (2, 2, 1), Material(permittivity=5.0)))
    for d in case["devices"]:
        mats = {f"m{i}": _material(_tup(e), p) for i, (e, p) in enumerate(_matlist(case, d))}
        tr, kw = _chain(d["chain"])
        kwargs.update(kw)
        o = fdtdx.Device(name=d["name"], partial_grid_shape=tuple(d["gshape"]), partial_voxel_grid_shape=tuple(d["vox"]), materials=mats,
                         param_transforms=tr, use_etching=d["etch"])
        objs.append((o, at(o, d["lo"])))
    S = build_scene(tuple(case["grid"]), "periodic", extra_objects=objs, background=bg, apply_kwargs=kwargs)
    return S, kwargs


def _tup(e):
    if isinstance(e, list):
        return tuple(_tup(x) for x in e)
    return e


# ------------------------------------------------------------------------------------------------------------ the check
_STATE = ["inv_permittivities", "inv_permeabilities", "electric_conductivity", "magnetic_conductivity", "dispersive_c1", "dispersive_c2", "dispersive_c3", "dispersive_c4"]


def run_case(c, case):
    c.functions.update(META["functions"])
    S, kwargs = _scene(case)
    arr, oc, key, cfg = S["arrays"], S["objects"], S["key"], S["config"]
    grid = tuple(case["grid"])
    ncomp = arr.inv_permittivities.shape[0]
    devs = case["devices"]
    dnames = [d["name"] for d in devs]
    etched = arr.initial_inv_permittivities is not None
    if etched != any(d["etch"] for d in devs):
        raise Inconclusive("etch backup array presence does not match the scene")
    c.bounds.update(grid=list(grid), components=int(ncomp), devices=[f"{d['name']}:{d['mats']}:{d['chain']}:{'etch' if d['etch'] else 'fill'}" for d in devs])
    names = [n for n in _STATE if getattr(arr, n) is not None and hasattr(getattr(arr, n), "shape") and np.ndim(getattr(arr, n)) > 0]
    # device cell masks from the harness' own placement data
    inside = np.zeros(grid, dtype=bool)
    for d in devs:
        sl = tuple(slice(l, l + g) for l, g in zip(d["lo"], d["gshape"]))
        if inside[sl].any():
            raise Inconclusive("devices overlap")
        inside[sl] = True

    # ---- symbolic state
    assume = []
    state = {}
    for n in names:
        ref = np.asarray(getattr(arr, n))
        a = jx.symarr({"inv_permittivities": "ie", "inv_permeabilities": "im", "electric_conductivity": "sE", "magnetic_conductivity": "sH"}.get(n, n[-2:]), ref.shape)
        state[n] = a
        c.symvars += a.size
    if ncomp == 9:
        # full tensors: the pre-existing state is concrete seeded SPD tensors (exact rationals); symbolic entries would need symbolic 3x3 inverses of unknowns
        rng = np.random.default_rng(c.seed + 18)
        ref = np.asarray(arr.inv_permittivities)
        pert = rng.uniform(-0.02, 0.02, size=(3, 3) + ref.shape[1:])
        pert = (pert + np.swapaxes(pert, 0, 1)) / 2
        state["inv_permittivities"] = jx.fracarr(np.round(ref + pert.reshape(ref.shape), 4))
    else:
        assume += [v > 0 for v in state["inv_permittivities"].reshape(-1)]
    backup = None
    if etched:
        # legal pre-state: current array equals the etch backup outside the devices, arbitrary (positive) inside
        backup = state["inv_permittivities"]
        cur = jx.symarr("iec", backup.shape)
        cur[:, ~inside] = backup[:, ~inside]
        assume += [v > 0 for v in cur[:, inside].reshape(-1)]
        state["inv_permittivities"] = cur
        c.symvars += int(inside.sum()) * ncomp
    P1, P2 = {}, {}
    pshape = {d["name"]: tuple(g // v for g, v in zip(d["gshape"], d["vox"])) for d in devs}
    for d in devs:
        for P, tag in ((P1, "p"), (P2, "q")):
            P[d["name"]] = jx.symarr(f"{tag}_{d['name']}", pshape[d["name"]])
            c.symvars += P[d["name"]].size
    placed = {o.name: o for o in oc.devices}
    for d in devs:
        if tuple(placed[d["name"]].matrix_voxel_grid_shape) != pshape[d["name"]]:
            raise Inconclusive(f"design voxel grid of {d['name']} is {placed[d['name']].matrix_voxel_grid_shape}, expected {pshape[d['name']]}")

    def apply_once(a, o, params):
        return fdtdx.apply_params(a, o, params, key, **kwargs)

    def with_state(st, bk):
        a = arr
        for n in names:
            a = a.aset(n, st[n])
        if bk is not None:
            a = a.aset("initial_inv_permittivities", bk)
        return a

    def f_single(st, bk, p):
        a, _, _ = apply_once(with_state(st, bk), oc, p)
        return {n: getattr(a, n) for n in names}

    def f_hist(st, bk, p1, p2):
        a1, o1, _ = apply_once(with_state(st, bk), oc, p1)
        a2, _, _ = apply_once(a1, o1, p2)
        b, _, _ = apply_once(with_state(st, bk), oc, p2)
        return {n: getattr(a2, n) for n in names}, {n: getattr(b, n) for n in names}, a2.initial_inv_permittivities if etched else None

    it = jx.Interp()
    t0 = time.time()
    out, tr = jx.call(f_single, state, backup, P1, interp=it)
    c.interp_s += time.time() - t0
    out = {n: jx.lift(v) for n, v in out.items()}
    side_div = [cond for (k, cond, _) in it.side if k == "div_nonzero"]
    side_det = [cond for (k, cond, _) in it.side if k == "det_nonzero"]
    side_idx = [cond for (k, cond, _) in it.side if k == "gather_in_range"]
    unexpected = sorted({k for (k, _, _) in it.side} - {"div_nonzero", "det_nonzero", "gather_in_range"})
    if unexpected:
        raise Inconclusive(f"unexpected side conditions {unexpected}")

    # ---- chain outputs v (continuous devices): interpret the transform chain alone on the symbolic parameters
    V, dom = {}, []
    for d in devs:
        p = P1[d["name"]]
        if d["chain"] == "closest":
            M = len(_matlist(case, d))
            dom += [z3.And(x >= -1, x <= M) for x in p.reshape(-1)]
            continue
        if d["chain"] == "none":
            v = p
        else:
            mods = placed[d["name"]].param_transforms
            fchain = lambda x, mods=mods: _run_chain(mods, x, kwargs)
            v, _ = jx.call(fchain, p)
            v = jx.lift(v)
            dom += [z3.And(x >= 0, x <= 1) for x in p.reshape(-1)]
        dom += [z3.And(sc.toz(x) >= 0, sc.toz(x) <= 1) for x in v.reshape(-1)]  # the property's precondition on the chain output
        V[d["name"]] = v
    ufax = sc.UF.axioms()
    A0 = assume + dom

    # ---- translator validation on one concrete legal input
    rng = np.random.default_rng(c.seed + 181)
    conc_state, conc_bk, conc_p = _concrete_inputs(rng, arr, names, state, backup, P1, devs, case, inside)
    want = f_single({n: jnp.asarray(v) for n, v in conc_state.items()}, None if conc_bk is None else jnp.asarray(conc_bk), {k: jnp.asarray(v) for k, v in conc_p.items()})
    got = tr({n: jx.fracarr(v) for n, v in conc_state.items()}, None if conc_bk is None else jx.fracarr(conc_bk), {k: jx.fracarr(v) for k, v in conc_p.items()})
    for n in names:
        c.validate(jx.to_numeric(jx.lift(got[n])), np.asarray(want[n]), f"apply_params:{n}")

    def concretise(m):
        st = {n: model_array(m, state[n]) for n in names}
        bk = None if backup is None else model_array(m, backup)
        return st, bk, {k: model_array(m, v) for k, v in P1.items()}, {k: model_array(m, v) for k, v in P2.items()}

    def real_single(st, bk, p):
        r = f_single({n: jnp.asarray(v, dtype=jnp.float64) for n, v in st.items()}, None if bk is None else jnp.asarray(bk, dtype=jnp.float64),
                     {k: jnp.asarray(v, dtype=jnp.float64) for k, v in p.items()})
        return {n: np.asarray(v) for n, v in r.items()}

    # ---- (c) cells outside every device keep every material entry
    def replay_outside(m):
        st, bk, p1, _ = concretise(m)
        r = real_single(st, bk, p1)
        worst = 0.0
        for n in names:
            ref = bk if (n == "inv_permittivities" and bk is not None) else st[n]
            worst = max(worst, float(np.max(np.abs((r[n] - ref)[..., ~inside]))) if (~inside).any() else 0.0)
        return worst > 1e-12, dict(max_change_outside=worst, state=st, params=p1)

    for n in names:
        ref = state[n]
        c.prove_eq(f"outside cells unchanged: {n}", out[n][..., ~inside], ref[..., ~inside], A0, replay_outside, key=f"outside:{n}", chunk=8)

    # ---- (a)/(b) per device cell
    for d in devs:
        mats = _matlist(case, d)
        order = sorted(range(len(mats)), key=lambda i: _first(_tup(mats[i][0])))
        eps = [_eps_components(_tup(mats[i][0]), ncomp) for i in order]  # index order = ascending permittivity
        lo, gs, vox = d["lo"], d["gshape"], d["vox"]
        kind = "etch" if d["etch"] else ("discrete" if d["chain"] == "closest" else "continuous")
        kbase = f"{kind}:{'iso' if ncomp == 1 else 'diag' if ncomp == 3 else 'full'}:{d['chain']}"
        coef = _coef_table(mats, order, arr, cfg) if "dispersive_c1" in names else None
        vio0 = len(c.violations)
        for rel in np.ndindex(*gs):
            cell = tuple(l + r for l, r in zip(lo, rel))
            vox_idx = tuple(r // s for r, s in zip(rel, vox))  # a design voxel covers its block of vox cells
            comps = [out["inv_permittivities"][(k,) + cell] for k in range(ncomp)]
            tag = f"{d['name']} cell {list(cell)}"
            if kind == "discrete":
                def disc_claim(t, cell=cell, comps=comps):
                    alts = []
                    for m in range(len(eps)):
                        target = _inv_components(eps[m], ncomp)
                        conj = [_close(comps[k], target[k], t) for k in range(ncomp)]
                        if coef is not None:
                            for cn in ("dispersive_c1", "dispersive_c2", "dispersive_c3", "dispersive_c4"):
                                if cn in names:
                                    oc_ = out[cn]
                                    for pidx in range(oc_.shape[0]):
                                        for k in range(oc_.shape[1]):
                                            conj.append(_close(oc_[(pidx, k) + cell], coef[cn][m][pidx], t))
                        alts.append(_and(conj))
                    return _or(alts)

                rp = _replay_cell(c, real_single, concretise, d, cell, vox_idx, eps, coef, ncomp, kind, names, placed, kwargs)
                c.prove(f"{tag}: one material's inverse permittivity" + (" and coefficients" if coef is not None else ""), disc_claim(TOL), A0 + side_idx,
                        _robust(rp, A0 + side_idx, disc_claim(LOOSE), c), key=kbase)
            else:
                v = V[d["name"]][vox_idx]
                if kind == "etch":
                    src = backup if backup is not None else state["inv_permittivities"]
                    if ncomp == 9:
                        raise Inconclusive("etched full-tensor devices are not covered")
                    e_lo = [sc.div(1, src[(k,) + cell]) for k in range(ncomp)]  # permittivity already present in the cell
                    e_hi = eps[0]
                else:
                    e_lo, e_hi = eps[0], eps[1]
                blend = [sc.add(e_lo[k], sc.mul(v, sc.sub(e_hi[k], e_lo[k]))) for k in range(ncomp)]
                rp = _replay_cell(c, real_single, concretise, d, cell, vox_idx, eps, coef, ncomp, kind, names, placed, kwargs)
                if ncomp in (1, 3):
                    for k in range(ncomp):
                        # cell * blend = 1 up to tol (stated on the product to keep z3 off a second division)
                        prod = sc.mul(comps[k], blend[k])
                        c.prove(f"{tag} comp {k}: inverse of the linear blend", _close_rel(prod, 1, TOL), A0 + ufax + side_div,
                                _robust(rp, A0 + ufax + side_div, _close_rel(prod, 1, LOOSE), c), key=kbase + ":blend")
                        lo_b, hi_b = (e_lo[k], e_hi[k])
                        inv_lo = src[(k,) + cell] if kind == "etch" else sc.div(1, lo_b)  # etch: the inverse of what is already in the cell
                        inv_hi = sc.div(1, hi_b)
                        rng_claim = lambda t: sc.and_(sc.le(sc.min_(inv_lo, inv_hi), sc.add(comps[k], t)), sc.le(comps[k], sc.add(sc.max_(inv_lo, inv_hi), t)))
                        c.prove(f"{tag} comp {k}: between the two inverse permittivities", rng_claim(TOL), A0 + ufax + side_div,
                                _robust(rp, A0 + ufax + side_div, rng_claim(LOOSE), c), key=kbase + ":range")
                else:
                    Cm = np.array(comps, dtype=object).reshape(3, 3)
                    Bm = np.array(blend, dtype=object).reshape(3, 3)
                    for i in range(3):
                        for j in range(3):
                            acc = 0
                            for k in range(3):
                                acc = sc.add(acc, sc.mul(Cm[i, k], Bm[k, j]))
                            c.prove(f"{tag}: (cell tensor x blended tensor)[{i},{j}] = identity", _close(acc, 1 if i == j else 0, TOL), A0 + side_det,
                                    _robust(rp, A0 + side_det, _close(acc, 1 if i == j else 0, LOOSE), c), key=kbase + ":blend")
            if len(c.violations) > vio0:
                break
        if ncomp == 9 and kind == "continuous":
            for n_, cond in enumerate(side_det):
                c.prove(f"{d['name']}: blended tensor non-singular #{n_}", cond, A0, None, key=kbase + ":det")
    for n_, cond in enumerate(side_idx):
        c.prove(f"material index #{n_} within the device's material table", cond, A0, None, key="definedness:index")
    if ncomp != 9:
        # definedness of the divisions the real code performs (blend > 0 on the documented domain)
        for n_, cond in enumerate(side_div):
            c.prove(f"division #{n_} defined", cond, A0 + ufax, None, key="definedness:div")

    # ---- vacuity twins
    dom2 = []
    for a in dom:
        a2 = a
        for d in devs:
            for x, y in zip(P1[d["name"]].reshape(-1), P2[d["name"]].reshape(-1)):
                a2 = z3.substitute(a2, (x, y))
        dom2.append(a2)
    d0 = devs[0]
    cell0 = tuple(d0["lo"])
    o0 = out["inv_permittivities"][(0,) + cell0]
    pre0 = state["inv_permittivities"][(0,) + cell0]
    c.witness("device cell can change", sc.ne(o0, pre0), A0 + ufax + side_idx)
    o0_alt = sc.toz(o0)
    for x, y in zip(P1[d0["name"]].reshape(-1), P2[d0["name"]].reshape(-1)):
        o0_alt = z3.substitute(o0_alt, (x, y))
    c.witness("two parameter sets give two different cells", sc.toz(o0) != o0_alt, A0 + dom2 + ufax + side_idx)

    # ---- (d) history independence: apply(p2, apply(p1, A)) == apply(p2, A)
    it2 = jx.Interp()
    t0 = time.time()
    (h2, hb, hinit), _ = jx.call(f_hist, state, backup, P1, P2, interp=it2)
    c.interp_s += time.time() - t0
    def replay_hist(m):
        st, bk, p1, p2 = concretise(m)
        J = lambda d_: {k: jnp.asarray(v, dtype=jnp.float64) for k, v in d_.items()}
        r2, rb, _ = f_hist(J(st), None if bk is None else jnp.asarray(bk, dtype=jnp.float64), J(p1), J(p2))
        worst, where = 0.0, None
        for n in names:
            e = float(np.max(np.abs(np.asarray(r2[n]) - np.asarray(rb[n])) / (1.0 + np.abs(np.asarray(rb[n])))))
            if e > worst:
                worst, where = e, n
        return worst > 1e-9, dict(max_rel_diff=worst, array=where, state=st, backup=bk, p1=p1, p2=p2)

    sides2 = [cond for (k, cond, _) in it2.side if k in ("gather_in_range",)]
    AH = A0 + dom2 + sc.UF.axioms()
    for n in names:
        c.prove_eq(f"history independence: {n}", jx.lift(h2[n]), jx.lift(hb[n]), AH + sides2, replay_hist, key=f"history:{'etch' if etched else 'fill'}:{n}", chunk=4,
                   tol=None if ncomp != 9 else TOL)
    if etched:
        c.prove_eq("etch backup array is never modified", jx.lift(hinit), backup, AH, replay_hist, key="history:etch:backup", chunk=8)
    c.witness("history twin: the intermediate state differs from the final one", sc.ne(jx.lift(h2["inv_permittivities"])[(0,) + cell0], o0), AH + sides2 + side_idx)


# ------------------------------------------------------------------------------------------------------------ helpers
def _run_chain(mods, x, kwargs):
    p = {"params": x}
    for t in mods:
        p = t(p, **kwargs)
    return next(iter(p.values()))


def _and(xs):
    r = True
    for x in xs:
        r = sc.and_(r, x)
    return r


def _or(xs):
    r = False
    for x in xs:
        r = sc.or_(r, x)
    return r


def _close(a, b, tol):
    """|a - b| <= tol * (1 + |b|) for a concrete b."""
    if sc.isz(b):
        d = sc.sub(a, b)
        return sc.and_(sc.le(d, tol), sc.ge(d, -tol))
    t = tol * (1 + abs(Fraction(b)))
    d = sc.sub(a, b)
    return sc.and_(sc.le(d, t), sc.ge(d, -t))


def _close_rel(a, b, tol):
    d = sc.sub(a, b)
    return sc.and_(sc.le(d, tol), sc.ge(d, -tol))


def _inv_components(eps, ncomp):
    if ncomp in (1, 3):
        return [1 / e for e in eps]
    M = [[eps[3 * i + j] for j in range(3)] for i in range(3)]
    det = (M[0][0] * (M[1][1] * M[2][2] - M[1][2] * M[2][1]) - M[0][1] * (M[1][0] * M[2][2] - M[1][2] * M[2][0]) + M[0][2] * (M[1][0] * M[2][1] - M[1][1] * M[2][0]))
    cof = lambda i, j: (M[(i + 1) % 3][(j + 1) % 3] * M[(i + 2) % 3][(j + 2) % 3] - M[(i + 1) % 3][(j + 2) % 3] * M[(i + 2) % 3][(j + 1) % 3])
    return [cof(j, i) / det for i in range(3) for j in range(3)]


def _coef_table(mats, order, arr, cfg):
    """per material (index order) and coefficient array: list over pole slots of the isotropic coefficient (0-padded)."""
    npoles = arr.dispersive_c1.shape[0]
    dt = cfg.time_step_duration
    tab = {cn: [] for cn in ("dispersive_c1", "dispersive_c2", "dispersive_c3", "dispersive_c4")}
    for i in order:
        e, pk = mats[i]
        vals = [[Fraction(0)] * npoles for _ in range(4)]
        if pk is not None:
            m = _material(_tup(e), pk)
            cs = compute_pole_coefficients(m.dispersion.poles, dt)
            for k in range(4):
                for pi, v in enumerate(np.asarray(cs[k]).reshape(-1)):
                    vals[k][pi] = Fraction(float(v))
        for k, cn in enumerate(tab):
            tab[cn].append(vals[k])
    return tab


def _ids(t):
    seen, st = set(), [t]
    while st:
        u = st.pop()
        if u.get_id() in seen:
            continue
        seen.add(u.get_id())
        st.extend(u.children())
    return seen


def _subst(t, x, y):
    return z3.substitute(sc.toz(t), (x, y)) if sc.isz(t) else t


def _concrete_inputs(rng, arr, names, state, backup, P1, devs, case, inside):
    st = {}
    for n in names:
        ref = np.asarray(getattr(arr, n), dtype=np.float64)
        if jx.has_z3(state[n]):
            st[n] = np.round(ref * rng.uniform(0.8, 1.25, size=ref.shape) + (0.0 if n.startswith("inv") else rng.uniform(0, 0.3, size=ref.shape)), 4)
        else:
            st[n] = jx.to_numeric(state[n])
    bk = None
    if backup is not None:
        bk = st["inv_permittivities"].copy()
        cur = bk.copy()
        cur[:, inside] = np.round(cur[:, inside] * rng.uniform(0.5, 1.5, size=cur[:, inside].shape), 4)
        st["inv_permittivities"] = cur
    p = {}
    for d in devs:
        shp = P1[d["name"]].shape
        M = len(_matlist(case, d))
        p[d["name"]] = np.round(rng.uniform(-0.4, M - 0.6, size=shp), 3) if d["chain"] == "closest" else np.round(rng.uniform(0, 1, size=shp), 3)
    return st, bk, p


def _robust(replay, assume, loose_claim, c):
    """replay wrapper: if the solver's witness for the tight (1e-9) claim is only marginal in float64, ask for a witness that
    violates the claim by the LOOSE margin and replay that one."""
    def rp(m):
        bad, detail = replay(m)
        if bad or not sc.isz(loose_claim):
            return bad, detail
        s = z3.Solver()
        s.set("timeout", int(min(c.timeout_ms, 30000)))
        for a in assume:
            if sc.isz(a):
                s.add(a)
        s.add(z3.Not(loose_claim))
        t0 = time.time()
        r = s.check()
        c.solver_s += time.time() - t0
        c.queries += 1
        if r != z3.sat:
            return bad, dict(detail, note="no witness with a 1e-4 margin exists / found")
        return replay(s.model())
    return rp


def _replay_cell(c, real_single, concretise, d, cell, vox_idx, eps, coef, ncomp, kind, names, placed, kwargs):
    def replay(m):
        st, bk, p1, _ = concretise(m)
        r = real_single(st, bk, p1)
        got = np.array([r["inv_permittivities"][(k,) + cell] for k in range(ncomp)], dtype=np.float64)
        fe = [np.array([float(x) for x in e]) for e in eps]
        detail = dict(device=d["name"], cell=list(cell), got=got, params=p1, state=st, backup=bk, kind=kind)
        if kind == "discrete":
            ok = False
            for mi, e in enumerate(fe):
                target = np.array([float(x) for x in _inv_components(eps[mi], ncomp)])
                good = np.allclose(got, target, rtol=1e-7, atol=1e-9)
                if good and coef is not None:
                    for cn in coef:
                        if cn in names:
                            a = r[cn]
                            for pi in range(a.shape[0]):
                                for k in range(a.shape[1]):
                                    good &= bool(abs(a[(pi, k) + cell] - float(coef[cn][mi][pi])) <= 1e-7 * (1 + abs(float(coef[cn][mi][pi]))))
                ok |= bool(good)
            return (not ok), dict(detail, reason="cell matches no single device material")
        # continuous / etch: chain output by running the real chain on the witness parameters
        pv = np.asarray(p1[d["name"]], dtype=np.float64)
        mods = placed[d["name"]].param_transforms
        v = float(np.asarray(_run_chain(mods, jnp.asarray(pv), kwargs) if mods else pv)[vox_idx])
        if kind == "etch":
            src = bk if bk is not None else st["inv_permittivities"]
            e_lo = 1.0 / np.array([src[(k,) + cell] for k in range(ncomp)])
            e_hi = fe[0]
        else:
            e_lo, e_hi = fe[0], fe[1]
        blend = e_lo + v * (e_hi - e_lo)
        exp = 1.0 / blend if ncomp in (1, 3) else np.linalg.inv(blend.reshape(3, 3)).reshape(-1)
        err = float(np.max(np.abs(got - exp) / (1 + np.abs(exp))))
        bad = err > 1e-7
        if ncomp in (1, 3) and not bad:
            lo_, hi_ = np.minimum(1 / e_lo, 1 / e_hi), np.maximum(1 / e_lo, 1 / e_hi)
            bad = bool(np.any(got < lo_ - 1e-7) or np.any(got > hi_ + 1e-7))
        return bad, dict(detail, chain_output=v, expected=exp, rel_err=err)

    return replay
