"""C01 -- discrete Yee energy conserved (closed, source-free) / non-increasing with conductivity (E1).

Two forward steps of the real ``forward`` are interpreted with every E/H entry symbolic.  Oracle (independent of
``compute_energy``): W_k = sum V_E eps |E_k|^2 + sum V_H mu Re(H_k conj H_{k-1}) with staggered cell volumes built
from the grid's own cell widths (primal width where a component is cell-centred, dual width where it is
node-centred; dual width at a non-periodic edge = the edge cell's width, at a periodic/Bloch edge = mean of first
and last cell).  Obligation: W_2 == W_1 as one polynomial identity over all real field values; with conductivity
the certificate identity W_2 - W_1 == -sum d V (E_2+E_1)^2, d = c*sigma*eta0/2 >= 0, plus non-negativity of the
certificate terms.  A single step from an *arbitrary* wall-consistent state covers every step of any run, because
the step preserves the wall conditions (also proved).
"""
from __future__ import annotations

import time
from fractions import Fraction

import jax
import jax.numpy as jnp
import numpy as np
import z3

import fdtdx
from fdtdx.constants import eta0
from fdtdx.fdtd.forward import forward

from .. import jx2smt as jx
from .. import sc
from ..core import Inconclusive, model_array
from ..scenes import build_scene, exact_widths, grid_widths, wall_masks

META = dict(
    functions=["fdtd.forward.forward", "fdtd.update.update_E", "update_H", "core.physics.curl.curl_E/curl_H/_metric_scale",
               "core.misc.pad_fields", "fdtd.update.pad_fields_for_boundaries", "BlochBoundary.apply_pad_correction", "PEC/PMC.apply_post_*_update"],
    assumptions=[
        "reals for floats (round-off outside the claim)",
        "materials: seeded exact rationals, distinct per cell and component (z3 returns unknown on the global identity with symbolic denominators)",
        "wall conditions imposed on the initial state (entries zeroed by the boundary projections are 0) and proved preserved by a step",
        "stub: RectilinearGrid.cell_widths returns the grid's own widths as exact rationals (so metric factors are exact)",
        "oracle weights: primal/dual staggered cell volumes from the grid widths; dual width wraps on periodic/Bloch axes",
    ],
    outside="fully anisotropic tensors (property lists isotropic/diagonal only); PML; sources; shapes beyond the listed ones; float round-off",
    bounds=dict(quick=dict(shapes=[(3, 3, 3), (4, 3, 2)], steps="one step from an arbitrary state (inductive)"),
                thorough=dict(shapes=[(3, 3, 3), (4, 3, 2)], seeds=5)),
    timeout_ms=dict(quick=120000, thorough=600000),
)

_B = {
    "none": None,
    "periodic": "periodic",
    "pec": "pec",
    "pmc": "pmc",
    "bloch": "bloch",
    "mixA": {"min_x": "pec", "max_x": "pmc", "min_y": "periodic", "max_y": "periodic", "min_z": "pmc", "max_z": "pec"},
    "mixB": {"min_x": "periodic", "max_x": "periodic", "min_y": "pmc", "max_y": "pec", "min_z": "pec", "max_z": "pec"},
    "mixC": {"min_x": "pmc", "max_x": "pmc", "min_y": "pec", "max_y": "pmc", "min_z": "bloch", "max_z": "bloch"},
}
_GRIDS = ("uniform", "nonuniform", "nonuniform_eq_ends")
_MATS = ("iso", "diag", "diag_mu", "lossy")


def cases(tier, seed):
    """quick: the wrap-metric configurations plus every 11th combination on two shapes.  thorough: the same selection rule
    with five material/width seeds (configurations of the kinds the quick tier covers: 25-30 s each).  Measured and
    therefore not in the thorough tier: every-3rd-combination sets (70-160 cases) did not finish within 50 minutes here --
    lossy + Bloch cases on 4x3x2 and larger take minutes each."""
    out = []
    shapes = [(3, 3, 3), (4, 3, 2)]
    seeds = [seed] if tier == "quick" else [seed + k for k in range(5)]
    for si, shape in enumerate(shapes):
        for bi, b in enumerate(_B):
            for gi, g in enumerate(_GRIDS):
                for mi, m in enumerate(_MATS):
                    for sd in seeds:
                        mandatory = b in ("periodic", "bloch") and g == "nonuniform" and m == "diag"  # the wrap-metric configuration
                        if not mandatory and (si + bi + 2 * gi + 3 * mi) % 11 != 0:
                            continue
                        out.append(dict(name=f"{'x'.join(map(str, shape))}-{b}-{g}-{m}-s{sd}", shape=shape, bounds=b, grid=g, mat=m, seed=sd))
    return out


def _widths(shape, kind, seed):
    if kind == "uniform":
        return None
    rng = np.random.default_rng(100 + seed)
    ws = [[float(Fraction(int(v), 8)) for v in rng.integers(5, 13, size=n)] for n in shape]  # multiples of 1/8 in [0.625, 1.5]
    for w in ws:
        if kind == "nonuniform_eq_ends":
            w[-1] = w[0]
        elif len(w) > 1 and w[-1] == w[0]:
            w[-1] = w[0] + 0.25  # make sure the end widths differ
    return ws


def _bg(m):
    if m == "iso":
        return fdtdx.Material(permittivity=2.0)
    if m == "diag":
        return fdtdx.Material(permittivity=(2.0, 3.0, 1.5))
    if m == "diag_mu":
        return fdtdx.Material(permittivity=(2.0, 3.0, 1.5), permeability=(1.5, 1.25, 2.0))
    if m == "lossy":
        return fdtdx.Material(permittivity=(2.0, 3.0, 1.5), electric_conductivity=(0.5, 1.0, 2.0))
    raise ValueError(m)


def staggered_volumes(widths3, periodic3):
    """(V_E, V_H): arrays (3, Nx, Ny, Nz) of exact Fractions.  E_x is cell-centred along x and node-centred along y, z
    (p,d,d); H_x is (d,p,p); cyclic."""
    prim, dual = [], []
    for w, per in zip(widths3, periodic3):
        w = [Fraction(float(x)) for x in w]
        prev = [w[-1]] + w[:-1] if per else [w[0]] + w[:-1]
        prim.append(w)
        dual.append([(a + b) / 2 for a, b in zip(w, prev)])

    def vol(kinds):
        a = [prim[d] if kinds[d] == "p" else dual[d] for d in range(3)]
        out = np.empty((len(a[0]), len(a[1]), len(a[2])), dtype=object)
        for i in range(len(a[0])):
            for j in range(len(a[1])):
                for k in range(len(a[2])):
                    out[i, j, k] = a[0][i] * a[1][j] * a[2][k]
        return out

    VE = np.stack([vol("pdd"), vol("dpd"), vol("ddp")])
    VH = np.stack([vol("dpp"), vol("pdp"), vol("ppd")])
    return VE, VH


def _dot(w, X, Y, conjY=False):
    """sum w * Re(X * conj(Y)) over all entries (scalars of vf.sc)."""
    tot = 0
    for ww, x, y in zip(np.broadcast_to(jx.lift(w), X.shape).reshape(-1), jx.lift(X).reshape(-1), jx.lift(Y).reshape(-1)):
        if isinstance(x, sc.Cx) or isinstance(y, sc.Cx):
            x, y = sc.cx(x), sc.cx(y)
            p = sc.add(sc.mul(x.re, y.re), sc.mul(x.im, y.im))
        else:
            p = sc.mul(x, y)
        tot = sc.add(tot, sc.mul(ww, p))
    return tot


def run_case(c, case):
    shape = tuple(case["shape"])
    seed = case["seed"]
    rng = np.random.default_rng(seed * 77 + 5)
    bl = (0.0, 0.0, 0.0)
    bspec = _B[case["bounds"]]
    if case["bounds"] == "bloch":
        bl = (2.0e6, -1.3e6, 0.7e6)
    if case["bounds"] == "mixC":
        bl = (0.0, 0.0, 1.1e6)
    ws = _widths(shape, case["grid"], seed)
    S = build_scene(shape, bspec, steps=3, background=_bg(case["mat"]), widths=ws, bloch_vector=bl, thickness=1)
    arr, oc, cfg, key = S["arrays"], S["objects"], S["config"], S["key"]
    c.functions.update(META["functions"])
    c.bounds.update(shape=list(shape))
    cplx = np.iscomplexobj(np.asarray(arr.fields.E))
    fsh = arr.fields.E.shape
    zE, zH = wall_masks(oc, shape)
    periodic3 = [False, False, False]
    for b in oc.boundary_objects:
        if b.uses_wrap_padding:
            periodic3[b.axis] = True
    W3 = grid_widths(cfg)

    def masked(name, zero):
        a = jx.symarr(name, fsh, cplx=cplx)
        a[zero] = sc.Cx(0, 0) if cplx else 0
        return a

    E0, H0 = masked("E", zE), masked("H", zH)
    c.symvars += (E0.size + H0.size) * (2 if cplx else 1)

    # seeded exact-rational materials, distinct per cell and component: eps, mu in {1, 1.25, ..., 3}
    def seeded(ref):
        ref = np.asarray(ref)
        eps = rng.integers(4, 13, size=ref.shape) / 4.0
        return eps

    eps = seeded(arr.inv_permittivities)
    inv_eps = jx.fracarr(np.zeros_like(eps))
    for idx in np.ndindex(*eps.shape):
        inv_eps[idx] = 1 / Fraction(float(eps[idx]))
    mats = {"inv_permittivities": inv_eps}
    mu = None
    if np.ndim(arr.inv_permeabilities) > 0:
        mu = seeded(arr.inv_permeabilities)
        im = jx.fracarr(np.zeros_like(mu))
        for idx in np.ndindex(*mu.shape):
            im[idx] = 1 / Fraction(float(mu[idx]))
        mats["inv_permeabilities"] = im
    sig = None
    if arr.electric_conductivity is not None:
        sig = rng.integers(0, 5, size=np.shape(arr.electric_conductivity)) / 4.0  # includes zeros
        mats["electric_conductivity"] = jx.fracarr(sig)
    names = sorted(mats)
    nonuni = bool(cfg.has_nonuniform_grid)
    wargs = [jx.fracarr(w) for w in W3]

    def two(E, H, w0, w1, w2, *ms):
        a = arr.aset("fields->E", E).aset("fields->H", H)
        for n, m in zip(names, ms):
            a = a.aset(n, m)
        with exact_widths((w0, w1, w2)):
            s1 = forward((jnp.asarray(0, dtype=jnp.int32), a), cfg, oc, key, False, False, False)
            s2 = forward(s1, cfg, oc, key, False, False, False)
        return s1[1].fields.E, s1[1].fields.H, s2[1].fields.E, s2[1].fields.H

    t0 = time.time()
    (E1, H1, E2, H2), tr = jx.call(two, E0, H0, *wargs, *[mats[n] for n in names])
    c.interp_s += time.time() - t0

    # translator validation
    conc = [rng.normal(size=fsh) * (~zE), rng.normal(size=fsh) * (~zH)]
    if cplx:
        conc = [conc[0] + 1j * rng.normal(size=fsh) * (~zE), conc[1] + 1j * rng.normal(size=fsh) * (~zH)]
    cm = [jx.to_numeric(mats[n]) for n in names]
    two_jit = jax.jit(two)
    want = two_jit(*[jnp.asarray(x) for x in conc], *[jnp.asarray(w) for w in W3], *[jnp.asarray(x) for x in cm])
    got = tr(*[jx.fracarr(x) for x in conc], *wargs, *[mats[n] for n in names])
    for g, w in zip(got, want):
        c.validate(jx.to_numeric(g), np.asarray(w), "two forward steps")

    VE, VH = staggered_volumes(W3, periodic3)
    epsF = jx.fracarr(eps)
    muF = jx.fracarr(mu) if mu is not None else 1
    wE = jx.ew(sc.mul, VE, epsF)
    wH = jx.ew(sc.mul, VH, muF) if mu is not None else VH
    W1 = sc.add(_dot(wE, E1, E1), _dot(wH, H1, H0))
    W2 = sc.add(_dot(wE, E2, E2), _dot(wH, H2, H1))

    def energies(Ec, Hc):
        o = two_jit(jnp.asarray(Ec), jnp.asarray(Hc), *[jnp.asarray(w) for w in W3], *[jnp.asarray(x) for x in cm])
        e1, h1, e2, h2 = [np.asarray(x) for x in o]
        ve, vh = jx.to_numeric(wE), jx.to_numeric(wH)
        w1 = float(np.sum(ve * np.abs(e1) ** 2) + np.sum(vh * np.real(h1 * np.conj(Hc))))
        w2 = float(np.sum(ve * np.abs(e2) ** 2) + np.sum(vh * np.real(h2 * np.conj(h1))))
        return w1, w2, e1, e2

    key_ = f"{case['bounds']}-{case['grid']}"
    if sig is None:
        def replay(m):
            Ec, Hc = model_array(m, E0), model_array(m, H0)
            w1, w2, _, _ = energies(Ec, Hc)
            rel = abs(w2 - w1) / (abs(w1) + 1e-300)
            return rel > 1e-9, dict(W1=w1, W2=w2, rel_drift=rel, E=Ec, H=Hc, weights="staggered volumes (see harness)")
        c.prove("W(step 2) == W(step 1)", sc.eq(W2, W1), [], replay, key=f"energy-drift:{key_}")
        c.witness("energy can be non-zero", sc.ne(W1, 0), [])
    else:
        d = jx.ew(lambda s, v: sc.mul(sc.mul(Fraction(cfg.courant_number) * Fraction(float(eta0)) / 2, s), v), jx.fracarr(sig), VE)
        Ssum = jx.ew(sc.add, E2, E1)
        Q = _dot(d, Ssum, Ssum)

        def replay(m):
            Ec, Hc = model_array(m, E0), model_array(m, H0)
            w1, w2, _, _ = energies(Ec, Hc)
            rel = (w2 - w1) / (abs(w1) + 1e-300)
            return rel > 1e-9, dict(W1=w1, W2=w2, rel_increase=rel, E=Ec, H=Hc)
        ok = c.prove("certificate: W2 - W1 == -sum d V (E2+E1)^2", sc.eq(sc.sub(W2, W1), sc.neg(Q)), [], None, key=f"energy-increase:{key_}")
        if not ok:
            # the scheme may have been changed legitimately: ask directly for an increase
            c.inconclusive.clear()
            c.prove("W2 <= W1 (direct)", sc.le(W2, W1), [], replay, key=f"energy-increase:{key_}")
        # every certificate term is >= 0 (d >= 0, V > 0): per-term obligations, then the sum over fresh non-negative terms
        neg_terms = [(dd, s) for dd, s in zip(d.reshape(-1), Ssum.reshape(-1))]
        for i, (dd, s) in enumerate(neg_terms):
            t = sc.mul(dd, (sc.add(sc.mul(sc.cx(s).re, sc.cx(s).re), sc.mul(sc.cx(s).im, sc.cx(s).im)) if isinstance(s, sc.Cx) else sc.mul(s, s)))
            c.prove(f"certificate term {i} >= 0", sc.ge(t, 0), [])
        c.witness("energy can strictly decrease", sc.lt(W2, W1), [])
    # wall conditions are preserved by a step (inductive invariant)
    for nm, A, z in (("E", E1, zE), ("H", H1, zH)):
        bad = [v for v in jx.lift(A)[z].reshape(-1)]
        c.prove(f"wall condition preserved for {nm}", all((not sc.is_symbolic_scalar(v)) and (sc.cx(v).re == 0 and sc.cx(v).im == 0 if isinstance(v, sc.Cx) else v == 0) for v in bad) if bad else True)
