"""C27 -- placement does not depend on the order of objects or constraints (E2, shares the template machinery of C26).

Inside one concolic path exploration the real ``resolve_object_constraints`` is run on the template's object / constraint lists
in the given order and on permutations of the object list and of the constraint list (all of them up to the cap, otherwise
identity, reversal, rotations, adjacent swaps, move-to-front/back and seeded extra permutations).  All runs share the same symbolic
inputs.  Per path: every permuted run must agree with the reference run on whether placement succeeds, and, when it does, on the
resolved slice of every object (z3 equality of the symbolic slice bounds under the path condition).
"""
from __future__ import annotations

import itertools
import random

import z3

from ..core import Inconclusive
from . import c26 as P

META = dict(
    functions=P.META["functions"],
    assumptions=P.META["assumptions"] + ["'succeeds' = no error message for any object and every bound resolved"],
    outside=P.META["outside"] + "; permutations beyond the cap for lists longer than 4 (a covering subset is used there)",
    bounds=dict(quick=dict(cells_active_axis=6, permutations_per_list="all if <= 12 else 12 (identity, reversal, rotations, adjacent swaps, move-to-front/back, seeded)"),
                thorough=dict(cells_active_axis=[6, 7, 8], permutations_per_list="all if <= 48 else 48 (structured + seeded)")),
    timeout_ms=dict(quick=30000, thorough=120000),
)

_SKIP_QUICK = {"realcoords-samesize", "extend-grid-offset", "overdetermined-ext-pinned", "overdetermined-pos-vs-2coords"}  # largest path counts; thorough only


def cases(tier, seed):
    out = []
    for name, spec in P.templates(tier).items():
        if tier == "quick" and (not spec["quick"] or name in _SKIP_QUICK):
            continue
        out.append(dict(name=name, template=name))
    heavy = ["multiaxis-staged", "overdetermined-pos-vs-2coords", "overdetermined-pos-vs-coords-pinned", "overdetermined-pos-vs-coords", "gridcoord-gridmargin", "realcoords-samesize",
             "extend-grid-offset", "overdetermined-ext-pinned"]
    out.sort(key=lambda d: heavy.index(d["name"]) if d["name"] in heavy else len(heavy))  # longest cases first (pool scheduling)
    return out


def perms(n, cap, seed):
    """list of permutations (tuples) of range(n), identity first."""
    ident = tuple(range(n))
    if n <= 1:
        return [ident]
    import math

    if math.factorial(n) <= cap:
        return [ident] + [p for p in itertools.permutations(range(n)) if p != ident]
    out = [ident, ident[::-1]]
    for r in range(1, n):
        out.append(ident[r:] + ident[:r])
    for i in range(n - 1):
        q = list(ident)
        q[i], q[i + 1] = q[i + 1], q[i]
        out.append(tuple(q))
    for i in range(n):
        rest = [j for j in ident if j != i]
        out.append(tuple(rest + [i]))
        out.append(tuple([i] + rest))
    rng = random.Random(1000 + seed + n)
    seen, uniq = set(), []
    for p in out:
        if p not in seen:
            seen.add(p)
            uniq.append(p)
    while len(uniq) < cap:
        q = list(ident)
        rng.shuffle(q)
        if tuple(q) not in seen:
            seen.add(tuple(q))
            uniq.append(tuple(q))
    return uniq[:cap]


def _eq_slices(a, b):
    cl = []
    for n in a:
        for (a0, a1), (b0, b1) in zip(a[n], b[n]):
            cl.append(P.zt(a0) == P.zt(b0))
            cl.append(P.zt(a1) == P.zt(b1))
    return z3.And(*cl)


def run_case(c, case):
    spec = P.templates(c.tier)[case["template"]]
    c.functions.update(META["functions"])
    cap = 12 if c.tier == "quick" else 48
    nobj, ncon = len(spec["objects"]), len(spec["constraints"])
    operms = perms(nobj, cap, c.seed)
    cperms = perms(ncon, cap, c.seed)
    order_desc = [("reference", operms[0], cperms[0])] + [("objects", p, cperms[0]) for p in operms[1:]] + [("constraints", operms[0], p) for p in cperms[1:]]
    # a few joint permutations
    for i in range(1, min(len(operms), len(cperms), 6)):
        order_desc.append(("both", operms[-i], cperms[-i]))
    c.bounds.update(shape=spec["shape"], grid=spec.get("grid", "uniform"), symbols=sorted(P.symbols_of(spec)), object_permutations=len(operms),
                    constraint_permutations=len(cperms), runs_per_path=len(order_desc))
    stats = dict(success_paths=0, failed_paths=0)
    seen_twin = []
    violated_keys = set()

    def runs(objs, cons):
        return [([objs[i] for i in po], [cons[i] for i in pc_]) for _, po, pc_ in order_desc]

    def on_path(results, pc, envz):
        ref_res, ref_exc = results[0]
        ok0 = P.success(ref_res, ref_exc)
        stats["success_paths" if ok0 else "failed_paths"] += 1
        npath = stats["success_paths"] + stats["failed_paths"]
        if ok0 and not seen_twin:
            seen_twin.append(pc)
        groups = {}
        for (what, po, pcn), (res, exc) in zip(order_desc[1:], results[1:]):
            ok = P.success(res, exc)
            if ok != ok0:
                claim = z3.BoolVal(False)
            elif ok:
                claim = _eq_slices(ref_res[0], res[0])
            else:
                claim = z3.BoolVal(True)
            groups.setdefault(what, []).append((claim, po, pcn))
        for what, items in groups.items():
            bad = [it for it in items if not z3.is_true(z3.simplify(it[0]))]

            def replay(m, items=items):
                env = P.concrete_env(spec, m, envz)
                r0, e0 = P.concrete_run(spec, env)
                s0 = P.success(r0, e0)
                for _, po, pcn in items:
                    sp = dict(spec, objects=[spec["objects"][i] for i in po], constraints=[spec["constraints"][i] for i in pcn])
                    r1, e1 = P.concrete_run(sp, env)
                    s1 = P.success(r1, e1)
                    same = s1 == s0 and (not s0 or {k: tuple(map(tuple, v)) for k, v in r1[0].items()} == {k: tuple(map(tuple, v)) for k, v in r0[0].items()})
                    if not same:
                        return True, dict(template=spec["name"], inputs=env, object_order=[spec["objects"][i]["name"] for i in po],
                                          constraint_order=list(pcn), constraints=[P._describe(k, env) for k in spec["constraints"]],
                                          reference=dict(succeeds=s0, slices=_js(r0), errors=_errs(r0, e0)), permuted=dict(succeeds=s1, slices=_js(r1), errors=_errs(r1, e1)))
                return False, dict(template=spec["name"], inputs=env, note="all permutations agree on the concrete witness")

            key = f"order-dependence:{what}:{spec['name']}"
            if key in violated_keys:
                continue
            nv = len(c.violations)
            c.prove(f"{what}-order#path{npath}", z3.And(*[it[0] for it in items]), pc, replay, key=key)
            if len(c.violations) > nv:
                violated_keys.add(key)
        if len(violated_keys) == len(groups) and groups:
            raise P.StopExploration(f"every permutation group of template {spec['name']} already has a replay-confirmed violation (after {npath} paths)")

    P.explore_template(c, spec, runs, on_path)
    c.extra.update(stats)
    # vacuity twin: the reference run can succeed (so slice equality is actually compared on some path)
    if seen_twin:
        c.witness("a successful placement exists", z3.BoolVal(True), seen_twin[0])
    else:
        c.witness("a successful placement exists", False)


def _js(r):
    if r is None:
        return None
    return {k: [[None if b is None else int(b) for b in ax] for ax in v] for k, v in r[0].items()}


def _errs(r, e):
    if e is not None:
        return repr(e)[:200]
    return {k: str(v)[:160] for k, v in r[1].items() if v}
