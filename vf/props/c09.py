"""C09 -- a periodic / Bloch domain of N cells evolves like its m*N-cell supercell (E1).

Two real placements: N cells and the supercell (tiling factor m along one or two periodic axes, tiled cell widths
on non-uniform grids, tiled materials).  The N-cell fields are symbolic (complex for Bloch); the supercell input is
their tiling with the Bloch phase exp(i k L)^j applied to copy j.  After T forward steps the supercell state must be
the tiled/phased N-cell state.
"""
from __future__ import annotations

import time

import jax
import jax.numpy as jnp
import numpy as np
import z3

import fdtdx
from fdtdx.fdtd.forward import forward

from .. import jx2smt as jx
from .. import sc
from ..core import Inconclusive, model_array
from ..scenes import build_scene, exact_widths, grid_widths

SPACING = 2.0 ** -24  # dyadic spacing (~59.6 nm): widths k/8*SPACING and their cumulative edges are exact floats, so both placements derive identical constants

META = dict(
    functions=["fdtd.forward.forward", "core.misc.pad_fields(periodic_axes)", "fdtd.update.pad_fields_for_boundaries", "BlochBoundary.apply_pad_correction/get_bloch_phase",
               "core.physics.curl.curl_E/curl_H/_metric_scale", "update_E/update_H"],
    assumptions=["reals for floats", "materials: seeded positive values per cell (concrete), tiled for the supercell", "quantified: all N-cell field values (real, or complex for Bloch)",
                 "stub: RectilinearGrid.cell_widths returns the grid widths as exact rationals (supercell = exact tiling)", "stub: BlochBoundary.get_bloch_phase returns an exact unit-modulus rational phase (Pythagorean), the supercell its exact m-th power; the real get_bloch_phase is checked concretely for phase(mL) == phase(L)^m, |phase| == 1 and phase == exp(i k L)"],
    outside="T, m and shapes beyond the bounds; PML on the non-periodic faces",
    bounds=dict(quick=dict(T=3, m=[2, 3]), thorough=dict(T=5, m=[2, 3])),
)


def cases(tier, seed):
    T = 3 if tier == "quick" else 5
    out = []
    # (name, base shape, tiling per axis, boundary kind, k-vector scale (k*L per axis), grid)
    base = [
        ("periodic-x2-uniform", (2, 3, 2), (2, 1, 1), "periodic", (0, 0, 0), "uniform"),
        ("periodic-z3-nonuniform", (2, 2, 3), (1, 1, 3), "periodic", (0, 0, 0), "nonuniform"),
        ("bloch-x2-uniform", (3, 2, 2), (2, 1, 1), "bloch", (1.3, 0, 0), "uniform"),
        ("bloch-y2-nonuniform", (2, 3, 2), (1, 2, 1), "bloch", (0.4, 1.7, -0.6), "nonuniform"),
        ("bloch-pi-z2", (2, 2, 3), (1, 1, 2), "bloch", (0, 0, np.pi), "uniform"),
        ("periodic-xy2-mixedwalls", (2, 2, 3), (2, 2, 1), "periodic_xy_pec_z", (0, 0, 0), "uniform"),
        # full (non-diagonal) tensors: the anisotropic branch averages across the wrap seam diagonally (edge/corner ghost cells)
        ("bloch-xy2-fulltensor", (2, 2, 2), (2, 2, 1), "bloch", (1.3, -0.7, 0), "uniform"),
        # one cell along a Bloch axis with k != 0 (quasi-2D run with an out-of-plane wave vector): the cell is its own
        # neighbour up to the phase, the derivative along that axis does not vanish (seeded change C09b)
        ("bloch-y1-singlecell", (3, 1, 2), (1, 2, 1), "bloch", (0.5, 1.3, 0), "uniform"),
    ]
    if tier != "quick":
        base += [
            ("bloch-x3-uniform", (2, 2, 2), (3, 1, 1), "bloch", (0.9, -0.3, 0.2), "uniform"),
            ("periodic-y3-uniform", (2, 2, 2), (1, 3, 1), "periodic", (0, 0, 0), "uniform"),
            ("bloch-xz2-nonuniform", (2, 2, 2), (2, 1, 2), "bloch", (1.1, 0.5, -0.8), "nonuniform"),
            ("bloch-halfpi-y2", (2, 3, 2), (1, 2, 1), "bloch", (0, np.pi / 2, 0), "uniform"),
            ("periodic-yz2-fulltensor", (2, 2, 2), (1, 2, 2), "periodic", (0, 0, 0), "uniform"),
            ("bloch-xz2-fulltensor-nonuniform", (2, 2, 2), (2, 1, 2), "bloch", (0.8, 0.3, -1.1), "nonuniform"),
            ("bloch-x1-singlecell-x3", (1, 2, 3), (3, 1, 1), "bloch", (-1.9, 0.0, 0.7), "uniform"),
            ("periodic-z1-singlecell", (2, 2, 1), (1, 1, 2), "periodic", (0, 0, 0), "uniform"),
            ("bloch-z1-singlecell-nonuniform", (2, 3, 1), (1, 1, 2), "bloch", (0.3, 0.0, 2.1), "nonuniform"),
        ]
    for nm, shape, tile, kind, kL, grid in base:
        # full-tensor scenes: every output entry depends on ~27 neighbours per step; one step (quick) / two steps already
        # exercise every edge and corner ghost cell, deeper runs are covered by the diagonal-material cases
        TT = T if "fulltensor" not in nm else (1 if tier == "quick" else 2)
        out.append(dict(name=nm, shape=shape, tile=tile, kind=kind, kL=[float(v) for v in kL], grid=grid, T=TT))
    return out


class bloch_phase_stub:
    """Harness-side stub: while active, ``BlochBoundary.get_bloch_phase`` returns entry ``axis`` of the given (traced)
    complex vector, so that the phase is an exact unit-modulus rational in the interpretation (a float exp(i k L) is
    only unit-modulus up to round-off, and supercell = tiled cell needs conj(p) p = 1 exactly)."""

    def __init__(self, ph):
        self.ph = ph

    def __enter__(self):
        from fdtdx.objects.boundaries.bloch import BlochBoundary
        self.cls = BlochBoundary
        self.orig = BlochBoundary.get_bloch_phase
        ph = self.ph
        BlochBoundary.get_bloch_phase = lambda self_, volume_shape, resolution: ph[self_.axis]
        return self

    def __exit__(self, *a):
        self.cls.get_bloch_phase = self.orig


_PYTH = [(3, 4, 5), (5, -12, 13), (-8, 15, 17), (0, 1, 1), (-1, 0, 1), (7, 24, 25)]


def run_case(c, case):
    shape, tile, T = tuple(case["shape"]), tuple(case["tile"]), case["T"]
    rng = np.random.default_rng(c.seed + 5)
    c.functions.update(META["functions"])
    c.bounds.update(T=T, shape=list(shape), tile=list(tile))
    ws = None
    if case["grid"] == "nonuniform":
        ws = [[float(v) / 8 for v in rng.integers(5, 13, size=n)] for n in shape]
        for w in ws:
            if len(w) > 1 and w[0] == w[-1]:
                w[-1] += 0.25
    sshape = tuple(n * m for n, m in zip(shape, tile))
    wss = None if ws is None else [list(w) * m for w, m in zip(ws, tile)]
    if case["kind"] == "periodic_xy_pec_z":
        bounds = {"min_x": "periodic", "max_x": "periodic", "min_y": "periodic", "max_y": "periodic", "min_z": "pec", "max_z": "pmc"}
    else:
        bounds = case["kind"]
    L = [float(np.sum(w)) * SPACING if ws is not None else n * SPACING for w, n in zip(ws or [None] * 3, shape)]
    kvec = tuple(kl / l for kl, l in zip(case["kL"], L))
    full = "fulltensor" in case["name"]
    if full:
        mat = fdtdx.Material(permittivity=((2.0, 0.3, 0.1), (0.3, 2.5, 0.2), (0.1, 0.2, 3.0)), permeability=((1.5, 0.1, 0.0), (0.1, 1.25, 0.05), (0.0, 0.05, 2.0)))
    else:
        mat = fdtdx.Material(permittivity=(2.0, 3.0, 1.5), permeability=(1.5, 1.25, 2.0))
    S1 = build_scene(shape, bounds, steps=T, widths=ws, bloch_vector=kvec, background=mat, thickness=1, spacing=SPACING)
    S2 = build_scene(sshape, bounds, steps=T, widths=wss, bloch_vector=kvec, background=mat, thickness=1, spacing=SPACING)
    cplx = np.iscomplexobj(np.asarray(S1["arrays"].fields.E))
    if cplx != np.iscomplexobj(np.asarray(S2["arrays"].fields.E)):
        raise Inconclusive("the two placements disagree on complex storage")
    fsh = S1["arrays"].fields.E.shape
    from ..scenes import wall_masks
    zE, zH = wall_masks(S1["objects"], shape)

    def masked(name, zero):
        a = jx.symarr(name, fsh, cplx=cplx)
        a[zero] = sc.Cx(0, 0) if cplx else 0
        return a

    E, H = masked("E", zE), masked("H", zH)
    c.symvars += (E.size + H.size) * (2 if cplx else 1)
    if full:
        # per-cell symmetric positive definite perturbations of the placed inverse tensors
        def spd(ref):
            ref = np.asarray(ref)
            pert = rng.uniform(-0.03, 0.03, size=(3, 3) + ref.shape[1:])
            pert = (pert + np.swapaxes(pert, 0, 1)) / 2
            return np.round(ref + pert.reshape(ref.shape), 3)
        ie, im = spd(S1["arrays"].inv_permittivities), spd(S1["arrays"].inv_permeabilities)
    else:
        ie = np.round(rng.uniform(0.3, 1.0, size=np.shape(S1["arrays"].inv_permittivities)), 3)
        im = np.round(rng.uniform(0.4, 1.0, size=np.shape(S1["arrays"].inv_permeabilities)), 3)
    from fractions import Fraction
    # exact unit-modulus rational phase per axis (1 where k = 0); the placed scenes get the matching k vector
    exact_phase = []
    for ax in range(3):
        if case["kL"][ax] == 0 or not cplx:
            exact_phase.append((Fraction(1), Fraction(0)))
        else:
            a_, b_, h_ = _PYTH[(ax + int(abs(case["kL"][ax]) * 10)) % len(_PYTH)]
            exact_phase.append((Fraction(a_, h_), Fraction(b_, h_)))
    phase = [complex(float(p[0]), float(p[1])) for p in exact_phase]

    def cpow(p, m):
        r = (Fraction(1), Fraction(0))
        for _ in range(m):
            r = (r[0] * p[0] - r[1] * p[1], r[0] * p[1] + r[1] * p[0])
        return r
    ph1 = np.empty((3,), dtype=object)
    ph2 = np.empty((3,), dtype=object)
    for ax in range(3):
        ph1[ax] = sc.Cx(*exact_phase[ax])
        ph2[ax] = sc.Cx(*cpow(exact_phase[ax], tile[ax]))

    def tile_np(a, with_phase):
        """numpy tiling of a (comp, x, y, z) array, copy j along axis ax multiplied by phase[ax]**j."""
        out = a
        for ax in range(3):
            m = tile[ax]
            if m == 1:
                continue
            parts = []
            for j in range(m):
                f = phase[ax] ** j if (with_phase and cplx) else 1.0
                parts.append(out * f if f != 1.0 else out)
            out = np.concatenate(parts, axis=ax + 1) if not jx.is_obj(out) else None
        return out

    def tile_sym(a, with_phase):
        out = jx.lift(a)
        for ax in range(3):
            m = tile[ax]
            if m == 1:
                continue
            parts = []
            for j in range(m):
                if with_phase and cplx and j > 0:
                    pc = sc.Cx(*cpow(exact_phase[ax], j))
                    parts.append(jx.ew(lambda v, pc=pc: sc.mul(v, pc), out))
                else:
                    parts.append(out)
            out = np.concatenate(parts, axis=ax + 1)
        return out

    def mk(S, tiled):
        arr, oc, cfg, key = S["arrays"], S["objects"], S["config"], S["key"]
        ie_, im_ = (tile_np(ie, False), tile_np(im, False)) if tiled else (ie, im)
        a0 = arr.aset("inv_permittivities", jnp.asarray(ie_)).aset("inv_permeabilities", jnp.asarray(im_))

        def run(E, H, ph, w0, w1, w2):
            st = (jnp.asarray(0, dtype=jnp.int32), a0.aset("fields->E", E).aset("fields->H", H))
            with bloch_phase_stub(ph), exact_widths((w0, w1, w2)):
                for _ in range(T):
                    st = forward(st, cfg, oc, key, False, False, False)
            return st[1].fields.E, st[1].fields.H
        return run

    r1, r2 = mk(S1, False), mk(S2, True)
    t0 = time.time()
    dt = {2: np.complex128}
    # grid widths as exact rationals (stub exact_widths): the supercell's are the exact tiling of the cell's
    W1 = [np.asarray(w, dtype=np.float64) for w in ((np.asarray(x) * SPACING for x in ws) if ws is not None else grid_widths(S1["config"]))]
    W2 = [np.tile(w, m) for w, m in zip(W1, tile)]
    for wa, wb in zip(W2, grid_widths(S2["config"])):
        if not np.allclose(wa, wb, rtol=1e-12, atol=0):
            raise Inconclusive("supercell grid widths are not the tiling of the cell widths")
    w1a, w2a = [jx.fracarr(w) for w in W1], [jx.fracarr(w) for w in W2]
    (E1, H1), tr1 = jx.call(r1, E, H, ph1, *w1a, dtypes=dt)
    (E2, H2), tr2 = jx.call(r2, tile_sym(E, True), tile_sym(H, True), ph2, *w2a, dtypes=dt)
    # the real get_bloch_phase of the two placements must be consistent with the tiling (concrete check of the
    # stubbed function): phase(supercell) == phase(cell)^m up to round-off, and |phase| == 1
    for b1 in S1["objects"].boundary_objects:
        if hasattr(b1, "get_bloch_phase") and b1.direction == "+":
            b2 = [b for b in S2["objects"].boundary_objects if hasattr(b, "get_bloch_phase") and b.axis == b1.axis and b.direction == "+"][0]
            p1 = complex(b1.get_bloch_phase(shape, SPACING))
            p2 = complex(b2.get_bloch_phase(sshape, SPACING))
            c.prove(f"get_bloch_phase axis {b1.axis}: supercell phase == cell phase ^ m and |phase| == 1 (concrete)",
                    bool(abs(p2 - p1 ** tile[b1.axis]) < 1e-9 and abs(abs(p1) - 1) < 1e-12 and abs(p1 - np.exp(1j * case["kL"][b1.axis])) < 1e-9))
    c.interp_s += time.time() - t0
    j1, j2 = jax.jit(r1), jax.jit(r2)
    mk_c = lambda z: (rng.normal(size=fsh) + (1j * rng.normal(size=fsh) if cplx else 0)) * (~z)
    ce, ch = mk_c(zE), mk_c(zH)
    p1c = jnp.asarray(np.array(phase, dtype=np.complex128))
    p2c = jnp.asarray(np.array([phase[ax] ** tile[ax] for ax in range(3)], dtype=np.complex128))
    W1j, W2j = [jnp.asarray(w) for w in W1], [jnp.asarray(w) for w in W2]
    want = j2(jnp.asarray(tile_np(ce, True)), jnp.asarray(tile_np(ch, True)), p2c, *W2j)
    got = tr2(jx.lift(tile_np(ce, True)), jx.lift(tile_np(ch, True)), jx.lift(np.asarray(p2c)), *w2a)
    c.validate(jx.to_numeric(got[0]), np.asarray(want[0]), "supercell E after T steps")
    magE, magH = float(np.max(np.abs(np.asarray(want[0])))), float(np.max(np.abs(np.asarray(want[1]))))

    def replay(m):
        e, h = model_array(m, E), model_array(m, H)
        a = j1(jnp.asarray(e), jnp.asarray(h), p1c, *W1j)
        b = j2(jnp.asarray(tile_np(e, True)), jnp.asarray(tile_np(h, True)), p2c, *W2j)
        worst = 0.0
        for x, y in zip(a, b):
            x = tile_np(np.asarray(x), True)
            worst = max(worst, float(np.max(np.abs(x - np.asarray(y)))) / (1e-300 + float(np.max(np.abs(np.asarray(y))))))
        return worst > 1e-7, dict(worst_rel_diff=worst, E=e, H=h)

    kk = f"{case['kind']}-{case['grid']}"
    c.prove_eq("supercell E == tiled/phased N-cell E", E2, tile_sym(E1, True), [], replay, key=f"supercell:{kk}:E", roundoff=1e-9, scale=max(magE, 1e-300))
    c.prove_eq("supercell H == tiled/phased N-cell H", H2, tile_sym(H1, True), [], replay, key=f"supercell:{kk}:H", roundoff=1e-9, scale=max(magH, 1e-300))
    e = [(x, y) for x, y in zip(jx.lift(E1).reshape(-1), E.reshape(-1)) if sc.is_symbolic_scalar(y)]
    ok = False
    for x, y in e[:6]:
        xr, yr = sc.real(x), sc.real(y)
        if sc.isz(xr) and not (sc.isz(yr) and xr.eq(yr)):
            ok = c.witness("N-cell run changes E", sc.ne(xr, yr), [])
            if ok:
                break
    if not ok:
        raise Inconclusive("vacuity twin failed")
