"""C09 -- a periodic / Bloch domain of N cells evolves like its m*N-cell supercell (E1).

Two real placements: N cells and the supercell (tiling factor m along one or two periodic axes, tiled cell widths
on non-uniform grids, tiled materials).  The N-cell fields are symbolic (complex for Bloch); the supercell input is
their tiling with the Bloch phase exp(i k L)^j applied to copy j.  After T forward steps the supercell state must be
the tiled/phased N-cell state.
"""
from __future__ import annotations

import time

import jax
import jax.numpy as jnp
import numpy as np
import z3

import fdtdx
from fdtdx.fdtd.forward import forward

from .. import jx2smt as jx
from .. import sc
from ..core import Inconclusive, model_array
from ..scenes import SPACING, build_scene

META = dict(
    functions=["fdtd.forward.forward", "core.misc.pad_fields(periodic_axes)", "fdtd.update.pad_fields_for_boundaries", "BlochBoundary.apply_pad_correction/get_bloch_phase",
               "core.physics.curl.curl_E/curl_H/_metric_scale", "update_E/update_H"],
    assumptions=["reals for floats", "materials: seeded positive values per cell (concrete), tiled for the supercell", "quantified: all N-cell field values (real, or complex for Bloch)",
                 "Bloch phase powers computed in the harness: comparison in round-off tolerance mode (1e-9 relative, inputs boxed)"],
    outside="T, m and shapes beyond the bounds; PML on the non-periodic faces",
    bounds=dict(quick=dict(T=3, m=[2, 3]), thorough=dict(T=5, m=[2, 3])),
)


def cases(tier, seed):
    T = 3 if tier == "quick" else 5
    out = []
    # (name, base shape, tiling per axis, boundary kind, k-vector scale (k*L per axis), grid)
    base = [
        ("periodic-x2-uniform", (2, 3, 2), (2, 1, 1), "periodic", (0, 0, 0), "uniform"),
        ("periodic-z3-nonuniform", (2, 2, 3), (1, 1, 3), "periodic", (0, 0, 0), "nonuniform"),
        ("bloch-x2-uniform", (3, 2, 2), (2, 1, 1), "bloch", (1.3, 0, 0), "uniform"),
        ("bloch-y2-nonuniform", (2, 3, 2), (1, 2, 1), "bloch", (0.4, 1.7, -0.6), "nonuniform"),
        ("bloch-pi-z2", (2, 2, 3), (1, 1, 2), "bloch", (0, 0, np.pi), "uniform"),
        ("periodic-xy2-mixedwalls", (2, 2, 3), (2, 2, 1), "periodic_xy_pec_z", (0, 0, 0), "uniform"),
    ]
    if tier != "quick":
        base += [
            ("bloch-x3-uniform", (2, 2, 2), (3, 1, 1), "bloch", (0.9, -0.3, 0.2), "uniform"),
            ("periodic-y3-uniform", (2, 2, 2), (1, 3, 1), "periodic", (0, 0, 0), "uniform"),
            ("bloch-xz2-nonuniform", (2, 2, 2), (2, 1, 2), "bloch", (1.1, 0.5, -0.8), "nonuniform"),
            ("bloch-halfpi-y2", (2, 3, 2), (1, 2, 1), "bloch", (0, np.pi / 2, 0), "uniform"),
        ]
    for nm, shape, tile, kind, kL, grid in base:
        out.append(dict(name=nm, shape=shape, tile=tile, kind=kind, kL=[float(v) for v in kL], grid=grid, T=T))
    return out


def run_case(c, case):
    shape, tile, T = tuple(case["shape"]), tuple(case["tile"]), case["T"]
    rng = np.random.default_rng(c.seed + 5)
    c.functions.update(META["functions"])
    c.bounds.update(T=T, shape=list(shape), tile=list(tile))
    ws = None
    if case["grid"] == "nonuniform":
        ws = [[float(v) / 8 for v in rng.integers(5, 13, size=n)] for n in shape]
        for w in ws:
            if len(w) > 1 and w[0] == w[-1]:
                w[-1] += 0.25
    sshape = tuple(n * m for n, m in zip(shape, tile))
    wss = None if ws is None else [list(w) * m for w, m in zip(ws, tile)]
    if case["kind"] == "periodic_xy_pec_z":
        bounds = {"min_x": "periodic", "max_x": "periodic", "min_y": "periodic", "max_y": "periodic", "min_z": "pec", "max_z": "pmc"}
    else:
        bounds = case["kind"]
    L = [float(np.sum(w)) * SPACING if ws is not None else n * SPACING for w, n in zip(ws or [None] * 3, shape)]
    kvec = tuple(kl / l for kl, l in zip(case["kL"], L))
    mat = fdtdx.Material(permittivity=(2.0, 3.0, 1.5), permeability=(1.5, 1.25, 2.0))
    S1 = build_scene(shape, bounds, steps=T, widths=ws, bloch_vector=kvec, background=mat, thickness=1)
    S2 = build_scene(sshape, bounds, steps=T, widths=wss, bloch_vector=kvec, background=mat, thickness=1)
    cplx = np.iscomplexobj(np.asarray(S1["arrays"].fields.E))
    if cplx != np.iscomplexobj(np.asarray(S2["arrays"].fields.E)):
        raise Inconclusive("the two placements disagree on complex storage")
    fsh = S1["arrays"].fields.E.shape
    from ..scenes import wall_masks
    zE, zH = wall_masks(S1["objects"], shape)

    def masked(name, zero):
        a = jx.symarr(name, fsh, cplx=cplx)
        a[zero] = sc.Cx(0, 0) if cplx else 0
        return a

    E, H = masked("E", zE), masked("H", zH)
    c.symvars += (E.size + H.size) * (2 if cplx else 1)
    ie = np.round(rng.uniform(0.3, 1.0, size=np.shape(S1["arrays"].inv_permittivities)), 3)
    im = np.round(rng.uniform(0.4, 1.0, size=np.shape(S1["arrays"].inv_permeabilities)), 3)
    phase = [np.exp(1j * kl) for kl in case["kL"]]

    def tile_np(a, with_phase):
        """numpy tiling of a (comp, x, y, z) array, copy j along axis ax multiplied by phase[ax]**j."""
        out = a
        for ax in range(3):
            m = tile[ax]
            if m == 1:
                continue
            parts = []
            for j in range(m):
                f = phase[ax] ** j if (with_phase and cplx) else 1.0
                parts.append(out * f if f != 1.0 else out)
            out = np.concatenate(parts, axis=ax + 1) if not jx.is_obj(out) else None
        return out

    def tile_sym(a, with_phase):
        out = jx.lift(a)
        for ax in range(3):
            m = tile[ax]
            if m == 1:
                continue
            parts = []
            for j in range(m):
                if with_phase and cplx and j > 0:
                    p = phase[ax] ** j
                    pc = sc.Cx(float(p.real), float(p.imag))
                    parts.append(jx.ew(lambda v, pc=pc: sc.mul(v, pc), out))
                else:
                    parts.append(out)
            out = np.concatenate(parts, axis=ax + 1)
        return out

    def mk(S, tiled):
        arr, oc, cfg, key = S["arrays"], S["objects"], S["config"], S["key"]
        ie_, im_ = (tile_np(ie, False), tile_np(im, False)) if tiled else (ie, im)
        a0 = arr.aset("inv_permittivities", jnp.asarray(ie_)).aset("inv_permeabilities", jnp.asarray(im_))

        def run(E, H):
            st = (jnp.asarray(0, dtype=jnp.int32), a0.aset("fields->E", E).aset("fields->H", H))
            for _ in range(T):
                st = forward(st, cfg, oc, key, False, False, False)
            return st[1].fields.E, st[1].fields.H
        return run

    r1, r2 = mk(S1, False), mk(S2, True)
    t0 = time.time()
    (E1, H1), tr1 = jx.call(r1, E, H)
    (E2, H2), tr2 = jx.call(r2, tile_sym(E, True), tile_sym(H, True))
    c.interp_s += time.time() - t0
    j1, j2 = jax.jit(r1), jax.jit(r2)
    mk_c = lambda z: (rng.normal(size=fsh) + (1j * rng.normal(size=fsh) if cplx else 0)) * (~z)
    ce, ch = mk_c(zE), mk_c(zH)
    want = j2(jnp.asarray(tile_np(ce, True)), jnp.asarray(tile_np(ch, True)))
    got = tr2(jx.lift(tile_np(ce, True)), jx.lift(tile_np(ch, True)))
    c.validate(jx.to_numeric(got[0]), np.asarray(want[0]), "supercell E after T steps")
    magE, magH = float(np.max(np.abs(np.asarray(want[0])))), float(np.max(np.abs(np.asarray(want[1]))))

    def replay(m):
        e, h = model_array(m, E), model_array(m, H)
        a = j1(jnp.asarray(e), jnp.asarray(h))
        b = j2(jnp.asarray(tile_np(e, True)), jnp.asarray(tile_np(h, True)))
        worst = 0.0
        for x, y in zip(a, b):
            x = tile_np(np.asarray(x), True)
            worst = max(worst, float(np.max(np.abs(x - np.asarray(y)))) / (1e-300 + float(np.max(np.abs(np.asarray(y))))))
        return worst > 1e-7, dict(worst_rel_diff=worst, E=e, H=h)

    kk = f"{case['kind']}-{case['grid']}"
    c.prove_eq("supercell E == tiled/phased N-cell E", E2, tile_sym(E1, True), [], replay, key=f"supercell:{kk}:E", roundoff=1e-9, scale=max(magE, 1e-300))
    c.prove_eq("supercell H == tiled/phased N-cell H", H2, tile_sym(H1, True), [], replay, key=f"supercell:{kk}:H", roundoff=1e-9, scale=max(magH, 1e-300))
    e = [(x, y) for x, y in zip(jx.lift(E1).reshape(-1), E.reshape(-1)) if sc.is_symbolic_scalar(y)]
    ok = False
    for x, y in e[:6]:
        xr, yr = sc.real(x), sc.real(y)
        if sc.isz(xr) and not (sc.isz(yr) and xr.eq(yr)):
            ok = c.witness("N-cell run changes E", sc.ne(xr, yr), [])
            if ok:
                break
    if not ok:
        raise Inconclusive("vacuity twin failed")
