"""C02 -- one backward step exactly undoes one forward step (E1, exemplar harness).

Per case: build a tiny real scene, trace ``forward`` followed by ``backward`` at a concrete time step t, interpret
the jaxpr with every E/H entry and every material/conductivity entry symbolic, and ask z3 whether some entry of
the reconstructed state can differ from the input.  Wall conditions (tangential E = 0 on PEC, tangential H = 0 on
PMC) are imposed on the inputs by substituting 0 where the boundary's own projection forces 0.
"""
from __future__ import annotations

import time

import jax
import jax.numpy as jnp
import numpy as np
import z3

import fdtdx
from fdtdx.fdtd.backward import backward
from fdtdx.fdtd.forward import forward

from .. import jx2smt as jx
from .. import sc
from ..sc import isz
from ..core import Inconclusive, model_array
from ..scenes import build_scene, dipole, plane_source, wall_masks

META = dict(
    functions=["fdtd.forward.forward", "fdtd.backward.backward", "fdtd.update.update_E", "update_H", "update_E_reverse",
               "update_H_reverse", "core.physics.curl.curl_E/curl_H", "fdtd.misc.compute_anisotropic_update_matrices[_reverse]",
               "Source.update_E/update_H(inverse)", "Source.adjust_time_step_by_on_off", "BlochBoundary.apply_pad_correction",
               "PEC/PMC.apply_post_*_update"],
    assumptions=[
        "reals instead of floats (round-off outside the claim)",
        "wall conditions imposed on inputs: entries zeroed by the boundary projections are 0",
        "lossy factor != 0 (c*sigma*eta0*inv_eps != 2), conductivities >= 0, inverse material entries > 0",
        "full-tensor lossless materials: concrete seeded symmetric positive definite tensors per cell",
    ],
    outside="grids larger than the listed shapes; HardConstantAmplitudePlanceSource (sets the field, not reversible by design); the mode solver itself (runs concretely at placement); dispersive media; PML; float round-off",
    bounds=dict(quick=dict(shapes=[(3, 3, 3), (4, 3, 2)], steps="every t < 4"), thorough=dict(shapes=[(3, 3, 3), (4, 3, 2), (5, 4, 3)], steps="every t < 8")),
    timeout_ms=dict(quick=60000, thorough=300000),
)

_B = {
    "periodic": "periodic",
    "pec": "pec",
    "pmc": "pmc",
    "mixed1": {"min_x": "pec", "max_x": "pmc", "min_y": "periodic", "max_y": "periodic", "min_z": "pmc", "max_z": "pec"},
    "mixed2": {"min_x": "periodic", "max_x": "periodic", "min_y": "pec", "max_y": "pec", "min_z": "pmc", "max_z": "pmc"},
    "bloch": "bloch",
}


def cases(tier, seed):
    out = []
    shapes = [(3, 3, 3), (4, 3, 2)] if tier == "quick" else [(3, 3, 3), (4, 3, 2), (5, 4, 3)]
    mats = ["iso", "diag_lossy", "iso_lossyH", "full", "iso_lossy"]
    srcsets = ["none", "dipoles", "planes"]
    k = 0
    for si, shape in enumerate(shapes):
        for b in _B:
            for m in mats:
                for ss in srcsets:
                    for grid in ("uniform", "nonuniform"):
                        if ss == "planes" and b in ("pec", "pmc", "mixed1"):
                            continue  # plane sources here span the volume transversally: needs periodic transverse faces
                        if shape == (5, 4, 3) and m == "full":
                            continue
                        if ss == "planes" and m not in ("iso", "iso_lossy"):
                            continue  # fdtdx rejects plane sources inside anisotropic materials
                        if m == "iso_lossy" and ss != "planes":
                            continue
                        k += 1
                        # quick tier: a rotating covering subset (every value of every dimension and most pairs appear)
                        if tier == "quick" and (si + 2 * list(_B).index(b) + 3 * mats.index(m) + srcsets.index(ss) + (grid == "nonuniform")) % 11 != 0:
                            continue
                        # the time index only matters through the sources: source-free scenes need a single step
                        T = 1 if ss == "none" else (3 if tier == "quick" else 8)
                        if m == "full" and tier == "quick":
                            T = min(T, 2)
                        out.append(dict(name=f"{'x'.join(map(str, shape))}-{b}-{m}-{ss}-{grid}", shape=shape, bounds=b, mat=m, src=ss, grid=grid, T=T))
    # a mode source over a lossy core (complex mode profile, solved concretely by tidy3d/scipy at placement; the injection and
    # its inverse are what is encoded), default and switched
    out.append(dict(name="5x5x4-periodic-modecore-mode-uniform", shape=(5, 5, 4), bounds="periodic", mat="modecore", src="mode", grid="uniform", T=2 if tier == "quick" else 4))
    return out


def _material(m):
    if m == "iso":
        return fdtdx.Material(permittivity=2.0)
    if m == "diag_lossy":
        return fdtdx.Material(permittivity=(2.0, 3.0, 1.5), electric_conductivity=(0.5, 1.0, 2.0))
    if m == "iso_lossyH":
        return fdtdx.Material(permittivity=1.5, permeability=(1.2, 1.1, 2.0), magnetic_conductivity=0.7, electric_conductivity=0.3)
    if m == "iso_lossy":
        return fdtdx.Material(permittivity=1.5, permeability=1.3, magnetic_conductivity=0.7, electric_conductivity=0.3)
    if m == "modecore":
        return fdtdx.Material(permittivity=1.0)
    if m == "full":
        return fdtdx.Material(permittivity=((2.0, 0.3, 0.1), (0.3, 2.5, 0.2), (0.1, 0.2, 3.0)))
    raise ValueError(m)


def _sources(kind, shape, T):
    from fdtdx import OnOffSwitch
    from fdtdx.objects.sources.profile import GaussianPulseProfile, SingleFrequencyProfile

    if kind == "none":
        return []
    if kind == "mode":
        from ..scenes import GridAt, material_box
        core = material_box("core", (1, 1, 0), (shape[0] - 2, shape[1] - 2, shape[2]), fdtdx.Material(permittivity=6.0, electric_conductivity=2.0))
        m1 = fdtdx.ModePlaneSource(name="m_default", partial_grid_shape=(None, None, 1), wave_character=fdtdx.WaveCharacter(wavelength=6e-7), direction="+", mode_index=0)
        m2 = fdtdx.ModePlaneSource(name="m_switched", partial_grid_shape=(None, None, 1), wave_character=fdtdx.WaveCharacter(wavelength=6e-7), direction="-", mode_index=0,
                                   switch=OnOffSwitch(fixed_on_time_steps=sorted({0, T - 1})))
        return [core, (m1, [GridAt(m1, (2,), (1,))]), (m2, [GridAt(m2, (2,), (shape[2] - 1,))])]
    mid = tuple(s // 2 for s in shape)
    if kind == "dipoles":
        return [
            dipole("d_e", mid, pol=0),
            dipole("d_m", (0, 0, 0), pol=1, kind="magnetic", az=20.0, el=10.0, switch=OnOffSwitch(fixed_on_time_steps=sorted({min(1, T - 1), T - 1}))),
            dipole("d_w", (shape[0] - 1, 0, shape[2] - 1), pol=2, az=35.0,
                   profile=GaussianPulseProfile(spectral_width=fdtdx.WaveCharacter(wavelength=40e-8), center_wave=fdtdx.WaveCharacter(wavelength=6e-7)),
                   switch=OnOffSwitch(interval=2)),
        ]
    if kind == "planes":
        ax = int(np.argmax(shape))
        return [
            plane_source("p_u", ax, shape[ax] // 2, "+"),
            plane_source("p_g", ax, 0, "-", gaussian=True, switch=OnOffSwitch(start_after_periods=0.05, period=1e-15)),
        ]
    raise ValueError(kind)


def _widths(shape, seed):
    rng = np.random.default_rng(1000 + seed)
    return [list(np.round(rng.uniform(0.6, 1.6, size=n), 3)) for n in shape]


def run_case(c, case):
    shape, T = tuple(case["shape"]), case["T"]
    bl = (0.0, 0.0, 0.0) if case["bounds"] != "bloch" else (2.0e6, -1.3e6, 0.7e6)
    S = build_scene(shape, _B[case["bounds"]], steps=T, reversible=True, background=_material(case["mat"]),
                    widths=_widths(shape, c.seed) if case["grid"] == "nonuniform" else None,
                    extra_objects=_sources(case["src"], shape, T), bloch_vector=bl)
    arr, oc, cfg, key = S["arrays"], S["objects"], S["config"], S["key"]
    c.functions.update(META["functions"])
    c.bounds.update(shape=list(shape), T=T)
    cplx = np.iscomplexobj(np.asarray(arr.fields.E))
    fsh = arr.fields.E.shape
    zE, zH = wall_masks(oc, shape)

    def masked(name, zero):
        a = jx.symarr(name, fsh, cplx=cplx)
        a[zero] = sc.Cx(0, 0) if cplx else 0
        return a

    E, H = masked("E", zE), masked("H", zH)
    full = case["mat"] == "full"
    mats = {}
    assume = []
    rng = np.random.default_rng(c.seed + 7)

    def sym_pos(name, ref, lo_strict=True):
        if ref is None or not hasattr(ref, "shape") or np.ndim(ref) == 0:
            return None
        a = jx.symarr(name, np.shape(ref))
        for v in a.reshape(-1):
            assume.append(v > 0 if lo_strict else v >= 0)
        return a

    seeded = case["bounds"] == "bloch" and case["mat"] != "iso"
    if seeded:
        # complex fields x symbolic lossy materials is beyond z3's nonlinear reach in the time budget (probed: > 5 min):
        # materials become seeded exact rationals there (fields stay symbolic)
        for n in ("inv_permittivities", "inv_permeabilities", "electric_conductivity", "magnetic_conductivity"):
            ref = getattr(arr, n)
            if ref is not None and hasattr(ref, "shape") and np.ndim(ref) > 0:
                ref = np.asarray(ref)
                mats[n] = jx.fracarr(np.round(ref * rng.uniform(0.8, 1.25, size=ref.shape), 4))
    elif full:
        # concrete seeded SPD tensors per cell (exact rationals); entries symbolic would need symbolic 3x3 inverses
        ie = np.asarray(arr.inv_permittivities)
        pert = rng.uniform(-0.02, 0.02, size=(3, 3) + ie.shape[1:])
        pert = (pert + np.swapaxes(pert, 0, 1)) / 2
        ie = ie + pert.reshape(ie.shape)
        mats["inv_permittivities"] = jx.fracarr(np.round(ie, 4))
    else:
        mats["inv_permittivities"] = sym_pos("ie", arr.inv_permittivities)
        mats["inv_permeabilities"] = sym_pos("im", arr.inv_permeabilities)
        mats["electric_conductivity"] = sym_pos("sE", arr.electric_conductivity, lo_strict=False)
        mats["magnetic_conductivity"] = sym_pos("sH", arr.magnetic_conductivity, lo_strict=False)
    mats = {k: v for k, v in mats.items() if v is not None}
    names = sorted(mats)

    def make(t):
        def step(E, H, *ms):
            a = arr.aset("fields->E", E).aset("fields->H", H)
            for n, m in zip(names, ms):
                a = a.aset(n, m)
            s1 = forward((jnp.asarray(t, dtype=jnp.int32), a), cfg, oc, key, False, False, False)
            s2 = backward(s1, cfg, oc, key, False, False)
            return s1[1].fields.E, s1[1].fields.H, s2[1].fields.E, s2[1].fields.H, s2[0]
        return step

    c.symvars += E.size + H.size + sum(m.size for m in mats.values())
    for t in range(T):
        step = make(t)
        t0 = time.time()
        it = jx.Interp()
        out, tr = jx.call(step, E, H, *[mats[n] for n in names], interp=it)
        c.interp_s += time.time() - t0
        E1, H1, Eb, Hb, tb = out
        # lossy factor must be non-zero (reverse divides by it): collected as side conditions
        side = [cond for (_, cond, _) in it.side]
        if t == 0:
            # translator validation on one random concrete input
            conc = [rng.normal(size=fsh) * (~zE), rng.normal(size=fsh) * (~zH)]
            if cplx:
                conc = [conc[0] + 1j * rng.normal(size=fsh) * (~zE), conc[1] + 1j * rng.normal(size=fsh) * (~zH)]
            cm = [np.asarray(getattr(arr, n)) if not (full or seeded) else jx.to_numeric(mats[n]) for n in names]
            want = step(*[jnp.asarray(x) for x in conc], *[jnp.asarray(x) for x in cm])
            got = tr(*[jx.fracarr(x) for x in conc], *[jx.fracarr(x) for x in cm])
            for g, w in zip(got[:4], want[:4]):
                c.validate(jx.to_numeric(g), np.asarray(w), "forward/backward step")

        def replay(m, step=step, t=t):
            ci = [model_array(m, E), model_array(m, H)] + [model_array(m, mats[n]) for n in names]
            o = step(*[jnp.asarray(x) for x in ci])
            scale = 1.0 + max(float(np.max(np.abs(ci[0]))), float(np.max(np.abs(ci[1]))))
            res = max(float(np.max(np.abs(np.asarray(o[2]) - ci[0]))), float(np.max(np.abs(np.asarray(o[3]) - ci[1])))) / scale
            return res > 1e-7, dict(t=t, residual=res, E=ci[0], H=ci[1], materials={n: x for n, x in zip(names, ci[2:])})

        a2 = assume + side
        c.prove_eq(f"t{t}:E_back==E", Eb, E, a2, replay, key=f"{case['bounds']}-{case['mat']}-{case['src']}-{case['grid']}:E")
        c.prove_eq(f"t{t}:H_back==H", Hb, H, a2, replay, key=f"{case['bounds']}-{case['mat']}-{case['src']}-{case['grid']}:H")
        if jx.has_z3(tb) or int(jx.to_numeric(tb)) != t:
            raise Inconclusive("backward does not return the previous time index")
        if t == 0:
            # vacuity twin: the forward state must be able to differ from the input (else the step is trivial / assumptions vacuous)
            ok = False
            tried = 0
            for x, y in zip(jx.lift(E1).reshape(-1), E.reshape(-1)):
                if sc.is_symbolic_scalar(y) and not (isz(x) and isz(y) and x.eq(y)):
                    c.twins_total -= 1 if tried else 0
                    tried += 1
                    keep = list(c.inconclusive)
                    ok = c.witness("forward changes E", sc.ne(x, y), a2)
                    if ok or tried >= 6:
                        if ok:
                            c.inconclusive[:] = keep
                        break
                    c.inconclusive[:] = keep
            if not ok:
                raise Inconclusive("vacuity twin failed: no tried entry of E can change in a forward step")
