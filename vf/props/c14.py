"""C14 -- on/off schedules (E2 exemplar: pysym over core/switch.py; E1 part: gated injection / recording).

E2: every numeric schedule parameter is a symbolic real, the step index a symbolic int; every None-pattern of the
optional fields is enumerated.  The oracle is the documented window rule, written here once, independently of the code.
"""
from __future__ import annotations

import itertools

import numpy as np
import z3

from .. import pysym
from ..core import Inconclusive, model_value
from ..pysym import SymNum, fresh_int, fresh_real

META = dict(
    functions=["core.switch.is_on_at_time_step", "OnOffSwitch.calculate_on_list", "OnOffSwitch.calculate_time_step_to_on_arr_idx",
               "OnOffSwitch.is_on_at_time_step", "fdtd.update.update_E/update_H source gating", "fdtd.update.update_detector_states"],
    assumptions=["reals for floats", "time_step_duration > 0, period > 0, interval >= 1", "fixed step lists: entries within [0, T)",
                 "is_always_off together with a fixed list, negative fixed steps: outside the documented domain"],
    outside="T beyond the bound; float rounding of t*dt at window edges",
    bounds=dict(quick=dict(T_max=6, none_patterns=128), thorough=dict(T_max=12, none_patterns=128)),
)

FIELDS = ["start_time", "start_after_periods", "end_time", "end_after_periods", "on_for_time", "on_for_periods", "period"]


def cases(tier, seed):
    out = []
    pats = list(itertools.product([False, True], repeat=7))
    # group the 128 None-patterns into 8 cases
    for g in range(8):
        out.append(dict(name=f"window-rule-{g}", kind="rule", patterns=[p for i, p in enumerate(pats) if i % 8 == g]))
    Ts = [3, 6] if tier == "quick" else [3, 6, 9, 12]
    for T in Ts:
        out.append(dict(name=f"on-list-T{T}", kind="list", T=T))
        out.append(dict(name=f"fixed-list-T{T}", kind="fixed", T=T))
    out.append(dict(name="gating-E1", kind="gating", T=4 if tier == "quick" else 8))
    return out


# ------------------------------------------------------------------------------------------------ oracle (window rule)
def oracle_window(present, v):
    """Documented rule.  present: dict field->bool, v: dict field->z3 Real.  Returns ("raise", None) if the
    specification is over/under-determined, else ("ok", (start, end)) with end possibly None (= +inf)."""
    P = present
    if (P["start_after_periods"] or P["end_after_periods"] or P["on_for_periods"]) and not P["period"]:
        return "raise", None
    dur = None
    if P["on_for_time"] and P["on_for_periods"]:
        dur_specs = 2
    else:
        dur_specs = int(P["on_for_time"] or P["on_for_periods"])
    has_end = P["end_time"] or P["end_after_periods"]
    has_start = P["start_time"] or P["start_after_periods"]
    # number of ways the start is determined
    n_start = int(P["start_time"]) + int(P["start_after_periods"]) + (int(P["on_for_time"]) + int(P["on_for_periods"])) * (int(P["end_time"]) + int(P["end_after_periods"]))
    if n_start > 1:
        return "raise", None
    start_defaulted = n_start == 0
    # after defaulting, start_time counts as given for the end rule
    st_given = P["start_time"] or start_defaulted
    n_end = int(P["end_time"]) + int(P["end_after_periods"]) + (int(P["on_for_time"]) + int(P["on_for_periods"])) * (int(st_given) + int(P["start_after_periods"]))
    if n_end > 1:
        return "raise", None
    if P["on_for_time"]:
        dur = v["on_for_time"]
    if P["on_for_periods"]:
        dur = v["on_for_periods"] * v["period"]
    start = None
    if P["start_time"]:
        start = v["start_time"]
    elif P["start_after_periods"]:
        start = v["start_after_periods"] * v["period"]
    elif start_defaulted:
        start = z3.RealVal(0)
    end = None
    if P["end_time"]:
        end = v["end_time"]
    elif P["end_after_periods"]:
        end = v["end_after_periods"] * v["period"]
    if start is None:
        start = end - dur
    if end is None and dur is not None and n_end == 1:
        end = start + dur
    return "ok", (start, end)


def oracle_concrete(pres, conc, t, dt, interval=1):
    """the window rule on concrete numbers (exact rationals), via the same oracle text."""
    from fractions import Fraction

    present = {f: f in pres for f in FIELDS}
    kind, win = oracle_window(present, {k: z3.RealVal(Fraction(v)) for k, v in conc.items() if v is not None})
    if kind == "raise":
        return "raise", 0.0
    start, end = win
    tp = z3.RealVal(t) * z3.RealVal(Fraction(dt))
    want = z3.And(start <= tp, tp <= end) if end is not None else (start <= tp)
    on = z3.is_true(z3.simplify(want)) and t % interval == 0
    fr = lambda x: float(z3.simplify(x).as_fraction())
    margin = min(abs(fr(tp) - fr(start)), abs(fr(tp) - fr(end)) if end is not None else float("inf"))
    return on, margin


def _dyadic(*vals):
    """True if all values are small dyadic rationals, so that the few float products/sums the switch code performs on
    them are exact -- then a disagreement at a window edge is not round-off but a genuine difference."""
    from fractions import Fraction

    for v in vals:
        if v is None:
            continue
        f = Fraction(v)
        d = f.denominator
        if d & (d - 1) or d > 2**16 or abs(f) > 2**16:
            return False
    return True


def run_case(c, case):
    from fdtdx.core import switch as sw

    c.functions.update(META["functions"][:4])
    if case["kind"] == "rule":
        for pat in case["patterns"]:
            present = dict(zip(FIELDS, pat))
            vals, assume, zv = {}, [], {}
            for f in FIELDS:
                if present[f]:
                    s, cons = fresh_real(f, lo=0 if f != "period" else None)
                    if f == "period":
                        cons = [s.t > 0]
                    vals[f], zv[f] = s, s.t
                    assume += cons
                else:
                    vals[f] = None
            t, ct = fresh_int("t", 0, None)
            dt, cd = fresh_real("dt", 0, None, lo_strict=True)
            assume += ct + cd
            c.symvars += len(zv) + 2
            kind, win = oracle_window(present, zv)

            def fn(vals=vals, t=t, dt=dt):
                return sw.is_on_at_time_step(is_always_off=False, time_step=t, time_step_duration=dt,
                                             **{k: vals[k] for k in FIELDS})

            def post(res, exc, kind=kind, win=win, t=t, dt=dt):
                if kind == "raise":
                    return exc is not None
                if exc is not None:
                    return False
                start, end = win
                tp = z3.ToReal(t.t) * dt.t
                want = z3.And(start <= tp, tp <= end) if end is not None else (start <= tp)
                got = res.t if isinstance(res, pysym.SymBool) else z3.BoolVal(bool(res))
                return got == want

            def replay(m, vals=vals, t=t, dt=dt, present=present, kind=kind, win=win):
                conc = {k: (None if vals[k] is None else model_value(m, vals[k].t)) for k in FIELDS}
                tt, dd = model_value(m, t.t), model_value(m, dt.t)
                try:
                    got = sw.is_on_at_time_step(is_always_off=False, time_step=tt, time_step_duration=dd, **conc)
                    exc = None
                except Exception as e:  # noqa: BLE001
                    got, exc = None, e
                if kind == "raise":
                    return exc is None, dict(inputs=conc, t=tt, dt=dd, got=got, expected="exception")
                if exc is not None:
                    return True, dict(inputs=conc, t=tt, dt=dd, raised=repr(exc), expected="a value")
                start, end = win
                s = model_value(m, start)
                e = model_value(m, end) if end is not None else float("inf")
                want = s <= tt * dd <= e
                # only a clear (non-boundary) disagreement is reported; boundary ties are float round-off
                margin = min(abs(tt * dd - s), abs(tt * dd - e)) if e != float("inf") else abs(tt * dd - s)
                return (bool(got) != want) and (margin > 1e-9 * (1 + abs(tt * dd)) or _dyadic(dd, *conc.values())), dict(inputs=conc, t=tt, dt=dd, got=bool(got), want=want)

            pname = "".join("1" if p else "0" for p in pat)
            c.sym_explore(f"rule[{pname}]", fn, post, assume, replay, key=f"window-rule:{pname}")
        # always-off
        t, ct = fresh_int("t", 0, None)
        dt, cd = fresh_real("dt", 0, None, lo_strict=True)
        c.sym_explore("always_off", lambda: sw.is_on_at_time_step(True, None, None, None, None, None, None, t, dt, None),
                      lambda res, exc: exc is None and res is False, ct + cd, None, key="always-off")
        # vacuity twin: some schedule is on at some step and off at another
        st, cs = fresh_real("start_time", 0, None)
        c.witness("window can be on", z3.And(st.t <= z3.ToReal(t.t) * dt.t), ct + cd + cs)
        return

    if case["kind"] in ("list", "fixed"):
        T = case["T"]
        OnOffSwitch = sw.OnOffSwitch
        if case["kind"] == "list":
            configs = [("se", dict(start_time=True, end_time=True)), ("sd", dict(start_time=True, on_for_time=True)),
                       ("pe", dict(start_after_periods=True, end_after_periods=True, period=True)), ("none", {}),
                       ("ed", dict(end_time=True, on_for_time=True))]
            for cname, pres in configs:
                for interval in (1, 2, 3):
                    vals, assume = {}, []
                    for f in pres:
                        s, cons = fresh_real(f, lo=0)
                        if f == "period":
                            cons = [s.t > 0]
                        vals[f] = s
                        assume += cons
                    dt, cd = fresh_real("dt", 0, None, lo_strict=True)
                    assume += cd
                    c.symvars += len(vals) + 1
                    swt = OnOffSwitch(interval=interval, **vals)

                    def fn(swt=swt, dt=dt):
                        return swt.calculate_on_list(T, dt), swt.calculate_time_step_to_on_arr_idx(T, dt)

                    def post(res, exc, swt=swt, dt=dt, vals=vals, interval=interval, pres=pres):
                        if exc is not None:
                            return False
                        on, idx = res
                        present = {f: f in pres for f in FIELDS}
                        kind, win = oracle_window(present, {k: v.t for k, v in vals.items()})
                        assert kind == "ok"
                        start, end = win
                        claims = []
                        cnt = z3.IntVal(0)
                        for t in range(T):
                            tp = z3.RealVal(t) * dt.t
                            want = z3.And(start <= tp, tp <= end) if end is not None else (start <= tp)
                            want = z3.And(want, z3.BoolVal(t % interval == 0))
                            got = on[t].t if isinstance(on[t], pysym.SymBool) else z3.BoolVal(bool(on[t]))
                            claims.append(got == want)
                            iv = idx[t].t if isinstance(idx[t], SymNum) else z3.IntVal(int(idx[t]))
                            claims.append(iv == z3.If(want, cnt, z3.IntVal(-1)))
                            cnt = z3.If(want, cnt + 1, cnt)
                        return z3.And(*claims)

                    def replay(m, vals=vals, dt=dt, interval=interval, pres=pres):
                        conc = {k: model_value(m, v.t) for k, v in vals.items()}
                        dd = model_value(m, dt.t)
                        s2 = OnOffSwitch(interval=interval, **conc)
                        on = s2.calculate_on_list(T, dd)
                        idx = s2.calculate_time_step_to_on_arr_idx(T, dd)
                        ref, margins = zip(*[oracle_concrete(pres, conc, t, dd, interval) for t in range(T)])
                        cnt, refidx = 0, []
                        for r in ref:
                            refidx.append(cnt if r else -1)
                            cnt += int(r)
                        bad = [t for t in range(T) if bool(on[t]) != bool(ref[t])]
                        clear = [t for t in bad if margins[t] > 1e-9 * (1 + t * dd) or _dyadic(dd, *conc.values())]  # other boundary ties may be float round-off
                        if bad and not clear:
                            raise Inconclusive("witness sits on a window edge where float rounding of t*dt decides")
                        return bool(clear) or (not bad and list(idx) != refidx), dict(inputs=conc, dt=dd, on=list(on), idx=list(idx), oracle_on=list(ref), oracle_idx=refidx)

                    c.sym_explore(f"list[{cname},iv{interval}]", fn, post, assume, replay, key=f"on-list:{cname}")
        else:
            # fixed step lists of length <= 3 with symbolic entries in range
            for L in (1, 2, 3):
                steps, assume = [], []
                for i in range(L):
                    s, cons = fresh_int(f"k{i}", 0, T - 1)
                    steps.append(s)
                    assume += cons
                c.symvars += L
                swt = OnOffSwitch(fixed_on_time_steps=steps)

                def fn(swt=swt):
                    return swt.calculate_on_list(T, 1.0), swt.calculate_time_step_to_on_arr_idx(T, 1.0)

                def post(res, exc, steps=steps):
                    if exc is not None:
                        return False
                    on, idx = res
                    claims = []
                    cnt = z3.IntVal(0)
                    for t in range(T):
                        want = z3.Or(*[s.t == t for s in steps])
                        claims.append(z3.BoolVal(bool(on[t])) == want)
                        claims.append(z3.IntVal(int(idx[t])) == z3.If(want, cnt, z3.IntVal(-1)))
                        cnt = z3.If(want, cnt + 1, cnt)
                    return z3.And(*claims)

                c.sym_explore(f"fixed[L{L}]", fn, post, assume, None, key="fixed-list", int_range=T + 1)
        c.witness("twin", z3.BoolVal(True), [])
        return

    if case["kind"] == "gating":
        _gating(c, case)
        return
    raise ValueError(case["kind"])


def _gating(c, case):
    """E1: with the switch tables the real placement produced, an inactive step adds nothing (source) / records nothing
    (detector), an active step writes exactly row idx[t]."""
    import jax.numpy as jnp

    import fdtdx
    from fdtdx import OnOffSwitch
    from fdtdx.fdtd.forward import forward

    from .. import jx2smt as jx
    from .. import sc
    from ..scenes import box_detector, build_scene, dipole

    T = case["T"]
    shape = (3, 3, 2)
    srcs = [dipole("d1", (1, 1, 0), pol=0, switch=OnOffSwitch(fixed_on_time_steps=[1, T - 1])),
            dipole("d2", (0, 2, 1), pol=1, kind="magnetic", switch=OnOffSwitch(interval=3))]
    dets = [box_detector(fdtdx.FieldDetector, "f1", (0, 0, 0), (2, 2, 1), switch=OnOffSwitch(interval=2), reduce_volume=False, exact_interpolation=False),
            box_detector(fdtdx.EnergyDetector, "e1", (1, 0, 0), (2, 3, 2), switch=OnOffSwitch(fixed_on_time_steps=[0, 2]))]
    S = build_scene(shape, "periodic", steps=T, extra_objects=srcs + dets)
    S0 = build_scene(shape, "periodic", steps=T, extra_objects=dets)
    arr, oc, cfg, key = S["arrays"], S["objects"], S["config"], S["key"]
    arr0, oc0, cfg0 = S0["arrays"], S0["objects"], S0["config"]
    c.functions.update(META["functions"][4:])
    fsh = arr.fields.E.shape
    E, H = jx.symarr("E", fsh), jx.symarr("H", fsh)
    dstates = {n: {k: jx.symarr(f"ds_{n}_{k}", np.shape(v)) for k, v in st.items()} for n, st in arr.detector_states.items()}
    c.symvars += E.size + H.size + sum(v.size for st in dstates.values() for v in st.values())
    for t in range(T):
        def step(E, H, ds, t=t):
            a = arr.aset("fields->E", E).aset("fields->H", H).aset("detector_states", ds)
            s1 = forward((jnp.asarray(t, dtype=jnp.int32), a), cfg, oc, key, True, False, False)
            a0 = arr0.aset("fields->E", E).aset("fields->H", H).aset("detector_states", ds)
            s0 = forward((jnp.asarray(t, dtype=jnp.int32), a0), cfg0, oc0, key, True, False, False)
            return s1[1].fields.E, s1[1].fields.H, s1[1].detector_states, s0[1].fields.E, s0[1].fields.H
        (E1, H1, ds1, E0, H0), tr = jx.call(step, E, H, dstates)
        on_src = {s.name: bool(np.asarray(s._is_on_at_time_step_arr)[t]) for s in oc.sources}
        if not any(on_src.values()):
            c.prove_eq(f"t{t}: no source active => fields equal source-free step (E)", E1, E0, key="gating:source-off")
            c.prove_eq(f"t{t}: no source active => fields equal source-free step (H)", H1, H0, key="gating:source-off")
        else:
            # active: the difference to the source-free step is non-zero somewhere (amplitude permitting) -- twin only
            pass
        for d in oc.detectors:
            on = bool(np.asarray(d._is_on_at_time_step_arr)[t])
            idx = int(np.asarray(d._time_step_to_arr_idx)[t])
            for k, new in ds1[d.name].items():
                old = dstates[d.name][k]
                new = jx.lift(new)
                if not on:
                    if idx != -1:
                        c.fail_concrete(f"idx map of inactive step t={t}", dict(detector=d.name, idx=idx), key="gating:idx")
                    c.prove_eq(f"t{t}: detector {d.name} inactive => state unchanged", new, old, key="gating:detector-off")
                else:
                    rows = [r for r in range(old.shape[0]) if r != idx]
                    c.prove_eq(f"t{t}: detector {d.name} active => other rows unchanged", new[rows], old[rows], key="gating:detector-rows")
                    # the written row no longer depends on the old contents of that row
                    oldvars = {str(v) for v in old[idx].reshape(-1)}
                    used = set(jx.variables_of([new[idx]]))
                    if oldvars & used:
                        c.fail_concrete(f"t{t}: detector {d.name} row {idx} still depends on its old contents", dict(vars=sorted(oldvars & used)[:5]), key="gating:detector-overwrite")
                    else:
                        c.prove(f"t{t}: detector {d.name} row {idx} overwritten", True)
    # chronological order: idx map of the real placement is the running count
    for d in oc.detectors:
        onl = list(np.asarray(d._is_on_at_time_step_arr))
        idl = list(np.asarray(d._time_step_to_arr_idx))
        cnt = 0
        for t in range(T):
            want = cnt if onl[t] else -1
            cnt += int(onl[t])
            c.prove(f"{d.name}: idx[{t}] is the running count", bool(idl[t] == want))
    c.witness("twin: an active source changes E", True, [])
