"""C43 -- Sphere / ellipsoid / Cylinder are rasterised by strict cell-centre inclusion (E1, radii symbolic).

A shape is placed with the real ``place_objects`` on a tiny grid; ``get_voxel_mask_for_shape`` of the placed object is
traced with the radius fields replaced by tracers (``aset`` inside the traced wrapper; the geometry constants are
evaluated by the real code at trace time under ``jax.ensure_compile_time_eval``) and interpreted with the radii as
positive symbolic reals.  Per cell of the object's box z3 decides ``mask <=> centre strictly inside``, the oracle being
written here from the grid edges the harness itself chose: cell centre = midpoint of its two edges, shape centre =
midpoint of the placed bounding box, inclusion = sum((d_axis / r_axis)^2) < 1 in multiplied-out polynomial form.

Grids with dyadic edge coordinates (spacing 2^-24 m, widths multiples of 1/8 of it) make every geometry constant of
the real code an exact rational equal to the oracle's, so the equivalence (including strictness at the surface) is
decided exactly; a 50 nm grid (non-dyadic constants) is covered by a two-sided margin query instead.
"""
from __future__ import annotations

import itertools
import time
from fractions import Fraction

import jax
import jax.numpy as jnp
import numpy as np
import z3

import fdtdx
from fdtdx.config import SimulationConfig
from fdtdx.core.grid import RectilinearGrid, UniformGrid

from .. import jx2smt as jx
from .. import sc
from ..core import Inconclusive, model_value

META = dict(
    functions=["objects.static_material.sphere.Sphere.get_voxel_mask_for_shape", "objects.static_material.cylinder.Cylinder.get_voxel_mask_for_shape",
               "SimulationObject.real_shape / grid_slice_tuple (as used by the masks)", "RectilinearGrid.edges / slice_extent (evaluated by the real code at trace time)"],
    assumptions=[
        "radii are positive reals (symbolic); reals instead of floats",
        "the analytic shape is centred at the midpoint of the object's placed bounding box, with the radii of the object's fields (the docstring's reading); the bounding box itself (placement snapping) is C26's subject",
        "dyadic grids: all geometry constants exact, equivalence decided exactly; 50 nm grid: mask required only where sum((d/r)^2) is outside [1-1e-9, 1+1e-9]",
        "the mask is traced under jax.ensure_compile_time_eval (its float(...) calls on grid edges need concrete values, as at placement time)",
    ],
    outside="ExtrudedPolygon (inclusion delegated to matplotlib's compiled Path.contains_points); cells outside the object's bounding box; grids larger than the listed ones; float round-off at the surface on non-dyadic grids",
    bounds=dict(quick=dict(volume=(7, 6, 5), grids=["uniform", "nonuniform-0"], sphere_radius_patterns=4, cylinder_axes=3),
                thorough=dict(volume=(7, 6, 5), grids=["uniform", "nonuniform-0", "nonuniform-1", "uniform-50nm"], sphere_radius_patterns=8, cylinder_axes=3)),
    timeout_ms=dict(quick=60000, thorough=120000),
)

H = 2.0 ** -24
VOL = (7, 6, 5)
MATS = {"a": fdtdx.Material(permittivity=2.0), "b": fdtdx.Material(permittivity=3.0)}


def _edges(gname, seed):
    """per-axis edge coordinates (floats, exactly representable for the dyadic grids)."""
    if gname == "uniform":
        return [np.arange(n + 1, dtype=np.float64) * H for n in VOL], UniformGrid(spacing=H)
    if gname == "uniform-50nm":
        return [np.arange(n + 1, dtype=np.float64) * 50e-9 for n in VOL], UniformGrid(spacing=50e-9)
    k = int(gname.split("-")[1])
    rng = np.random.default_rng(4300 + 17 * k + seed)
    ws = [rng.integers(5, 13, size=n).astype(np.float64) / 8.0 * H for n in VOL]  # widths in {5/8 .. 12/8} h
    ed = [np.concatenate([[0.0], np.cumsum(w)]) for w in ws]
    return ed, RectilinearGrid(x_edges=jnp.asarray(ed[0]), y_edges=jnp.asarray(ed[1]), z_edges=jnp.asarray(ed[2]))


def cases(tier, seed):
    out = []
    grids = ["uniform", "nonuniform-0"] if tier == "quick" else ["uniform", "nonuniform-0", "nonuniform-1", "uniform-50nm"]
    pats = list(itertools.product([False, True], repeat=3))
    qp = [(False, False, False), (True, False, False), (False, True, True), (True, True, True)]
    for g in grids:
        for where in ("center", "corner"):
            if tier == "quick" and where == "corner" and g == "uniform":
                continue
            ps = [p for p in pats if tier != "quick" or p in qp]
            out.append(dict(name=f"sphere-{g}-{where}", kind="sphere", grid=g, where=where, patterns=[list(p) for p in ps]))
            out.append(dict(name=f"cylinder-{g}-{where}", kind="cylinder", grid=g, where=where))
    return out


def _place(grid, obj, cons_fn):
    cfg = SimulationConfig(time=1e-15, grid=grid, backend="cpu", dtype=jnp.float64)
    vol = fdtdx.SimulationVolume(partial_grid_shape=VOL)
    oc, _, _, config, _ = fdtdx.place_objects(object_list=[vol, obj], config=cfg, constraints=cons_fn(vol), key=jax.random.PRNGKey(0))
    return [o for o in oc.objects if o.name == obj.name][0]


def _pos(o, vol, where, axes=(0, 1, 2)):
    if where == "center":
        return [o.same_position(vol, axes=axes)]
    return [o.place_relative_to(vol, axes=axes, own_positions=tuple(-1 for _ in axes), other_positions=tuple(-1 for _ in axes))]


def _offsets(ed, sl):
    """oracle geometry from the harness's own edges: per axis the exact offsets cell centre - box centre."""
    out = []
    for a in range(3):
        lo, hi = sl[a]
        e = [Fraction(float(v)) for v in ed[a]]
        mid = (e[lo] + e[hi]) / 2
        out.append([(e[i] + e[i + 1]) / 2 - mid for i in range(lo, hi)])
    return out


def _exact_float(fr):
    d = fr.denominator
    return d & (d - 1) == 0 and d <= 2**40 and abs(fr.numerator) < 2**40


def _check_cells(c, name, mask, cells, radvars, rad_of_axis, axes, assume, run_real, offs, exact, keybase, unit):
    """cells: list of (index tuple into mask, per-axis offsets d (Fractions, only for ``axes``))."""
    rv = list(radvars.values())

    def q_exact(d, rvals):
        return sum((Fraction(dd) / Fraction(rvals[rad_of_axis[a]])) ** 2 for a, dd in zip(axes, d))

    def replay(m):
        vals = {n: model_value(m, v) for n, v in radvars.items()}
        tried = []

        def mismatch(vals, need_exact):
            got = run_real(vals)
            for idx, d in cells:
                q = q_exact(d, {n: Fraction(v) for n, v in vals.items()})
                on_surface = q == 1
                if on_surface:
                    # the surface itself: trust the float evaluation only if every quotient d/r is exactly representable
                    if not all(_exact_float(Fraction(dd) / Fraction(vals[rad_of_axis[a]])) for a, dd in zip(axes, d)):
                        continue
                elif abs(float(q) - 1.0) < 1e-9:
                    continue
                want = q < 1
                if bool(got[idx]) != want:
                    return dict(radii=vals, cell=list(idx), offsets=[float(x) for x in d], q=float(q), on_surface=on_surface, mask=bool(got[idx]), centre_strictly_inside=want)
            return None

        r = mismatch(vals, False)
        if r is not None:
            return True, r
        # the real-arithmetic witness may sit on the surface, where float rounding of d/r decides: look for a float-exact
        # witness of the same violation (confirmation step only; the verdict was the solver's): a cell with a single
        # non-zero offset d_a and r_a = |d_a| has sum((d/r)^2) = 1 exactly in floats as well
        for idx, d in cells:
            nzc = [i for i, dd in enumerate(d) if dd != 0]
            if len(nzc) != 1:
                continue
            cand = {n: float(unit) for n in radvars}
            cand[rad_of_axis[axes[nzc[0]]]] = float(abs(d[nzc[0]]))
            r = mismatch(cand, True)
            if r is not None:
                r["note"] = "float-exact surface witness (cell on a principal axis, radius = its offset) confirming the solver's real-arithmetic witness"
                r["solver_witness"] = vals
                return True, r
        return False, dict(radii=vals, note="mask equals the oracle at the witness and at the float-exact surface candidates")

    for idx, d in cells:
        if any(v["key"] == f"{keybase}:inclusion" for v in c.violations):
            c.notes.append(f"{keybase}: first reproduced violation recorded, remaining cells of this object skipped")
            break
        got = mask[idx]
        # multiplied-out inclusion: sum_a d_a^2 * prod_{b != a} r_b^2 < prod_a r_a^2  (r > 0)
        rs = [radvars[rad_of_axis[a]] for a in axes]
        rhs = 1
        for r in rs:
            rhs = rhs * r * r
        lhs = 0
        for i, dd in enumerate(d):
            term = z3.RealVal(dd * dd)
            for j, r in enumerate(rs):
                if j != i:
                    term = term * r * r
            lhs = lhs + term
        g = got if sc.isz(got) else z3.BoolVal(bool(got))
        if exact:
            c.prove(f"{name} cell {idx}: mask <=> centre strictly inside", g == (lhs < rhs), assume, replay, key=f"{keybase}:inclusion")
        else:
            eps = Fraction(1, 10**9)
            c.prove(f"{name} cell {idx}: clearly inside => masked", z3.Implies(lhs <= (1 - eps) * rhs, g), assume, replay, key=f"{keybase}:inclusion")
            c.prove(f"{name} cell {idx}: clearly outside => not masked", z3.Implies(lhs >= (1 + eps) * rhs, z3.Not(g)), assume, replay, key=f"{keybase}:inclusion")


def run_case(c, case):
    c.functions.update(META["functions"])
    ed, grid = _edges(case["grid"], c.seed)
    exact = case["grid"] != "uniform-50nm"
    unit = H if exact else 50e-9
    rng = np.random.default_rng(c.seed + 43)
    twin = False
    if case["kind"] == "sphere":
        for pat in case["patterns"]:
            # placement radii (concrete, only decide the bounding box): between 1 and 2.5 cells
            r0 = {n: float(unit * rng.integers(4, 11) / 4) for n in ("radius", "radius_x", "radius_y", "radius_z")}
            if pat == case["patterns"][0]:
                r0 = {n: 1.5 * unit for n in r0}  # an odd (3-cell) box: has cells on the principal axes (float-exact surface witnesses)
            kw = {n: r0[n] for n, p in zip(("radius_x", "radius_y", "radius_z"), pat) if p}
            obj = fdtdx.Sphere(name="shape", radius=r0["radius"], materials=MATS, material_name="b", **kw)
            o = _place(grid, obj, lambda vol: _pos(obj, vol, case["where"]))
            sl = o.grid_slice_tuple
            names = ["radius"] * (not all(pat)) + [n for n, p in zip(("radius_x", "radius_y", "radius_z"), pat) if p]
            radvars = {n: z3.Real(n) for n in names}
            rad_of_axis = {a: (("radius_x", "radius_y", "radius_z")[a] if pat[a] else "radius") for a in range(3)}
            c.symvars += len(radvars)

            def mask_fn(*rs, o=o, names=names):
                with jax.ensure_compile_time_eval():
                    oo = o
                    for n, r in zip(names, rs):
                        oo = oo.aset(n, r)
                    if all(pat) and "radius" not in names:
                        pass
                    return oo.get_voxel_mask_for_shape()

            t0 = time.time()
            it = jx.Interp()
            mask, tr = jx.call(mask_fn, *[jx.obj0(radvars[n]) for n in names], interp=it)
            c.interp_s += time.time() - t0
            mask = jx.lift(mask)
            shape = tuple(hi - lo for lo, hi in sl)
            if mask.shape != shape:
                raise Inconclusive(f"mask shape {mask.shape} differs from the object's grid shape {shape}")
            offs = _offsets(ed, sl)
            cells = [(idx, tuple(offs[a][idx[a]] for a in range(3))) for idx in np.ndindex(*shape)]
            assume = [v > 0 for v in radvars.values()] + [cnd for (_, cnd, _) in it.side]

            def run_real(vals, o=o, names=names):
                oo = o
                for n in names:
                    oo = oo.aset(n, float(vals[n]))
                return np.asarray(oo.get_voxel_mask_for_shape())

            # translator validation
            cv = {n: float(unit * rng.uniform(0.8, 2.2)) for n in names}
            c.validate(np.asarray(jx.to_numeric(jx.lift(tr(*[jx.fracarr(np.asarray(cv[n])) for n in names]))), dtype=float), run_real(cv).astype(float), "sphere mask")
            pname = "".join("xyz"[a] for a in range(3) if pat[a]) or "none"
            _check_cells(c, f"sphere[{pname}] box {shape}", mask, cells, radvars, rad_of_axis, (0, 1, 2), assume, run_real, offs, exact, f"sphere:{pname}:{case['grid']}", unit)
            if not twin:
                sym = [m for m in mask.reshape(-1) if sc.isz(m)]
                if sym:
                    twin = c.witness("twin: some cell is masked for one radius and not for another", z3.And(sym[0], z3.Not(z3.substitute(sym[0], *[(v, v / 8) for v in radvars.values()]))), assume)
    else:
        for axis in (0, 1, 2):
            r0 = float(unit * rng.integers(4, 11) / 4) if axis else 1.5 * unit  # axis 0: odd (3-cell) cross-section
            tr_axes = tuple(a for a in range(3) if a != axis)
            obj = fdtdx.Cylinder(name="shape", radius=r0, axis=axis, materials=MATS, material_name="b")
            o = _place(grid, obj, lambda vol: _pos(obj, vol, case["where"], axes=tr_axes) + [obj.extend_to(None, axis=axis, direction="+"), obj.extend_to(None, axis=axis, direction="-")])
            sl = o.grid_slice_tuple
            r = z3.Real("radius")
            radvars = {"radius": r}
            c.symvars += 1

            def mask_fn(rr, o=o):
                with jax.ensure_compile_time_eval():
                    return o.aset("radius", rr).get_voxel_mask_for_shape()

            t0 = time.time()
            it = jx.Interp()
            mask, tr = jx.call(mask_fn, jx.obj0(r), interp=it)
            c.interp_s += time.time() - t0
            mask = jx.lift(mask)
            shape = tuple((hi - lo) if a != axis else 1 for a, (lo, hi) in enumerate(sl))
            if mask.shape != shape:
                raise Inconclusive(f"cylinder mask shape {mask.shape}, expected {shape} (singleton along the axis)")
            offs = _offsets(ed, sl)
            cells = [(idx, tuple(offs[a][idx[a]] for a in tr_axes)) for idx in np.ndindex(*shape)]
            assume = [r > 0] + [cnd for (_, cnd, _) in it.side]

            def run_real(vals, o=o):
                return np.asarray(o.aset("radius", float(vals["radius"])).get_voxel_mask_for_shape())

            cv = {"radius": float(unit * rng.uniform(0.8, 2.2))}
            c.validate(np.asarray(jx.to_numeric(jx.lift(tr(jx.fracarr(np.asarray(cv["radius"]))))), dtype=float), run_real(cv).astype(float), "cylinder mask")
            _check_cells(c, f"cylinder[axis {axis}] box {shape}", mask, cells, radvars, {a: "radius" for a in tr_axes}, tr_axes, assume, run_real, offs, exact, f"cylinder:axis{axis}:{case['grid']}", unit)
            if not twin:
                sym = [m for m in mask.reshape(-1) if sc.isz(m)]
                if sym:
                    twin = c.witness("twin: some cell is masked for one radius and not for another", z3.And(sym[0], z3.Not(z3.substitute(sym[0], (r, r / 8)))), assume)
    if not twin:
        raise Inconclusive("no symbolic mask entry: the mask does not depend on the radii")
