"""Regenerates /verif/MANIFEST.json from the table below (python -m vf.manifest_gen)."""
import json
import os

VERIF = os.path.dirname(os.path.dirname(os.path.abspath(__file__)))

# property -> (technique, level text, level_note, design_ref)
CLAIMED = {
    "C02": ("jaxpr->SMT (z3) of forward∘backward, all fields and materials symbolic",
            "bounded SMT verification: for every listed scene (boundaries x materials x sources x grid) and every time index below the bound, z3 shows no real-valued field/material assignment makes backward(forward(state)) differ from state",
            "reals for floats; shapes <= 5x4x3; wall conditions imposed on inputs; seeded rational materials for full tensors and Bloch+lossy", "4/C02"),
}

CLAIMED["C14"] = ("concolic execution (pysym+z3) of core/switch.py with all schedule parameters symbolic; jaxpr->SMT of gated injection/recording",
                  "bounded SMT verification: for all 128 None-patterns and all real-valued schedule parameters z3 shows the on/off decision, on-list and index map equal the documented window rule (T <= bound); symbolic fields/detector states show inactive steps add/record nothing and active steps write exactly row idx[t]",
                  "reals for floats (edge ties decided by exact arithmetic); T <= 6 quick / 12 thorough; fixed lists of length <= 3", "4/C14")

CLAIMED["C01"] = ("jaxpr->SMT (z3) of two forward steps; discrete energy as one polynomial identity over all field values",
                  "bounded SMT verification: for every listed closed source-free scene (zero halo / PEC / PMC / periodic / Bloch / mixed faces; uniform and non-uniform grids; isotropic and diagonal eps, mu) z3 shows W(step k+1) == W(step k) for all real field values from an arbitrary wall-consistent state (inductive over steps); with conductivity the dissipation certificate identity and the sign of every certificate term",
                  "reals for floats; shapes <= 5x4x3; materials and conductivities are seeded exact rationals (not symbolic); oracle weights are the geometric staggered volumes", "4/C01")

CLAIMED["C03"] = ("jaxpr->SMT (z3) of T forward steps with interface recording followed by T backward steps with reset",
                  "bounded SMT verification: for every listed PML placement (single face, pairs, corner overlap, all faces; other faces periodic/PEC/PMC) z3 shows that after each reverse step E and H outside the PML equal the forward state of that step for all real interior fields and all positive inverse permittivities",
                  "reals for floats; T <= 6, shapes <= 4x4x4, PML thickness 1-3; lossless recorder; default grading", "4/C03")

CLAIMED["C05"] = ("jaxpr->SMT (z3) of run_fdtd under the three gradient strategies with symbolic materials; concolic execution of _reversible_slice_boundaries with unbounded symbolic T",
                  "bounded SMT verification: final fields, every detector state and the step count of run_fdtd agree between no-config, checkpointed (each checkpoint count) and reversible (each reversible checkpoint count) runs for all positive inverse permittivities; the slice boundaries start at 0, end at T and are strictly increasing for every k <= 48 and every integer T >= k",
                  "reals for floats; T <= 7 for the run comparison; round() modelled as exact round-half-even", "4/C05")
CLAIMED["C06"] = ("jaxpr->SMT (z3) of custom_fdtd_forward chains vs one call and of reset / re-run on containers with symbolic leftovers",
                  "bounded SMT verification: for every split point the chained partial runs equal the single run for all initial fields, PML auxiliaries and detector-state contents; run_fdtd on a container holding arbitrary leftovers (and a second run from returned arrays) equals the fresh run; reset zeroes every time-dependent leaf and keeps the materials",
                  "reals for floats (x*0=0); T <= 7; materials concrete", "4/C06")

CLAIMED["C10"] = ("jaxpr->SMT (z3) of T forward steps with symbolic source amplitude factors and initial fields; linearity by term substitution",
                  "bounded SMT verification: final fields and field/phasor detector records equal sum_k a_k F(e_k,0) + F(0,x) for all real amplitude factors a and initial states x; energy and Poynting records of a run scaled by a common factor s equal s^2 times the unscaled records for all real s",
                  "reals for floats; T <= 6; dipole (electric/magnetic), uniform and Gaussian plane sources; PML and periodic boundaries; materials concrete", "4/C10")
CLAIMED["C11"] = ("jaxpr->SMT (z3) of the same scene placed with real and with forced complex field storage",
                  "bounded SMT verification: for all real initial fields the real parts of the complex run equal the real run exactly, the imaginary parts are exactly 0 and all detector states agree (volume-reduced records: up to 1e-9 relative, decided by a boxed tolerance query because the two placements fold their weight constants differently)",
                  "reals for floats; T <= 6; PML / PEC / PMC / periodic faces; dipole, plane and Gaussian sources; all detector kinds of the shared scene", "4/C11")

CLAIMED["C04"] = ("jaxpr->SMT (z3) of jax.vjp(run_fdtd) under the reversible custom VJP and under checkpointed autodiff, cotangent symbolic on every detector output",
                  "bounded SMT verification: the gradients w.r.t. inverse permittivity and inverse permeability at every cell outside the absorbing layers are identical linear forms in the cotangent (hence equal for any scalar function of the detector outputs) for every number of reversible checkpoints; conductive scene with a checkpoint at every step",
                  "reals for floats; primal materials seeded exact rationals; T <= 5, 3x3x6 with z-PML and 3x2x4 periodic; dipole + plane sources; field/energy/Poynting/phasor detectors", "4/C04")

CLAIMED["C16"] = ("jaxpr->SMT (z3) of every detector's update driven directly with symbolic E, H, inverse materials and accumulated state",
                  "bounded SMT verification: reduced field/phasor/energy records equal the volume-weighted mean/sum of the spatial records, reduced Poynting flux equals the area-weighted sum, the minus direction negates, single component equals the propagation component of the all-component record, closed surface equals the signed sum of six face detectors, inverse phasor detectors subtract what forward ones add -- for all real field values and positive inverse materials, with oracle weights computed in the harness from the grid widths",
                  "reals for floats; regions <= 4x3x3 on dyadic uniform/non-uniform grids (exact weight arithmetic) plus a non-dyadic tolerance case; 3x3 tensor energy, as_slices, mode/diffractive/projection detectors out of scope", "4/C16")
CLAIMED["C17"] = ("jaxpr->SMT (z3) of PhasorDetector.update iterated over all steps with fresh symbolic fields; tolerance queries against a harness-side windowed DFT",
                  "bounded SMT verification: the accumulated phasor equals scale * sum_t w(t) f_t e^{i w t} (every stride incl. auto, scaling mode, window none/Gaussian/Tukey, switch, component subset, frequency set) within 1e-6 relative for all fields in [-1,1]; phasor Poynting detectors return (1/2 in continuous mode) sum area * Re(E x H*) of those phasors exactly",
                  "reals for floats; T <= 24; tolerance 1e-6 because the code keeps the window table in float32; cos/sin tables computed in the harness", "4/C17")

CLAIMED["C21"] = ("jaxpr->SMT (z3, linear real arithmetic) of every symmetry transform on fully symbolic arrays",
                  "bounded SMT verification: for all 8 classes and all options the output is exactly invariant under the documented index map, symmetric inputs are fixed points, the transform is idempotent and preserves the mean, for all real arrays of every listed shape",
                  "reals for floats; extents <= 5; 2D with the singleton axis at 0/1/2, 3D cubes and admissible non-cubes", "4/C21")
CLAIMED["C22"] = ("jaxpr->SMT (z3) of GaussianSmoothing2D._apply_smoothing with symbolic design and padding arrays (all 16 None-patterns)",
                  "bounded SMT verification: affine in the design/padding, constants fixed, output within the symbolic [lo,hi] range of all inputs (1e-12 relative), commutes with mirroring, default padding equals explicit edge replication -- for all real designs and paddings",
                  "reals for floats; std in {1,2}; planes <= 5x6; kernel weights are the exact rationals of the float64 weights the code computes", "4/C22")
CLAIMED["C32"] = ("jaxpr->SMT (z3) of unfold_fields / unfold_array / unfold_detector_states on symbolic arrays for all 26 symmetry tuples",
                  "bounded SMT verification: the upper half of every unfolding is the input; every reconstructed cell equals sign * source cell of the documented parity / mirror index table; volume-reduced records unfold to the reduction of the unfolded spatial record when nothing sits on a plane -- for all real arrays, E and H, ~30 detector variants per scene",
                  "reals for floats; reduced shapes <= 4 cells per axis; Diffractive / ClosedSurface / mode / projection detectors and non-uniform grids out of scope", "4/C32")

CLAIMED["C08"] = ("jaxpr->SMT (z3) of the same scene in the three cyclic axis orientations, relabelled by the harness and placed by the real placement code",
                  "bounded SMT verification: for all initial fields the outputs (E, H, raw field-detector records) of the relabelled scenes equal the permuted outputs of the original, for scenes with per-face PML/PEC/PMC/periodic/Bloch boundaries, diagonal eps/mu tensors, electric and magnetic dipoles and a plane source",
                  "reals for floats (1e-9 relative tolerance mode available, all obligations were discharged exactly); T <= 5; shapes with three different extents <= 5", "4/C08")
CLAIMED["C09"] = ("jaxpr->SMT (z3) of an N-cell periodic/Bloch domain and its tiled supercell, both placed by the real code",
                  "bounded SMT verification: for all N-cell fields (complex for Bloch) the supercell state after T steps equals the tiled N-cell state with the Bloch phase applied per copy, for tiling factors 2-3 along one or two axes, uniform and non-uniform (tiled-width) grids, k*L in {0, pi/2, pi, generic}",
                  "reals for floats; Bloch cases in 1e-9 relative tolerance mode (phase powers computed in the harness); T <= 5; materials seeded concrete", "4/C09")
CLAIMED["C18"] = ("jaxpr->SMT (z3) of apply_params on real device scenes with symbolic parameters, pre-existing materials and dispersive coefficients",
                  "bounded SMT verification: continuous devices give cell * blend(eps) = 1 (identity for full tensors) within the material range; discrete devices give exactly one material's inverse permittivity and coefficients; cells outside devices are unchanged; apply(p2, apply(p1, A)) == apply(p2, A) on an arbitrary symbolic state incl. etched devices",
                  "reals for floats (1e-9); 1-2 devices, 2-3 materials, 0-2 poles; full-tensor background concrete", "4/C18")
CLAIMED["C19"] = ("jaxpr->SMT (z3) of ClosestIndex.__call__ and its VJP with every input voxel symbolic",
                  "bounded SMT verification: the returned index is in range and no other allowed value (integer, or inverse permittivity of an isotropic material) is closer, for all real inputs; the shape is kept; vjp/grad return the cotangent unchanged",
                  "reals for floats; 2-5 materials; shapes incl. singleton axes and depth != number of materials", "4/C19")
CLAIMED["C24"] = ("jaxpr->SMT (z3) of binary_median_filter / PillarDiscretization with every voxel symbolic",
                  "bounded SMT verification: the median filter output equals the majority of the odd box under the configured padding for all binary inputs (decided over the real relaxation 0<=x<=1 first); pillar discretisation returns an allowed column that minimises the configured distance for all real inputs in a box",
                  "reals for floats; kernels {1,3,5}; volumes <= 3x3x4; heights <= 4, 2-4 isotropic materials", "4/C24")

CLAIMED["C38"] = ("jaxpr->SMT (z3) of the same scene placed under UniformGrid, explicit RectilinearGrid and QuasiUniformGrid",
                  "bounded SMT verification: for all initial fields the final fields and all detector records of the three placements agree (exactly: all differences simplify to 0)",
                  "reals for floats; T <= 5; even shapes (QuasiUniformGrid requires them); PML/PEC/PMC/periodic/Bloch faces", "4/C38")
CLAIMED["C26"] = ("concolic execution (pysym+z3) of resolve_object_constraints on constraint-graph templates with symbolic margins, offsets, proportions, coordinates",
                  "bounded SMT verification: on every successful path of the real resolver each clause (inside volume, positive size, declared shapes, grid/real coordinates, position/size/extension constraints with nearest-admissible-interval snapping, unconstrained axes span the volume) holds for all values of the symbolic parameters; over-determined systems must fail",
                  "reals for floats; 28-47 templates over <= 4 objects, one active axis of 6-8 cells; uniform + one dyadic non-uniform grid", "4/C26")
CLAIMED["C27"] = ("concolic execution (pysym+z3) of resolve_object_constraints re-run on permutations of the object and constraint lists inside one path exploration",
                  "bounded SMT verification: for all parameter values every permuted run agrees with the reference run on success and on every resolved slice",
                  "reals for floats; all permutations up to 12 (quick) / 48 (thorough), structured subset beyond; templates of C26", "4/C27")
CLAIMED["C28"] = ("concolic execution (pysym+z3) of _init_arrays with every placement_order symbolic; tier predicates with symbolic tensor entries",
                  "bounded SMT verification: for all integer placement orders each cell of the four material arrays carries the value of the painter's-rule winner (highest order, later list position breaks ties, volume lowest); component counts and the scalar permeability of non-magnetic scenes; all_objects_* predicates equal the exact tier for all symbolic tensor entries",
                  "box geometry enumerated (9 geometries, +100 interval pairs thorough), material values concrete in the painting part; orders in (-1000,1000)", "4/C28")
CLAIMED["C29"] = ("concolic execution (pysym+z3) of check_overlap with all 12 slice bounds symbolic; jaxpr->SMT of apply_params with symbolic device parameters",
                  "bounded SMT verification: boxes that share a cell => check_overlap is True for all integer bounds (64 per-axis relation classes); for a representative pair per class the source's cached material state equals the post-device arrays for every parameter value",
                  "mode/plane sources, detectors' (material-independent) state and dispersive devices out of scope", "4/C29")

CLAIMED["C20"] = ("jaxpr->SMT (z3) of tanh_projection / smoothed_projection and their jax.grad jaxprs; tanh/sqrt as uninterpreted functions with sound axioms; definedness obligations on all branches",
                  "bounded SMT verification: range [0,1], monotonicity (two symbolic points), fixed points 0 and 1, beta=0 equals clip, beta=inf equals a step away from eta, smoothed equals plain in cells without an interface, and every division / sqrt of primal and gradient jaxprs is defined for all x, rho, eta in [0,1] and beta >= 0 (incl. inf)",
                  "reals for floats: float overflow / 0*inf in masked branches out of scope; arrays <= 4x4; interface-free criterion is the harness's finite-difference criterion", "4/C20")
CLAIMED["C35"] = ("concolic execution (pysym+z3) of compute_pole_coefficients_* with all pole parameters and dt symbolic; jaxpr->SMT of susceptibility_from_coefficients with symbolic omega",
                  "bounded SMT verification: chi reconstructed from the stored recurrence coefficients equals the declared Lorentz / Drude / CCPR / critical-point model (cross-multiplied polynomial identity, real and imaginary parts) for all parameters with omega_0*dt < 2 and damping >= 0; no root of z^2 - c1 z - c2 outside the unit circle; zero-padded slots contribute exactly nothing",
                  "reals for floats; the asymptotic O((omega dt)^2) clause is NOT covered (limit statement); <= 2 poles per model; exactly undamped resonance excluded", "4/C35")
CLAIMED["C41"] = ("concolic execution (pysym+z3) of WaveCharacter; jaxpr->SMT of the temporal profiles with cos/exp as uninterpreted functions plus sound axioms",
                  "bounded SMT verification: period*frequency == 1 and wavelength == c*period for each given; the sampled custom signal is exact at samples and linear between them for all signals and times; |continuous-wave amplitude| <= ramp <= 1, Gaussian envelopes in (0,1]",
                  "reals for floats; signals of 2-6 samples; nearest-mode values between samples and Tukey window out of scope", "4/C41")

CLAIMED["C15"] = ("jaxpr->SMT (z3) of one forward step with field detectors at every contact class, against an independent restatement of the co-location stencil",
                  "bounded SMT verification: for all E, H the record of every exactly-interpolating detector equals the documented co-location (half-step averages, width-weighted on non-uniform grids, mean of adjacent H half-steps) of the full-domain field with zero / wrap / electric-mirror halo, restricted to its box -- interior fast path and edge fallback alike; non-interpolating detectors record the raw components",
                  "reals for floats; shapes <= 6x4x4; FieldDetector only; non-uniform grids with non-periodic axes; Bloch halo and magnetic planes out of scope", "4/C15")
CLAIMED["C33"] = ("jaxpr->SMT (z3) of the full-domain run from the unfolded input vs the unfolded reduced-domain run, both placed by the real code",
                  "bounded SMT verification: for all reduced-domain fields satisfying the wall condition, unfold(reduced run) equals the full-domain run and the co-located detector record of the reduced run equals the kept half of the full record, on every cell outside the light cone of the discarded half's far wall, for each axis as symmetry axis",
                  "reals for floats; n = 4-5 cells per half, T = 2-3 steps; electric planes only; no sources", "4/C33")
CLAIMED["C36"] = ("jaxpr->SMT (z3) of one forward step of a dispersive scene with symbolic fields, polarisations and coefficient arrays",
                  "bounded SMT verification of clause 1 only: the stored polarisation follows c1 P + c2 P_prev + c3 E on every cell; cells with all-zero coefficients (and zero history) evolve exactly like the same scene without dispersion; all-zero coefficients reproduce the non-dispersive step.  Clause 2 (energy bounded for 1e4 steps) is not encodable and NOT claimed",
                  "reals for floats; Lorentz/Drude poles, isotropic and per-axis; CCPR (c4), oriented poles and the full-tensor branch out of scope", "4/C36")

CLAIMED["C23"] = ("jaxpr->SMT (z3) of the flood-fill clean-up with every voxel a z3 Bool, against a reachability oracle",
                  "bounded SMT verification: a kept cell is connected to the bottom layer (lemma chain over the code's own dilation stages, each lemma a solver verdict), every connected cell is kept (reachability unrolled #cells-1 times), connect_holes_and_structures leaves no floating material and no enclosed background, module outputs are material indices -- for all binary designs of the listed shapes.  Two recorded known findings (too few sweeps; ValueError on thin designs)",
                  "designs <= 4x4x3 quick / 7x7x3 thorough; two materials; connect on 4x4x4 and larger not decided", "4/C23")
CLAIMED["C25"] = ("bounded model checking: jaxpr->SMT (z3) of BrushConstraint2D._generator with the symbolic while loop unrolled and an unwinding assertion",
                  "bounded SMT verification, the weakest claim of the set: for all real designs on 3x3 (quick) and 3x4 / 4x3 (thorough) grids the loop terminates within the proved unwinding bound, the output is binary, and every solid and every void pixel lies in a brush footprint whose in-domain part is entirely solid / void",
                  "4x4 could not be decided within budget (unwinding bound 11 unknown after 600 s) and is not claimed; brushes: plus, circular_brush(2), circular_brush(3); designs with a side shorter than the brush raise in convolve2d (outside the documented domain)", "4/C25")
CLAIMED["C34"] = ("concolic execution (pysym+z3) of reduce_resolved_slices / validate_symmetric_axis_cells / make_symmetry_walls with symbolic volume extents and object boxes",
                  "bounded SMT verification: odd or too small counts raise; kept half is [n/2, n) shifted to 0; every object is clipped to the intersection and dropped exactly when it is empty; unclipped extents are shifted by the plane index; exactly one PEC wall per electric plane -- for all integer extents <= 12 and all 27 symmetry tuples",
                  "counts <= 12; a concrete cross-check through place_objects is included but not solver-decided", "4/C34")
CLAIMED["C37"] = ("concolic execution (pysym+z3) of RectilinearGrid / UniformGrid helpers with symbolic edges, coordinates, sizes, anchors",
                  "bounded SMT verification: snapping returns the nearest/lower/upper edge; bounds_for_center / bounds_for_anchor return a size-preserving in-grid interval minimising the distance; extents, face areas and cell volumes agree with the edges; the CFL bound holds with the configured factor (within the documented 1e-4 uniformity tolerance for grids detected uniform); uniform detection and symmetric reduction as documented",
                  "reals for floats; <= 5 cells on the symbolic axis; QuasiUniformGrid out of scope; np.round(spacing,14) treated as identity", "4/C37")
CLAIMED["C39"] = ("concolic execution (pysym+z3) of materials.py normalisation, classification and ordering with symbolic tensor entries",
                  "bounded SMT verification: scalar / 3-tuple / 9-tuple / nested inputs normalise to the same 9-tuple; isotropy / diagonality / magnetic / conductive predicates agree with the tensor (exact => True, True => within the isclose band); all per-property lists use one order; a material built from a complex permittivity reproduces it at its reference frequency",
                  "reals for floats; <= 4 materials; dispersive coefficients out of scope", "4/C39")
CLAIMED["C40"] = ("concolic execution (pysym+z3) of TreeClass.aset with a symbolic path selector over nested TreeClass/list/dict templates",
                  "bounded SMT verification: for every addressable path (symbolic selector, 36-61 nodes per template) and all leaf values the result has the same type, equals an independent functional update, and the original is unchanged (identity of containers and leaves); bad paths raise and leave the original untouched",
                  "four templates; tuples/arrays as indexed containers out of scope; most leaf equalities are structural (decided before the solver), 128 selector-level obligations are non-trivial", "4/C40")

CLAIMED["C07"] = ("jaxpr->SMT (z3) of the three stopping predicates after the real setup with symbolic Int time, symbolic energy / detector trace / thresholds / min and max steps; and of run_fdtd's loop with a symbolic stop table",
                  "bounded SMT verification: every predicate stops at t >= min(max_steps, total steps), continues below min_steps and in between continues exactly while energy / spectral distance >= threshold, for all integer t and real inputs; run_fdtd halts at the first step at which the condition reports stop, never beyond the total, with the state of a plain run of that many steps",
                  "reals for floats; loop layer T <= 5; detector distance value only for 2 samples per period (4 left z3 unknown, outside)", "4/C07")
CLAIMED["C30"] = ("jaxpr->SMT (z3) of Recorder.init_state/compress/decompress with the recorded value at every step symbolic; QF_FP lemmas for widening dtype round trips",
                  "bounded SMT verification: for every T <= 40, k <= 8, every start step and every query time t >= start, decompress returns the recorded value at saved steps and the exact linear interpolation between the enclosing saved steps otherwise (1e-6, boxed history); widening conversions (f16/bf16/f32 -> f32/f64, c64 -> c128) round-trip exactly (z3 floating-point theory)",
                  "quick: T in {1,2,3,5,8,12}, k <= 4; chained time filters and sharded states out of scope", "4/C30")
CLAIMED["C31"] = ("concolic execution (pysym+z3) of _export_json / _import_obj_from_json on 47 templates with symbolic leaves; JSON codec replaced by its contract",
                  "bounded SMT verification, structural and weak (says so): the exported tree contains only JSON values with string keys and the re-imported object has the same class and equal public fields for all leaf values; one concrete end-to-end scene is placed on both sides and compared",
                  "every solver obligation is a leaf identity (nontrivial = 0); json.dumps/loads stubbed by their contract", "4/C31")
CLAIMED["C43"] = ("jaxpr->SMT (z3) of Sphere / Cylinder get_voxel_mask_for_shape with symbolic positive radii on dyadic uniform and non-uniform grids",
                  "bounded SMT verification: a cell is marked exactly when its centre (from the harness's own edges) lies strictly inside the analytic ellipsoid / cylinder, for all positive radii (strictness at the surface decided exactly on dyadic grids)",
                  "ExtrudedPolygon delegates to matplotlib's compiled path code: NOT covered; grids <= 5^3", "4/C43")

PYSYM_ONLY = {"C26", "C27", "C31", "C34", "C37", "C39", "C40"}
PYSYM_ALSO = {"C05", "C14", "C28", "C29", "C35", "C41"}

NOT_APPLICABLE = {
    "C12": "numerical accuracy bound (1e-6 residual energy after >=1e3 steps on >=40^3 cells in floating point); no algebraic identity, far beyond any bounded real-arithmetic encoding",
    "C13": "1e-3 power-ratio bound after hundreds of steps (TFSF leakage is small but non-zero by design); not an identity, out of reach for bounded real arithmetic",
    "C42": "property lives in XLA's SPMD partitioner and the multi-device runtime; the jaxpr is identical for any device count, no encoding reaches it",
}


def main():
    props = [json.loads(l)["id"] for l in open(os.path.join(VERIF, "properties.jsonl"))]
    checks = []
    for p in props:
        if p in CLAIMED:
            tech, text, note, ref = CLAIMED[p]
            checks.append(dict(
                property_id=p, quick_cmd=f"./check {p} --tier quick", thorough_cmd=f"./check {p} --tier thorough",
                evidence_file=f"evidence/{p}.json", replay_cmd_template=f"./check {p} --replay {{path}}",
                engine="jx2smt+pysym", technique=tech,
                level_claimed=dict(category="other", text=text, design_ref=f"DESIGN.md section {ref}"), level_note=note))
    na = []
    for p in props:
        if p not in CLAIMED:
            na.append(dict(property_id=p, reason=NOT_APPLICABLE.get(p, "harness not built yet (work in progress; see DESIGN.md section 4 for the planned encoding)")))
    man = dict(
        version=1, setup_cmd="./setup.sh",
        hooks=dict(guard="FDTDX_VERIF", enable="none needed: both engines observe the unmodified source (no hook commits)",
                   baseline_off_cmd="cd /repo && /venv/bin/python -m pytest -ra -q -p no:cacheprovider --timeout=900 --continue-on-collection-errors",
                   source_commits=[], add_only=True),
        engines=[
            dict(name="jx2smt", path="vf/jx2smt.py", kind_free_text="jaxpr (traced from /repo/src on every run) interpreted over z3 Real/Bool/Int terms and exact rationals; z3 verdict per obligation",
                 serves_properties=sorted(p for p in CLAIMED if p not in PYSYM_ONLY)),
            dict(name="pysym", path="vf/pysym.py", kind_free_text="concolic execution of the real Python source with z3-backed symbolic ints/reals, exhaustive DFS over feasible paths",
                 serves_properties=sorted(p for p in CLAIMED if p in PYSYM_ONLY or p in PYSYM_ALSO)),
            dict(name="fpsym", path="vf/fpsym.py", kind_free_text="float64-accurate symbolic scalars (bit-vector ints, z3 Float64 terms with CPython semantics) for properties about float rounding itself; queries in QF_BVFP",
                 serves_properties=["C05"]),
        ],
        checks=checks, not_applicable=na,
        notes="exit 0 held / only known findings; 1 VIOLATION (replayed on the real code); 3 inconclusive or harness error. Evidence level 'other' = bounded SMT verification (never called proof).",
    )
    with open(os.path.join(VERIF, "MANIFEST.json"), "w") as f:
        json.dump(man, f, indent=1)
    print("MANIFEST.json:", len(checks), "checks,", len(na), "not_applicable")


if __name__ == "__main__":
    main()
